//! C02 — the global recorder is installed at most once and is seen whole by everyone.
//!
//! Two streams, both replayed on the Lean step machine, which must take the same steps (same point ids)
//! and produce the same per-call results:
//!
//! * `cell run …`  — real `RecorderOnceCell`s (fresh per run, via `metrics::verif::RecorderCell`) raced by
//!   installer and loader threads under the deterministic scheduler. Installers hand in recorders of several
//!   shapes (sized struct, `Box<dyn …>`, zero-sized, over-aligned, `Arc`), and look at what comes back in
//!   several ways (`into_inner`, field `.0`, dropping the error unopened).
//! * `cell grun …` — the REAL process-wide path: `metrics::set_global_recorder`, `metrics::with_recorder` and
//!   the emission macros on `GLOBAL_RECORDER`, multi-call programs on long-lived threads (emit before, during
//!   and after installation; emissions under a local recorder in between), under the same scheduler. The
//!   global cell can be set once per process, so every case runs in a child process (this binary re-executed
//!   with `MV_C02_CHILD=<spec>`); the child prints the trace, the per-call results and its oracle verdicts.
//!   Round 3: the programs also contain FAULTS and RE-ENTRANCY inside the call into the recorder — the recorder
//!   double panics inside the call and the thread catches it and goes on (`p`), the double emits again from
//!   inside `register_*`/`describe_*` one or two levels deep (`n<k>`), the closure handed to `with_recorder`
//!   emits (`i`), a local scope unwinds because the local recorder panics (`y<l>`).

use crate::sched;
use crate::util::*;
use metrics::{Counter, Gauge, Histogram, Key, KeyName, Metadata, Recorder, SetRecorderError, SharedString, Unit};
use std::cell::RefCell;
use std::sync::atomic::{AtomicUsize, Ordering};
use std::sync::{Arc, Mutex};

// ---------------------------------------------------------------------------------------------------------
// recorder doubles (shared by both streams)

const MAGIC: u64 = 0xC0FFEE;
const NREC: usize = 64;
#[allow(clippy::declare_interior_mutable_const)]
const ZERO: AtomicUsize = AtomicUsize::new(0);
/// how often the double with this id was dropped / called (reset at the start of every in-process case)
static DROPS: [AtomicUsize; NREC] = [ZERO; NREC];
static CALLS: [AtomicUsize; NREC] = [ZERO; NREC];
/// logical clock for the happens-before oracles (managed threads run one at a time)
static CLOCK: AtomicUsize = AtomicUsize::new(0);

thread_local! {
    /// what the emissions of this thread reached since the log was last taken
    static SEEN: RefCell<Vec<String>> = RefCell::new(Vec::new());
    /// the next recorder double called on this thread panics (once) after it has logged the call
    static PANIC_NEXT: std::cell::Cell<bool> = std::cell::Cell::new(false);
    /// (levels, form): the next `levels` recorder doubles called on this thread emit once more, through form
    /// `form`, from INSIDE the call (after logging it)
    static NEST: std::cell::Cell<(usize, usize)> = std::cell::Cell::new((0, 0));
}

thread_local! {
    /// round 7: the trait method every recorder double was entered through, in call order (this thread)
    static METHODS: RefCell<Vec<&'static str>> = RefCell::new(Vec::new());
}
/// emissions whose recorder was entered through another method than the one the API form calls (a blanket impl
/// `&T` / `Box<T>` / `Arc<T>` forwarding to the wrong method); drained into the child's verdicts
static WRONG_METHOD: Mutex<Vec<String>> = Mutex::new(Vec::new());

const DOUBLE_PANIC: &str = "c02: recorder double panics inside the call";

/// what a recorder double does, on request, from inside a call into it: emit again / panic
fn react() {
    let (levels, form) = NEST.with(|n| n.get());
    if levels > 0 {
        NEST.with(|n| n.set((levels - 1, form)));
        let before = SEEN.with(|s| s.borrow().len());
        emit(form);
        // the no-op recorder leaves no trace: make "the inner emission reached nothing" visible
        if SEEN.with(|s| s.borrow().len()) == before {
            SEEN.with(|s| s.borrow_mut().push("none".to_string()));
        }
    }
    if PANIC_NEXT.with(|p| p.replace(false)) {
        panic!("{}", DOUBLE_PANIC);
    }
}

fn tick() -> usize {
    CLOCK.fetch_add(1, Ordering::SeqCst)
}
fn reset_counters() {
    for i in 0..NREC {
        DROPS[i].store(0, Ordering::SeqCst);
        CALLS[i].store(0, Ordering::SeqCst);
    }
}
fn hit(id: usize, intact: bool, method: &'static str) {
    METHODS.with(|m| m.borrow_mut().push(method));
    CALLS[id % NREC].fetch_add(1, Ordering::SeqCst);
    SEEN.with(|s| s.borrow_mut().push(if intact { format!("some{}", id) } else { "some9999".to_string() }));
    react();
}
/// result of one emission: what it reached (`none` = no double was called, i.e. the no-op recorder)
fn take_seen() -> String {
    let v = SEEN.with(|s| std::mem::take(&mut *s.borrow_mut()));
    match v.len() {
        0 => "none".to_string(),
        1 => v[0].clone(),
        _ => v.join("&"), // one emission dispatched more than once
    }
}

/// what the oracles need to know about a recorder that was handed back
trait Probe {
    fn pid(&self) -> usize;
    fn intact(&self) -> bool;
    /// round 7: address of the recorder OBJECT where handing the value around does not move it (heap / static
    /// referent); 0 = the value itself is moved (sized by-value shapes). A rejected installation must hand back THE
    /// object, not an equal one built anew.
    fn addr(&self) -> usize {
        0
    }
}

macro_rules! impl_recorder_double {
    ($ty:ty) => {
        impl Recorder for $ty {
            fn describe_counter(&self, _: KeyName, _: Option<Unit>, _: SharedString) {
                hit(self.pid(), self.intact(), "describe_counter");
            }
            fn describe_gauge(&self, _: KeyName, _: Option<Unit>, _: SharedString) {
                hit(self.pid(), self.intact(), "describe_gauge");
            }
            fn describe_histogram(&self, _: KeyName, _: Option<Unit>, _: SharedString) {
                hit(self.pid(), self.intact(), "describe_histogram");
            }
            fn register_counter(&self, _: &Key, _: &Metadata<'_>) -> Counter {
                hit(self.pid(), self.intact(), "register_counter");
                Counter::noop()
            }
            fn register_gauge(&self, _: &Key, _: &Metadata<'_>) -> Gauge {
                hit(self.pid(), self.intact(), "register_gauge");
                Gauge::noop()
            }
            fn register_histogram(&self, _: &Key, _: &Metadata<'_>) -> Histogram {
                hit(self.pid(), self.intact(), "register_histogram");
                Histogram::noop()
            }
        }
    };
}

/// plain sized recorder with content; `whole` is set last in the constructor
struct Rec {
    id: usize,
    payload: [u64; 6],
    whole: u64,
}
fn payload_of(id: usize, k: usize) -> u64 {
    (id as u64 + 1).wrapping_mul(0x9E37_79B9_7F4A_7C15).rotate_left(k as u32 * 7 + 1)
}
impl Rec {
    fn new(id: usize) -> Rec {
        let mut payload = [0u64; 6];
        for (k, p) in payload.iter_mut().enumerate() {
            *p = payload_of(id, k);
        }
        Rec { id, payload, whole: MAGIC }
    }
}
impl Drop for Rec {
    fn drop(&mut self) {
        DROPS[self.id % NREC].fetch_add(1, Ordering::SeqCst);
    }
}
impl Probe for Rec {
    fn pid(&self) -> usize {
        self.id
    }
    fn intact(&self) -> bool {
        self.whole == MAGIC && self.payload.iter().enumerate().all(|(k, p)| *p == payload_of(self.id, k))
    }
}
impl_recorder_double!(Rec);

/// over-aligned and large
#[repr(align(256))]
struct Big {
    pad: [u8; 300],
    inner: Rec,
}
impl Big {
    fn new(id: usize) -> Big {
        let mut pad = [0u8; 300];
        for (k, p) in pad.iter_mut().enumerate() {
            *p = (id * 31 + k) as u8;
        }
        Big { pad, inner: Rec::new(id) }
    }
}
impl Probe for Big {
    fn pid(&self) -> usize {
        self.inner.id
    }
    fn intact(&self) -> bool {
        (self as *const Big as usize) % 256 == 0
            && self.inner.intact()
            && self.pad.iter().enumerate().all(|(k, p)| *p == (self.inner.id * 31 + k) as u8)
    }
}
impl_recorder_double!(Big);

/// zero-sized recorder (`Box::leak(Box::new(zst))` is a dangling-but-valid pointer)
struct Zst<const N: usize>;
impl<const N: usize> Drop for Zst<N> {
    fn drop(&mut self) {
        DROPS[N % NREC].fetch_add(1, Ordering::SeqCst);
    }
}
impl<const N: usize> Probe for Zst<N> {
    fn pid(&self) -> usize {
        N
    }
    fn intact(&self) -> bool {
        true
    }
}
impl<const N: usize> Recorder for Zst<N> {
    fn describe_counter(&self, _: KeyName, _: Option<Unit>, _: SharedString) {
        hit(N, true, "describe_counter");
    }
    fn describe_gauge(&self, _: KeyName, _: Option<Unit>, _: SharedString) {
        hit(N, true, "describe_gauge");
    }
    fn describe_histogram(&self, _: KeyName, _: Option<Unit>, _: SharedString) {
        hit(N, true, "describe_histogram");
    }
    fn register_counter(&self, _: &Key, _: &Metadata<'_>) -> Counter {
        hit(N, true, "register_counter");
        Counter::noop()
    }
    fn register_gauge(&self, _: &Key, _: &Metadata<'_>) -> Gauge {
        hit(N, true, "register_gauge");
        Gauge::noop()
    }
    fn register_histogram(&self, _: &Key, _: &Metadata<'_>) -> Histogram {
        hit(N, true, "register_histogram");
        Histogram::noop()
    }
}

/// trait object behind a box (unsized payload, the shape exporters' builders hand in)
trait DynRec: Recorder + Probe + Send + Sync {}
impl DynRec for Rec {}
impl DynRec for Big {}
impl Probe for Box<dyn DynRec> {
    fn pid(&self) -> usize {
        (**self).pid()
    }
    fn intact(&self) -> bool {
        (**self).intact()
    }
    fn addr(&self) -> usize {
        &**self as *const dyn DynRec as *const u8 as usize
    }
}
/// round 7: a recorder handed in BY REFERENCE (`&'static T`, blanket impl `impl Recorder for &T`)
impl Probe for &'static Rec {
    fn pid(&self) -> usize {
        (**self).pid()
    }
    fn intact(&self) -> bool {
        (**self).intact()
    }
    fn addr(&self) -> usize {
        *self as *const Rec as usize
    }
}
impl Probe for Arc<Rec> {
    fn pid(&self) -> usize {
        (**self).pid()
    }
    fn intact(&self) -> bool {
        // handed back intact also means: nobody kept a clone of the Arc
        (**self).intact() && Arc::strong_count(self) == 1
    }
    fn addr(&self) -> usize {
        Arc::as_ptr(self) as usize
    }
}

/// local recorder double (for emissions under `with_local_recorder`)
struct LRec {
    id: usize,
}
impl Recorder for LRec {
    fn describe_counter(&self, _: KeyName, _: Option<Unit>, _: SharedString) {
        self.seen("describe_counter")
    }
    fn describe_gauge(&self, _: KeyName, _: Option<Unit>, _: SharedString) {
        self.seen("describe_gauge")
    }
    fn describe_histogram(&self, _: KeyName, _: Option<Unit>, _: SharedString) {
        self.seen("describe_histogram")
    }
    fn register_counter(&self, _: &Key, _: &Metadata<'_>) -> Counter {
        self.seen("register_counter");
        Counter::noop()
    }
    fn register_gauge(&self, _: &Key, _: &Metadata<'_>) -> Gauge {
        self.seen("register_gauge");
        Gauge::noop()
    }
    fn register_histogram(&self, _: &Key, _: &Metadata<'_>) -> Histogram {
        self.seen("register_histogram");
        Histogram::noop()
    }
}
impl LRec {
    fn seen(&self, method: &'static str) {
        METHODS.with(|m| m.borrow_mut().push(method));
        SEEN.with(|s| s.borrow_mut().push(format!("local{}", self.id)));
        react();
    }
}

const NKINDS: usize = 6;
fn kind_of(id: usize, salt: usize) -> usize {
    let k = (id + salt) % NKINDS;
    if k == 2 && !(1..=12).contains(&id) {
        0
    } else {
        k
    }
}
fn kind_name(k: usize) -> &'static str {
    ["sized", "box-dyn", "zst", "over-aligned", "arc", "static-ref"][k]
}

/// what the caller does with a rejected installation: result string (`err<id>`; anything else is a defect)
fn look_at_rejection<R: Probe>(e: SetRecorderError<R>, id: usize, how: usize, addr: usize) -> String {
    // the error's own Display/Debug must not need the recorder
    let shown = format!("{} / {:?}", e, e);
    if !shown.contains("already initialized") {
        return format!("err{}!display", id);
    }
    let back = match how % 3 {
        0 => e.into_inner(),
        1 => e.0,
        _ => {
            // dropped unopened: the drop counter is all there is to see
            drop(e);
            return format!("err{}", id);
        }
    };
    let s = if !back.intact() {
        format!("err{}!damaged", back.pid())
    } else if back.addr() != addr {
        format!("err{}!another-object", back.pid())
    } else {
        format!("err{}", back.pid())
    };
    drop(back);
    s
}

macro_rules! with_zst {
    ($id:expr, $f:expr) => {
        match $id {
            1 => $f(Zst::<1>),
            2 => $f(Zst::<2>),
            3 => $f(Zst::<3>),
            4 => $f(Zst::<4>),
            5 => $f(Zst::<5>),
            6 => $f(Zst::<6>),
            7 => $f(Zst::<7>),
            8 => $f(Zst::<8>),
            9 => $f(Zst::<9>),
            10 => $f(Zst::<10>),
            11 => $f(Zst::<11>),
            _ => $f(Zst::<12>),
        }
    };
}

/// round 7: the caller owns a leaked recorder and installs a REFERENCE to it; when the installation is rejected the
/// reference comes back and the caller frees its recorder itself (that is the one drop the oracles expect)
fn by_static_ref(id: usize, install: impl FnOnce(&'static Rec) -> String) -> String {
    let leaked: &'static Rec = Box::leak(Box::new(Rec::new(id)));
    let s = install(leaked);
    if s != "ok" {
        // SAFETY: `leaked` came from `Box::leak` above; a rejected installation must not keep the reference.
        unsafe { drop(Box::from_raw(leaked as *const Rec as *mut Rec)) };
    }
    s
}

/// one installation on a private cell
fn cell_install(cell: &metrics::verif::RecorderCell, id: usize, salt: usize) -> String {
    fn go<R: Recorder + Probe + 'static>(cell: &metrics::verif::RecorderCell, r: R, id: usize, how: usize) -> String {
        let addr = r.addr();
        match cell.set(r) {
            Ok(()) => "ok".to_string(),
            Err(e) => look_at_rejection(e, id, how, addr),
        }
    }
    let how = id / 2 + salt;
    match kind_of(id, salt) {
        0 => go(cell, Rec::new(id), id, how),
        1 => {
            let b: Box<dyn DynRec> = if id % 2 == 0 { Box::new(Rec::new(id)) } else { Box::new(Big::new(id)) };
            go(cell, b, id, how)
        }
        2 => with_zst!(id, |z| go(cell, z, id, how)),
        3 => go(cell, Big::new(id), id, how),
        5 => by_static_ref(id, |r| go(cell, r, id, how)),
        _ => go(cell, Arc::new(Rec::new(id)), id, how),
    }
}

/// one installation on the real global cell
fn global_install(id: usize, salt: usize) -> String {
    fn go<R: Recorder + Probe + Sync + 'static>(r: R, id: usize, how: usize) -> String {
        let addr = r.addr();
        // round 7: only what the LIBRARY allocates inside the call is tracked (the recorder was built outside);
        // counting is on in the child processes only (`alloc::install` in `child`), a pass-through elsewhere
        match crate::alloc::track(|| metrics::set_global_recorder(r)) {
            Ok(()) => "ok".to_string(),
            Err(e) => look_at_rejection(e, id, how, addr),
        }
    }
    let how = id / 2 + salt;
    match kind_of(id, salt) {
        0 => go(Rec::new(id), id, how),
        1 => {
            let b: Box<dyn DynRec> = if id % 2 == 0 { Box::new(Rec::new(id)) } else { Box::new(Big::new(id)) };
            go(b, id, how)
        }
        2 => with_zst!(id, |z| go(z, id, how)),
        3 => go(Big::new(id), id, how),
        5 => by_static_ref(id, |r| go(r, id, how)),
        _ => go(Arc::new(Rec::new(id)), id, how),
    }
}

// ---------------------------------------------------------------------------------------------------------
// stream 1: private cells

#[derive(Clone, Copy, Debug)]
enum Call {
    Set(usize),
    Load,
}

fn prog_tok(p: &[Call]) -> String {
    if p.is_empty() {
        return "-".into();
    }
    p.iter()
        .map(|c| match c {
            Call::Set(r) => format!("s{}", r),
            Call::Load => "l".to_string(),
        })
        .collect::<Vec<_>>()
        .join("+")
}

struct Outcome {
    results: Vec<Vec<String>>,
    final_cell: Option<String>,
    drops: Vec<usize>,
    calls: Vec<usize>,
    run: sched::RunResult,
}

fn execute(progs: &[Vec<Call>], schedule: &[usize], salt: usize) -> Outcome {
    reset_counters();
    let cell = Arc::new(metrics::verif::RecorderCell::new());
    let results: Arc<Mutex<Vec<Vec<String>>>> = Arc::new(Mutex::new(vec![vec![]; progs.len()]));
    let mut bodies: Vec<Box<dyn FnOnce() + Send + 'static>> = vec![];
    for (t, prog) in progs.iter().enumerate() {
        let prog = prog.clone();
        let cell = cell.clone();
        let results = results.clone();
        bodies.push(Box::new(move || {
            for c in prog {
                let r = match c {
                    Call::Set(id) => cell_install(&cell, id, salt),
                    Call::Load => match cell.try_load() {
                        Some(r) => {
                            // dispatch an emission to it, as `with_recorder` would
                            let _ = take_seen();
                            r.describe_counter(KeyName::from_const_str("probe"), None, SharedString::const_str(""));
                            take_seen()
                        }
                        None => "none".to_string(),
                    },
                };
                results.lock().unwrap()[t].push(r);
            }
        }));
    }
    let run = sched::run(bodies, schedule);
    let res = results.lock().unwrap().clone();
    let final_cell = cell.try_load().map(|r| {
        let _ = take_seen();
        r.describe_counter(KeyName::from_const_str("probe"), None, SharedString::const_str(""));
        take_seen().trim_start_matches("some").to_string()
    });
    Outcome {
        results: res,
        final_cell,
        drops: DROPS.iter().map(|d| d.load(Ordering::SeqCst)).collect(),
        calls: CALLS.iter().map(|d| d.load(Ordering::SeqCst)).collect(),
        run,
    }
}

fn answer(o: &Outcome) -> String {
    let labels: Vec<&str> = o.run.trace.iter().map(|(_, id)| *id).collect();
    let res = list(o.results.iter().map(|r| if r.is_empty() { ".".to_string() } else { r.join("+") }));
    format!(
        "{} | {} | cell={}",
        labels.join("."),
        res,
        match &o.final_cell {
            Some(r) => r.clone(),
            None => "~".into(),
        }
    )
}

fn oracle(out: &mut Out, progs: &[Vec<Call>], o: &Outcome) {
    if o.run.deadlock || o.run.timed_out || !o.run.panicked.is_empty() {
        out.oracle_fail("install/lookup race: deadlock, timeout or panic", &format!("{:?}", o.run));
        return;
    }
    let mut oks = 0;
    let mut winner = None;
    for (t, prog) in progs.iter().enumerate() {
        for (i, c) in prog.iter().enumerate() {
            let r = match o.results[t].get(i) {
                Some(r) => r,
                None => {
                    out.oracle_fail("install/lookup race: a call did not complete", &format!("thread {} call {}", t, i));
                    continue;
                }
            };
            match c {
                Call::Set(id) => {
                    if r == "ok" {
                        oks += 1;
                        winner = Some(*id);
                        if o.drops[*id] != 0 {
                            out.oracle_fail("installed recorder was dropped by the library", &format!("id {}", id));
                        }
                    } else if *r != format!("err{}", id) {
                        out.oracle_fail("rejected installation did not hand back the caller's own recorder intact", r);
                    } else {
                        if o.drops[*id] != 1 {
                            out.oracle_fail(
                                "rejected recorder dropped or leaked by the library (drop count != 1 after the caller dropped it)",
                                &format!("id {} drops {}", id, o.drops[*id]),
                            );
                        }
                        if o.calls[*id] != 0 {
                            out.oracle_fail(
                                "rejected recorder was used by the library before it was handed back",
                                &format!("id {} calls {}", id, o.calls[*id]),
                            );
                        }
                    }
                }
                Call::Load => {}
            }
        }
    }
    if oks > 1 {
        out.oracle_fail("more than one global-recorder installation succeeded", &format!("{:?}", o.results));
    }
    // every Some is the winner, fully constructed
    for r in o.results.iter().flatten() {
        if let Some(x) = r.strip_prefix("some") {
            if Some(x.to_string()) != winner.map(|w| w.to_string()) {
                out.oracle_fail("a lookup returned something other than the installed recorder", r);
            }
        }
    }
    // once any lookup has seen the recorder, every lookup that starts later sees it too
    let first_seen = o.run.trace.iter().position(|(_, id)| *id == "cell.load.read");
    if let Some(fs) = first_seen {
        // completion of that lookup is the step itself; lookups whose state load is granted later must be Some
        let mut per_thread_load_idx = vec![0usize; progs.len()];
        for (gi, (t, id)) in o.run.trace.iter().enumerate() {
            if *id == "cell.load.state" {
                let k = per_thread_load_idx[*t];
                per_thread_load_idx[*t] += 1;
                if gi > fs {
                    // k-th load of thread t
                    let idx = progs[*t].iter().enumerate().filter(|(_, c)| matches!(c, Call::Load)).nth(k).map(|x| x.0);
                    if let Some(i) = idx {
                        if !o.results[*t].get(i).map_or(false, |r| r.starts_with("some")) {
                            out.oracle_fail(
                                "a lookup that started after another lookup had seen the recorder returned None",
                                &format!("thread {} call {} trace {:?}", t, i, o.run.trace),
                            );
                        }
                    }
                }
            }
        }
    }
}

fn gen_progs(r: &mut Rng) -> Vec<Vec<Call>> {
    let n = if r.chance(1, 4) { r.range(5, 6) } else { r.range(2, 4) };
    let mut next_id = 1;
    let mut progs = vec![];
    for t in 0..n {
        let mut p = vec![];
        let k = r.range(1, 3);
        for _ in 0..k {
            if (t < 2 && p.is_empty()) || r.chance(1, 3) {
                p.push(Call::Set(next_id));
                next_id += 1;
            } else {
                p.push(Call::Load);
            }
        }
        progs.push(p);
    }
    progs
}

/// random schedule with bursts (a thread keeps the token for a while, then a switch)
fn bursty(r: &mut Rng, threads: usize, len: usize) -> Vec<usize> {
    let mut sch = vec![];
    let mut cur = r.below(threads);
    for _ in 0..len {
        if r.chance(1, 2) {
            cur = r.below(threads);
        }
        sch.push(cur);
    }
    sch
}

// ---------------------------------------------------------------------------------------------------------
// stream 2: the real global path, one child process per case

#[derive(Clone, Copy, Debug, PartialEq)]
enum GCall {
    /// `set_global_recorder(recorder id)`
    Install(usize),
    /// emission without a local recorder, through form `f`
    Emit(usize),
    /// emission inside `with_local_recorder(local id, ..)`, through form `f`
    EmitLocal(usize, usize),
    /// emission (form `f`) whose recorder call panics if it reaches a recorder double; caught by the thread
    EmitPanic(usize),
    /// emission (form `f`) whose recorder double emits again from inside the call, `k` levels deep
    EmitNested(usize, usize),
    /// `with_recorder(|r| { r.describe_counter(..); <emission through form f> })`
    EmitIn(usize),
    /// emission (form `f`) inside `with_local_recorder(local id, ..)` whose recorder panics; caught OUTSIDE the scope
    EmitLocalPanic(usize, usize),
    /// round 7: `with_recorder(|r| { r.describe_counter(..); set_global_recorder(recorder id); <emission form f> })` —
    /// an installation made from INSIDE a dispatched call (the closure also runs on the no-op recorder)
    InstallIn(usize, usize),
    /// round 7: `with_local_recorder(local l, || { set_global_recorder(recorder id); <emission form f> })`
    InstallLocal(usize, usize, usize),
    /// round 7: `{ let _g = set_default_local_recorder(local l); <emission form f> }` (the guard API)
    EmitGuard(usize, usize),
    /// round 7: the thread SPAWNS a fresh OS thread in the middle of the race and joins it; the new thread emits
    /// (form f) — it takes the parent's scheduler slot, so its lookup is interleaved step by step like any other
    EmitSpawn(usize),
    /// round 7: (directly after `EmitSpawn`) the spawned thread emits once more (form f) from a THREAD-LOCAL
    /// DESTRUCTOR while it exits; anywhere else: a plain emission
    EmitExit(usize),
}

thread_local! {
    /// armed in a spawned thread: emits from its destructor at thread exit and files the event in the slot
    static EXIT_EMIT: ExitEmitter = ExitEmitter(std::cell::Cell::new(None));
}
struct ExitEmitter(std::cell::Cell<Option<(usize, Arc<Mutex<Option<Ev>>>)>>);
impl Drop for ExitEmitter {
    fn drop(&mut self) {
        if let Some((f, slot)) = self.0.take() {
            let _ = take_seen();
            let start = tick();
            emit(f);
            let result = take_seen();
            let end = tick();
            *slot.lock().unwrap() = Some(Ev { start, end, result });
        }
    }
}

/// runs `f`, catching the doubles' own panic (anything else is re-raised); true = it panicked
fn catching(f: impl FnOnce()) -> bool {
    match std::panic::catch_unwind(std::panic::AssertUnwindSafe(f)) {
        Ok(()) => false,
        Err(p) => {
            let ours = p.downcast_ref::<String>().map_or(false, |m| m == DOUBLE_PANIC)
                || p.downcast_ref::<&str>().map_or(false, |m| *m == DOUBLE_PANIC);
            if !ours {
                std::panic::resume_unwind(p);
            }
            true
        }
    }
}

const NFORMS: usize = 6;
fn form_name(f: usize) -> &'static str {
    ["with_recorder", "counter!", "gauge!", "histogram!", "describe_gauge!", "counter!+labels"][f % NFORMS]
}
/// one emission through the public API; every form calls exactly one method of the recorder in scope
fn emit(form: usize) {
    let n0 = METHODS.with(|m| m.borrow().len());
    emit_raw(form);
    // the first double entered after `n0` is the one this emission was dispatched to (nested ones come later)
    let expected = ["describe_counter", "register_counter", "register_gauge", "register_histogram", "describe_gauge", "register_counter"][form % NFORMS];
    if let Some(m) = METHODS.with(|m| m.borrow().get(n0).copied()) {
        if m != expected {
            WRONG_METHOD.lock().unwrap().push(format!("{} entered the recorder through {} (expected {})", form_name(form), m, expected));
        }
    }
}
fn emit_raw(form: usize) {
    match form % NFORMS {
        0 => metrics::with_recorder(|r| {
            r.describe_counter(KeyName::from_const_str("c02.probe"), None, SharedString::const_str(""))
        }),
        1 => metrics::counter!("c02.counter").increment(1),
        2 => metrics::gauge!("c02.gauge").set(1.0),
        3 => metrics::histogram!("c02.histogram").record(0.5),
        4 => metrics::describe_gauge!("c02.gauge", "described"),
        _ => metrics::counter!("c02.counter", "k" => "v").increment(2),
    }
}

fn gprog_tok(p: &[GCall], for_model: bool) -> String {
    if p.is_empty() {
        return "-".into();
    }
    p.iter()
        .map(|c| match (c, for_model) {
            (GCall::Install(r), _) => format!("s{}", r),
            (GCall::Emit(_), true) => "e".to_string(),
            (GCall::Emit(f), false) => format!("e{}", f),
            (GCall::EmitLocal(l, _), true) => format!("x{}", l),
            (GCall::EmitLocal(l, f), false) => format!("x{}f{}", l, f),
            (GCall::EmitPanic(_), true) => "p".to_string(),
            (GCall::EmitPanic(f), false) => format!("p{}", f),
            (GCall::EmitNested(k, _), true) => format!("n{}", k),
            (GCall::EmitNested(k, f), false) => format!("n{}f{}", k, f),
            (GCall::EmitIn(_), true) => "i".to_string(),
            (GCall::EmitIn(f), false) => format!("i{}", f),
            (GCall::EmitLocalPanic(l, _), true) => format!("y{}", l),
            (GCall::EmitLocalPanic(l, f), false) => format!("y{}f{}", l, f),
            (GCall::InstallIn(r, _), true) => format!("w{}", r),
            (GCall::InstallIn(r, f), false) => format!("w{}f{}", r, f),
            (GCall::InstallLocal(l, r, _), true) => format!("v{}r{}", l, r),
            (GCall::InstallLocal(l, r, f), false) => format!("v{}r{}f{}", l, r, f),
            // the guard API is the scope API without the closure: same model call
            (GCall::EmitGuard(l, _), true) => format!("x{}", l),
            (GCall::EmitGuard(l, f), false) => format!("g{}f{}", l, f),
            // a lookup on a thread started during the race / from a thread-local destructor is a lookup
            (GCall::EmitSpawn(_), true) | (GCall::EmitExit(_), true) => "e".to_string(),
            (GCall::EmitSpawn(f), false) => format!("t{}", f),
            (GCall::EmitExit(f), false) => format!("z{}", f),
        })
        .collect::<Vec<_>>()
        .join("+")
}
fn gprogs_tok(progs: &[Vec<GCall>], for_model: bool) -> String {
    list(progs.iter().map(|p| gprog_tok(p, for_model)))
}
fn parse_gprogs(s: &str) -> Vec<Vec<GCall>> {
    if s == "." {
        return vec![];
    }
    s.split(',')
        .map(|p| {
            if p == "-" {
                return vec![];
            }
            p.split('+')
                .map(|c| {
                    let (h, rest) = c.split_at(1);
                    match h {
                        "s" => GCall::Install(rest.parse().unwrap()),
                        "e" => GCall::Emit(rest.parse().unwrap()),
                        "x" => {
                            let (l, f) = rest.split_once('f').unwrap();
                            GCall::EmitLocal(l.parse().unwrap(), f.parse().unwrap())
                        }
                        "p" => GCall::EmitPanic(rest.parse().unwrap()),
                        "i" => GCall::EmitIn(rest.parse().unwrap()),
                        "n" => {
                            let (k, f) = rest.split_once('f').unwrap();
                            GCall::EmitNested(k.parse().unwrap(), f.parse().unwrap())
                        }
                        "y" => {
                            let (l, f) = rest.split_once('f').unwrap();
                            GCall::EmitLocalPanic(l.parse().unwrap(), f.parse().unwrap())
                        }
                        "w" => {
                            let (r, f) = rest.split_once('f').unwrap();
                            GCall::InstallIn(r.parse().unwrap(), f.parse().unwrap())
                        }
                        "v" => {
                            let (l, rf) = rest.split_once('r').unwrap();
                            let (r, f) = rf.split_once('f').unwrap();
                            GCall::InstallLocal(l.parse().unwrap(), r.parse().unwrap(), f.parse().unwrap())
                        }
                        "g" => {
                            let (l, f) = rest.split_once('f').unwrap();
                            GCall::EmitGuard(l.parse().unwrap(), f.parse().unwrap())
                        }
                        "t" => GCall::EmitSpawn(rest.parse().unwrap()),
                        "z" => GCall::EmitExit(rest.parse().unwrap()),
                        _ => panic!("bad child spec {}", c),
                    }
                })
                .collect()
        })
        .collect()
}

const API_POINT: &str = "api.call";

/// for an emission without a local recorder: (number of lookups it makes when every one of them finds the
/// installed recorder, whether the recorder double then panics); None for the other calls
fn global_shape(c: &GCall) -> Option<(usize, bool)> {
    match c {
        GCall::Emit(_) => Some((1, false)),
        GCall::EmitPanic(_) => Some((1, true)),
        GCall::EmitNested(k, _) => Some((k + 1, false)),
        GCall::EmitIn(_) => Some((2, false)),
        GCall::InstallIn(..) => Some((2, false)),
        GCall::EmitSpawn(_) | GCall::EmitExit(_) => Some((1, false)),
        _ => None,
    }
}

/// the part of a call's result that belongs to its emissions without a local recorder (`InstallIn` answers
/// `<outer>&<installation>&<inner>`: the middle token is the installation's)
fn emission_part(c: &GCall, result: &str) -> String {
    if let GCall::InstallIn(..) = c {
        let p: Vec<&str> = result.split('&').collect();
        if p.len() == 3 {
            return format!("{}&{}", p[0], p[2]);
        }
    }
    result.to_string()
}
/// (recorder id, what the installation answered) for the calls that install
fn install_part(c: &GCall, result: &str) -> Option<(usize, String)> {
    match c {
        GCall::Install(id) => Some((*id, result.to_string())),
        GCall::InstallIn(id, _) => Some((*id, result.split('&').nth(1).unwrap_or("<missing>").to_string())),
        GCall::InstallLocal(_, id, _) => Some((*id, result.split('&').next().unwrap_or("<missing>").to_string())),
        _ => None,
    }
}

struct Ev {
    start: usize,
    end: usize,
    result: String,
}

/// child process: runs ONE case on the real global recorder, prints
///   ANSWER <labels> | <results> | cell=<id|~>      (same shape as the model's answer)
///   TAKEN <schedule actually taken>   CHOICES <runnable sets>   FAIL <what> :: <detail>
fn child(spec: &str) {
    let parts: Vec<&str> = spec.split(';').collect();
    let progs = parse_gprogs(parts[0]);
    let schedule: Vec<usize> =
        if parts[1] == "-" { vec![] } else { parts[1].split('.').map(|x| x.parse().unwrap()).collect() };
    let salt: usize = parts[2].parse().unwrap();
    let mut fails: Vec<(String, String)> = vec![];
    // round 7: from here on the allocations made INSIDE `set_global_recorder` calls are counted (tracking allocator of
    // the harness): a rejected installation must not leave a heap slot behind, the winner leaves exactly one
    crate::alloc::install();
    crate::alloc::start();
    // the doubles' ordered panics are part of the input: keep them off stderr, leave every other panic loud
    let default_hook = std::panic::take_hook();
    std::panic::set_hook(Box::new(move |info| {
        let ours = info.payload().downcast_ref::<String>().map_or(false, |m| m == DOUBLE_PANIC)
            || info.payload().downcast_ref::<&str>().map_or(false, |m| *m == DOUBLE_PANIC);
        if !ours {
            default_hook(info);
        }
    }));

    let events: Arc<Mutex<Vec<Vec<Ev>>>> = Arc::new(Mutex::new((0..progs.len()).map(|_| vec![]).collect()));
    let mut bodies: Vec<Box<dyn FnOnce() + Send + 'static>> = vec![];
    for (t, prog) in progs.iter().enumerate() {
        let prog = prog.clone();
        let events = events.clone();
        bodies.push(Box::new(move || {
            let mut pending_exit: Option<Ev> = None;
            for (ci, c) in prog.iter().copied().enumerate() {
                if let (GCall::EmitExit(_), Some(ev)) = (c, pending_exit.take()) {
                    // already made by the spawned thread's thread-local destructor while the parent was in `join`
                    events.lock().unwrap()[t].push(ev);
                    continue;
                }
                let mut spawned_ticks: Option<(usize, usize)> = None;
                // harness-level yield point between two API calls of a thread: the thread can be held here
                // for as long as the schedule likes whatever the library does (or no longer does) inside
                // the call. The grant does thread-local work only, so it is elided from the model's schedule.
                metrics::verif::point(API_POINT);
                let _ = take_seen();
                let start = tick();
                let result = match c {
                    GCall::Install(id) => global_install(id, salt),
                    GCall::Emit(f) => {
                        emit(f);
                        take_seen()
                    }
                    GCall::EmitLocal(l, f) => {
                        let lrec = LRec { id: l };
                        metrics::with_local_recorder(&lrec, || emit(f));
                        take_seen()
                    }
                    GCall::EmitPanic(f) => {
                        PANIC_NEXT.with(|p| p.set(true));
                        let panicked = catching(|| emit(f));
                        // not consumed = no recorder double was reached (the no-op recorder does not panic)
                        PANIC_NEXT.with(|p| p.set(false));
                        format!("{}{}", take_seen(), if panicked { "!" } else { "" })
                    }
                    GCall::EmitNested(k, f) => {
                        NEST.with(|n| n.set((k, f)));
                        emit(f);
                        NEST.with(|n| n.set((0, 0)));
                        take_seen()
                    }
                    GCall::EmitIn(f) => {
                        metrics::with_recorder(|r| {
                            let before = SEEN.with(|s| s.borrow().len());
                            r.describe_counter(KeyName::from_const_str("c02.outer"), None, SharedString::const_str(""));
                            if SEEN.with(|s| s.borrow().len()) == before {
                                SEEN.with(|s| s.borrow_mut().push("none".to_string()));
                            }
                            let before = SEEN.with(|s| s.borrow().len());
                            emit(f);
                            if SEEN.with(|s| s.borrow().len()) == before {
                                SEEN.with(|s| s.borrow_mut().push("none".to_string()));
                            }
                        });
                        take_seen()
                    }
                    GCall::EmitLocalPanic(l, f) => {
                        let lrec = LRec { id: l };
                        PANIC_NEXT.with(|p| p.set(true));
                        let panicked = catching(|| metrics::with_local_recorder(&lrec, || emit(f)));
                        PANIC_NEXT.with(|p| p.set(false));
                        format!("{}{}", take_seen(), if panicked { "!" } else { "" })
                    }
                    GCall::InstallIn(id, f) => {
                        metrics::with_recorder(|r| {
                            let before = SEEN.with(|s| s.borrow().len());
                            r.describe_counter(KeyName::from_const_str("c02.outer"), None, SharedString::const_str(""));
                            if SEEN.with(|s| s.borrow().len()) == before {
                                SEEN.with(|s| s.borrow_mut().push("none".to_string()));
                            }
                            let inst = global_install(id, salt);
                            SEEN.with(|s| s.borrow_mut().push(inst));
                            let before = SEEN.with(|s| s.borrow().len());
                            emit(f);
                            if SEEN.with(|s| s.borrow().len()) == before {
                                SEEN.with(|s| s.borrow_mut().push("none".to_string()));
                            }
                        });
                        take_seen()
                    }
                    GCall::InstallLocal(l, id, f) => {
                        let lrec = LRec { id: l };
                        metrics::with_local_recorder(&lrec, || {
                            let inst = global_install(id, salt);
                            SEEN.with(|s| s.borrow_mut().push(inst));
                            let before = SEEN.with(|s| s.borrow().len());
                            emit(f);
                            if SEEN.with(|s| s.borrow().len()) == before {
                                SEEN.with(|s| s.borrow_mut().push("none".to_string()));
                            }
                        });
                        take_seen()
                    }
                    GCall::EmitGuard(l, f) => {
                        let lrec = LRec { id: l };
                        {
                            let _guard = metrics::set_default_local_recorder(&lrec);
                            emit(f);
                        }
                        take_seen()
                    }
                    GCall::EmitSpawn(f) => {
                        let me = sched::current();
                        let exit_form = match prog.get(ci + 1) {
                            Some(GCall::EmitExit(f2)) => Some(*f2),
                            _ => None,
                        };
                        let slot: Arc<Mutex<Option<Ev>>> = Arc::new(Mutex::new(None));
                        let slot2 = slot.clone();
                        let joined = std::thread::spawn(move || {
                            // the new thread runs in the parent's scheduler slot (the parent is inside `join`)
                            sched::adopt(me);
                            let _ = take_seen();
                            let s0 = tick();
                            emit(f);
                            let r = take_seen();
                            let e0 = tick();
                            // armed LAST: thread-local destructors run in reverse order of registration, so the
                            // scheduler identity and the emission log of this thread are still alive in it
                            if let Some(f2) = exit_form {
                                EXIT_EMIT.with(|e| e.0.set(Some((f2, slot2))));
                            }
                            (s0, e0, r)
                        })
                        .join();
                        pending_exit = slot.lock().unwrap().take();
                        match joined {
                            Ok((s0, e0, r)) => {
                                spawned_ticks = Some((s0, e0));
                                r
                            }
                            Err(_) => "panic".to_string(),
                        }
                    }
                    GCall::EmitExit(f) => {
                        // not behind an `EmitSpawn`: a plain emission
                        emit(f);
                        take_seen()
                    }
                };
                let end = tick();
                let (start, end) = spawned_ticks.unwrap_or((start, end));
                events.lock().unwrap()[t].push(Ev { start, end, result });
            }
        }));
    }
    let run = sched::run(bodies, &schedule);
    let events = events.lock().unwrap();
    if run.deadlock || run.timed_out || !run.panicked.is_empty() {
        fails.push(("global path: deadlock, timeout or panic".into(), format!("{:?}", run)));
    }

    // ---- oracles on what the real API answered (independent of the model)
    let mut winner: Option<usize> = None;
    let mut ok_end: Option<usize> = None;
    let mut oks = 0;
    let mut first_install_start: Option<usize> = None;
    for (t, prog) in progs.iter().enumerate() {
        for (i, c) in prog.iter().enumerate() {
            let ev = match events[t].get(i) {
                Some(e) => e,
                None => {
                    fails.push(("global path: a call did not complete".into(), format!("thread {} call {}", t, i)));
                    continue;
                }
            };
            if let GCall::InstallLocal(l, _, _) = c {
                if ev.result.split('&').nth(1) != Some(format!("local{}", l).as_str()) || ev.result.split('&').count() != 2 {
                    fails.push((
                        "an emission under a local recorder did not reach exactly that recorder".into(),
                        format!("thread {} call {} (installation + emission inside with_local_recorder) answered {}", t, i, ev.result),
                    ));
                }
            }
            if let Some((id, inst)) = install_part(c, &ev.result) {
                let id = &id;
                let ev = &Ev { start: ev.start, end: ev.end, result: inst };
                first_install_start = Some(first_install_start.map_or(ev.start, |x: usize| x.min(ev.start)));
                if ev.result == "ok" {
                    oks += 1;
                    winner = Some(*id);
                    ok_end = Some(ev.end);
                    if DROPS[*id].load(Ordering::SeqCst) != 0 {
                        fails.push(("installed recorder was dropped by the library".into(), format!("id {}", id)));
                    }
                } else if ev.result != format!("err{}", id) {
                    fails.push((
                        "rejected installation did not hand back the caller's own recorder intact".into(),
                        format!("set_global_recorder(recorder {} [{}]) answered {}", id, kind_name(kind_of(*id, salt)), ev.result),
                    ));
                } else {
                    let d = DROPS[*id].load(Ordering::SeqCst);
                    if d != 1 {
                        fails.push((
                            "rejected recorder dropped or leaked by the library (drop count != 1 after the caller dropped it)".into(),
                            format!("id {} [{}] drops {}", id, kind_name(kind_of(*id, salt)), d),
                        ));
                    }
                    let n = CALLS[*id].load(Ordering::SeqCst);
                    if n != 0 {
                        fails.push((
                            "rejected recorder was used by the library before it was handed back".into(),
                            format!("id {} calls {}", id, n),
                        ));
                    }
                }
            }
        }
    }
    if oks > 1 {
        fails.push(("more than one global-recorder installation succeeded".into(), format!("{} Ok results", oks)));
    }
    // earliest completion of an emission that reached the installed recorder
    let mut first_dispatch_end: Option<usize> = None;
    for (t, prog) in progs.iter().enumerate() {
        for (i, c) in prog.iter().enumerate() {
            if let (Some(_), Some(ev)) = (global_shape(c), events[t].get(i)) {
                if emission_part(c, &ev.result).split('&').any(|p| p.starts_with("some")) {
                    first_dispatch_end = Some(first_dispatch_end.map_or(ev.end, |x: usize| x.min(ev.end)));
                }
            }
        }
    }
    let mut delivered = 0usize;
    for (t, prog) in progs.iter().enumerate() {
        for (i, c) in prog.iter().enumerate() {
            let ev = match events[t].get(i) {
                Some(e) => e,
                None => continue,
            };
            let desc = || {
                format!(
                    "thread {} call {} ({}) answered {}; programs {} schedule {}",
                    t,
                    i,
                    match c {
                        GCall::Emit(f) | GCall::EmitLocal(_, f) => form_name(*f).to_string(),
                        GCall::EmitPanic(f) => format!("{}, the recorder panics inside the call, caught", form_name(*f)),
                        GCall::EmitNested(k, f) => format!("{}, the recorder emits again from inside the call, {} deep", form_name(*f), k),
                        GCall::EmitIn(f) => format!("{} from inside a with_recorder closure", form_name(*f)),
                        GCall::EmitLocalPanic(_, f) => format!("{} under a local recorder that panics, caught outside the scope", form_name(*f)),
                        GCall::InstallIn(id, f) => format!("with_recorder closure: emission, set_global_recorder({}), {}", id, form_name(*f)),
                        GCall::EmitGuard(_, f) => format!("{} under set_default_local_recorder", form_name(*f)),
                        GCall::EmitSpawn(f) => format!("{} on a thread spawned during the race", form_name(*f)),
                        GCall::EmitExit(f) => format!("{} from a thread-local destructor of the spawned thread", form_name(*f)),
                        _ => String::new(),
                    },
                    ev.result,
                    gprogs_tok(&progs, false),
                    sched::sched_tok(&run.trace.iter().map(|(t, _)| *t).collect::<Vec<_>>())
                )
            };
            match (c, global_shape(c)) {
                (_, Some((lookups, panics))) => {
                    // an emission (possibly with emissions from inside it) without a local recorder
                    let unwound = ev.result.ends_with('!');
                    let epart = emission_part(c, &ev.result);
                    let parts: Vec<&str> = epart.trim_end_matches('!').split('&').collect();
                    if let GCall::InstallIn(id, _) = c {
                        // the closure installed and then emitted: its own successful installation happens-before
                        // the emission (same thread, same closure)
                        let p3: Vec<&str> = ev.result.split('&').collect();
                        if p3.len() != 3 || (p3[1] == "ok" && p3[2] != format!("some{}", id)) || (p3[0].starts_with("some") && p3[1] == "ok") {
                            fails.push((
                                "an emission made right after this thread's own installation (inside the same with_recorder closure) did not reach the installed recorder".into(),
                                desc(),
                            ));
                        }
                    }
                    let wtok = winner.map(|w| format!("some{}", w));
                    let n_to_winner = parts.iter().filter(|p| Some(**p) == wtok.as_deref()).count();
                    delivered += n_to_winner;
                    // "fully delivered": every lookup this call makes found the installed recorder (and the
                    // double's panic, if one was ordered, came back to the caller)
                    let full = n_to_winner == lookups && parts.len() == lookups && unwound == panics;
                    if parts.iter().any(|p| *p != "none" && Some(*p) != wtok.as_deref()) || (unwound && !panics) {
                        fails.push(("an emission reached something other than the installed recorder or the no-op recorder".into(), desc()));
                    }
                    if let Some(fd) = first_dispatch_end {
                        if fd < ev.start && !full {
                            fails.push((
                                "an emission that started after another emission had been dispatched to the installed recorder did not reach it".into(),
                                desc(),
                            ));
                        }
                    }
                    if let Some(oe) = ok_end {
                        if oe < ev.start && !full {
                            fails.push((
                                "an emission that started after set_global_recorder had returned Ok did not reach the installed recorder".into(),
                                desc(),
                            ));
                        }
                    }
                    if first_install_start.map_or(true, |fi| ev.end < fi) && parts.iter().any(|p| *p != "none") {
                        fails.push(("an emission that completed before any installation began had an effect".into(), desc()));
                    }
                    // inside one call: once a lookup of this call found the recorder, the later ones (made from
                    // inside that dispatch) must find it too
                    if let Some(p0) = parts.iter().position(|p| p.starts_with("some")) {
                        if parts[p0..].iter().any(|p| Some(*p) != wtok.as_deref()) || (matches!(c, GCall::EmitNested(..)) && parts.len() != lookups) {
                            fails.push((
                                "an emission made from inside a call that had been dispatched to the installed recorder did not reach that recorder".into(),
                                desc(),
                            ));
                        }
                    }
                }
                (GCall::EmitLocal(l, _), _) | (GCall::EmitGuard(l, _), _) => {
                    if ev.result != format!("local{}", l) {
                        fails.push(("an emission under a local recorder did not reach exactly that recorder".into(), desc()));
                    }
                }
                (GCall::EmitLocalPanic(l, _), _) => {
                    if ev.result != format!("local{}!", l) {
                        fails.push(("an emission under a local recorder did not reach exactly that recorder".into(), desc()));
                    }
                }
                _ => {}
            }
        }
    }
    // program order on ONE thread (no clock needed): after an emission of this thread has reached the installed
    // recorder, every later emission of the same thread without a local recorder reaches it in full —
    // whatever happened in between (a caught panic inside a recorder call, a local scope that unwound, nesting)
    for (t, prog) in progs.iter().enumerate() {
        let mut reached: Option<usize> = None;
        for (i, c) in prog.iter().enumerate() {
            let ev = match events[t].get(i) {
                Some(e) => e,
                None => break,
            };
            if let Some((lookups, panics)) = global_shape(c) {
                let epart = emission_part(c, &ev.result);
                let parts: Vec<&str> = epart.trim_end_matches('!').split('&').collect();
                let all_some = parts.iter().all(|p| p.starts_with("some"));
                if let Some(j) = reached {
                    if !(all_some && parts.len() == lookups && ev.result.ends_with('!') == panics) {
                        fails.push((
                            "a thread whose emission had reached the installed recorder later emitted (no local recorder) and did not reach it".into(),
                            format!(
                                "thread {}: call {} answered {}, later call {} answered {}; programs {} schedule {}",
                                t,
                                j,
                                events[t][j].result,
                                i,
                                ev.result,
                                gprogs_tok(&progs, false),
                                sched::sched_tok(&run.trace.iter().map(|(t, _)| *t).collect::<Vec<_>>())
                            ),
                        ));
                    }
                }
                if reached.is_none() && parts.iter().any(|p| p.starts_with("some")) {
                    reached = Some(i);
                }
            }
            // round 7: the thread's OWN successful installation counts too (installing threads included)
            if reached.is_none() && install_part(c, &ev.result).map_or(false, |(_, r)| r == "ok") {
                reached = Some(i);
            }
        }
    }
    // after the race: the main thread and a fresh unmanaged thread emit once each
    let _ = take_seen();
    emit(0);
    let fin = take_seen();
    let fresh = std::thread::spawn(|| {
        emit(1);
        take_seen()
    })
    .join()
    .unwrap_or_else(|_| "panic".into());
    let expect = winner.map_or("none".to_string(), |w| format!("some{}", w));
    if fin != expect || fresh != expect {
        fails.push((
            "after the race an emission did not reach the installed recorder (or reached one although none was installed)".into(),
            format!("main thread {} fresh thread {} expected {}", fin, fresh, expect),
        ));
    }
    if let Some(w) = winner {
        let n = CALLS[w].load(Ordering::SeqCst);
        if n != delivered + 2 {
            fails.push((
                "the installed recorder was not called exactly once per emission dispatched to it".into(),
                format!("calls {} emissions {}", n, delivered + 2),
            ));
        }
    }

    {
        let live = crate::alloc::live();
        let expected: isize = match winner {
            Some(w) if kind_of(w, salt) != 2 => 1, // the leaked slot of the installed recorder (a ZST needs none)
            _ => 0,
        };
        if live != expected {
            fails.push((
                "set_global_recorder left heap allocations behind that are not the installed recorder's slot (a slot leaked for a rejected recorder), or freed the slot".into(),
                format!("live allocations made inside set_global_recorder: {} expected {}; programs {}", live, expected, gprogs_tok(&progs, false)),
            ));
        }
        for f in crate::alloc::take_faults() {
            fails.push(("allocator fault during install/emit".into(), f));
        }
        crate::alloc::stop();
    }
    for w in WRONG_METHOD.lock().unwrap().drain(..) {
        fails.push(("an emission entered the recorder through another trait method than the one the API form calls".into(), w));
    }
    let labels: Vec<&str> = run.trace.iter().map(|(_, id)| *id).filter(|id| *id != API_POINT).collect();
    let mtaken: Vec<usize> = run.trace.iter().filter(|(_, id)| *id != API_POINT).map(|(t, _)| *t).collect();
    let res = list(events.iter().map(|evs| {
        if evs.is_empty() {
            ".".to_string()
        } else {
            evs.iter().map(|e| e.result.clone()).collect::<Vec<_>>().join("+")
        }
    }));
    let cell = fin.strip_prefix("some").map(|s| s.to_string()).unwrap_or_else(|| "~".into());
    println!("ANSWER {} | {} | cell={}", labels.join("."), res, cell);
    println!("TAKEN {}", sched::sched_tok(&run.trace.iter().map(|(t, _)| *t).collect::<Vec<_>>()));
    println!("MTAKEN {}", sched::sched_tok(&mtaken));
    println!(
        "CHOICES {}",
        run.choices.iter().map(|c| c.iter().map(|x| x.to_string()).collect::<Vec<_>>().join(".")).collect::<Vec<_>>().join(",")
    );
    for (w, d) in fails {
        println!("FAIL {} :: {}", w.replace('\n', " "), d.replace('\n', " "));
    }
}

struct GOutcome {
    answer: String,
    /// every grant (for replay / enumeration)
    taken: Vec<usize>,
    /// grants at library yield points only (the model's schedule)
    mtaken: Vec<usize>,
    choices: Vec<Vec<usize>>,
    fails: Vec<(String, String)>,
}

fn run_child(cfg: &Cfg, progs: &[Vec<GCall>], schedule: &[usize], salt: usize) -> GOutcome {
    let exe = std::env::current_exe().expect("current_exe");
    let spec = format!("{};{};{}", gprogs_tok(progs, false), sched::sched_tok(schedule), salt);
    let scratch = cfg.out.join("child");
    let outp = std::process::Command::new(exe)
        .arg("C02")
        .arg("--out")
        .arg(&scratch)
        .arg("--cases")
        .arg("0")
        .env("MV_C02_CHILD", &spec)
        .output();
    let mut g = GOutcome { answer: String::new(), taken: vec![], mtaken: vec![], choices: vec![], fails: vec![] };
    match outp {
        Err(e) => g.fails.push(("global path: child process could not be started".into(), e.to_string())),
        Ok(o) => {
            let text = String::from_utf8_lossy(&o.stdout);
            for l in text.lines() {
                if let Some(a) = l.strip_prefix("ANSWER ") {
                    g.answer = a.to_string();
                } else if let Some(a) = l.strip_prefix("TAKEN ") {
                    g.taken = if a == "-" { vec![] } else { a.split('.').map(|x| x.parse().unwrap()).collect() };
                } else if let Some(a) = l.strip_prefix("MTAKEN ") {
                    g.mtaken = if a == "-" { vec![] } else { a.split('.').map(|x| x.parse().unwrap()).collect() };
                } else if let Some(a) = l.strip_prefix("CHOICES ") {
                    g.choices = a
                        .split(',')
                        .filter(|x| !x.is_empty())
                        .map(|c| c.split('.').map(|x| x.parse().unwrap()).collect())
                        .collect();
                } else if let Some(a) = l.strip_prefix("FAIL ") {
                    let (w, d) = a.split_once(" :: ").unwrap_or((a, ""));
                    g.fails.push((w.to_string(), d.to_string()));
                }
            }
            if !o.status.success() || g.answer.is_empty() {
                let err = String::from_utf8_lossy(&o.stderr);
                let tail: String = err.chars().rev().take(600).collect::<String>().chars().rev().collect();
                g.fails.push((
                    "global path: the process crashed or aborted during install/emit".into(),
                    format!("spec {} status {:?} stderr …{}", spec, o.status.code(), tail),
                ));
                if g.answer.is_empty() {
                    g.answer = "<crashed>".into();
                }
            }
        }
    }
    g
}

fn one_global(cfg: &Cfg, out: &mut Out, progs: &[Vec<GCall>], schedule: &[usize], salt: usize) -> GOutcome {
    let g = run_child(cfg, progs, schedule, salt);
    out.op(&format!("cell grun {} {}", gprogs_tok(progs, true), sched::sched_tok(&g.mtaken)), &g.answer);
    for (w, d) in &g.fails {
        out.oracle_fail(w, d);
    }
    // non-trivial: some thread's emission answered none and a later emission OF THE SAME THREAD reached the
    // installed recorder (the long-lived thread that saw "before" and "after")
    let res_part = g.answer.split(" | ").nth(1).unwrap_or("");
    let mut long_lived = false;
    for th in res_part.split(',') {
        let rs: Vec<&str> = th.split('+').collect();
        if let Some(p) = rs.iter().position(|r| *r == "none") {
            if rs[p + 1..].iter().any(|r| r.starts_with("some")) {
                long_lived = true;
            }
        }
    }
    if long_lived {
        out.nontrivial();
        out.count("global.thread.saw.before.and.after");
    }
    // a thread whose recorder call panicked (delivered, caught) and which emitted again afterwards; an emission
    // made from inside a dispatched call
    for th in res_part.split(',') {
        let rs: Vec<&str> = th.split('+').collect();
        if let Some(p) = rs.iter().position(|r| r.starts_with("some") && r.ends_with('!')) {
            if rs[p + 1..].iter().any(|r| r.starts_with("some")) {
                out.nontrivial();
                out.count("global.thread.emitted.after.caught.recorder.panic");
            }
        }
        if rs.iter().any(|r| r.starts_with("some") && r.contains('&')) {
            out.count("global.emission.from.inside.dispatched.call");
        }
        if rs.iter().any(|r| r.starts_with("none&some")) {
            out.count("global.closure.outer.noop.inner.global");
        }
    }
    g
}

fn gen_gprogs(r: &mut Rng) -> Vec<Vec<GCall>> {
    // round 7: one case in four has 5 or 6 threads (three installers around the INITIALIZING window AND emitters on
    // two or more other threads need five)
    let n = if r.chance(1, 4) { r.range(5, 6) } else { r.range(2, 4) };
    let mut next_id = 1;
    let mut progs = vec![];
    let installer = r.below(n);
    for t in 0..n {
        let mut p = vec![];
        let k = r.range(1, 4);
        let install_at = if t == installer { Some(r.below(k)) } else { None };
        for j in 0..k {
            if Some(j) == install_at || r.chance(1, 6) {
                p.push(GCall::Install(next_id));
                next_id += 1;
            } else if r.chance(1, 6) {
                let (l, f) = (20 + r.below(4), r.below(NFORMS));
                p.push(match r.below(4) {
                    0 => {
                        next_id += 1;
                        GCall::InstallLocal(l, next_id - 1, f)
                    }
                    1 => GCall::EmitGuard(l, f),
                    _ => GCall::EmitLocal(l, f),
                });
            } else {
                let f = r.below(NFORMS);
                match r.below(14) {
                    0 => p.push(GCall::EmitPanic(f)),
                    1 => p.push(GCall::EmitNested(r.range(1, 2), f)),
                    2 => p.push(GCall::EmitIn(f)),
                    3 if r.chance(1, 2) => p.push(GCall::EmitLocalPanic(20 + r.below(4), f)),
                    10 => {
                        p.push(GCall::InstallIn(next_id, f));
                        next_id += 1;
                    }
                    11 | 12 => {
                        p.push(GCall::EmitSpawn(f));
                        if r.chance(2, 3) {
                            p.push(GCall::EmitExit(r.below(NFORMS)));
                        }
                    }
                    _ => p.push(GCall::Emit(f)),
                }
            }
        }
        progs.push(p);
    }
    // the long-lived emitter: one non-installing thread (if any) emits at least twice
    if let Some(t) = (0..n).find(|t| *t != installer) {
        while progs[t].iter().filter(|c| matches!(c, GCall::Emit(_))).count() < 2 {
            let f = r.below(NFORMS);
            progs[t].push(GCall::Emit(f));
        }
    }
    // the thread that goes on after a fault: a caught panic inside a recorder call (or a local scope that
    // unwound, or an emission from inside the recorder), then a plain emission of the same thread
    if r.chance(1, 3) {
        let t = r.below(n);
        let f = r.below(NFORMS);
        progs[t].push(match r.below(4) {
            0 => GCall::EmitNested(r.range(1, 2), f),
            1 => GCall::EmitLocalPanic(20 + r.below(4), f),
            _ => GCall::EmitPanic(f),
        });
        let f = r.below(NFORMS);
        progs[t].push(GCall::Emit(f));
    }
    progs
}

/// all schedules of `progs` by replay in child processes; returns (runs, exhausted)
fn exhaustive_global(cfg: &Cfg, out: &mut Out, progs: &[Vec<GCall>], salt: usize, limit: usize) -> (usize, bool) {
    let mut prefix: Vec<usize> = vec![];
    let mut runs = 0usize;
    loop {
        let g = one_global(cfg, out, progs, &prefix, salt);
        runs += 1;
        if runs >= limit || g.answer == "<crashed>" {
            return (runs, false);
        }
        let mut i = g.taken.len().min(g.choices.len());
        let mut next = None;
        while i > 0 {
            i -= 1;
            if let Some(alt) = g.choices[i].iter().copied().filter(|c| *c > g.taken[i]).min() {
                next = Some((i, alt));
                break;
            }
        }
        match next {
            None => return (runs, true),
            Some((i, alt)) => {
                prefix = g.taken[..i].to_vec();
                prefix.push(alt);
            }
        }
    }
}

pub fn run(cfg: &Cfg, out: &mut Out) {
    if let Ok(spec) = std::env::var("MV_C02_CHILD") {
        child(&spec);
        std::process::exit(0);
    }
    let root = Rng::new(cfg.seed);
    // corpus: the classic shapes
    let corpus: Vec<(Vec<Vec<Call>>, Vec<usize>)> = vec![
        (vec![vec![Call::Set(1)], vec![Call::Set(2)], vec![Call::Load, Call::Load], vec![Call::Load]],
         vec![0, 1, 2, 3, 1, 0, 2, 1, 1, 2, 2, 3, 3]),
        (vec![vec![Call::Set(1)], vec![Call::Load]], vec![0, 1, 0, 0, 1, 0, 1]),
        (vec![vec![Call::Set(1), Call::Set(2)], vec![Call::Set(3), Call::Load]], vec![1, 0, 0, 1, 1, 0, 1]),
    ];
    for (ci, (progs, sch)) in corpus.into_iter().enumerate() {
        for salt in 0..NKINDS {
            out.case(&format!("corpus {} salt {}", ci, salt));
            one(out, &progs, &sch, salt);
        }
    }
    // corpus of the global path: the long-lived emitter that looks before and after the installation
    // (witness shape of seeded defect C02-4: a per-thread memo of the lookup), installers racing, local scopes
    let gcorpus: Vec<(Vec<Vec<GCall>>, Vec<usize>)> = vec![
        (vec![vec![GCall::Emit(1), GCall::Emit(1)], vec![GCall::Install(1)]], vec![0, 0, 0, 1, 1, 1, 1, 1, 0, 0, 0]),
        (vec![vec![GCall::Emit(0), GCall::Emit(2), GCall::Emit(3)], vec![GCall::Install(1), GCall::Emit(1)], vec![GCall::Install(2)]],
         vec![0, 1, 2, 0, 1, 2, 0, 1, 2, 1, 0, 1, 1, 0, 0, 1, 1, 0, 0, 0, 0, 2, 1, 1, 1, 0, 0, 0]),
        (vec![vec![GCall::Emit(4), GCall::EmitLocal(21, 1), GCall::Emit(5)], vec![GCall::Install(3), GCall::Install(4)]],
         vec![0, 0, 0, 1, 1, 1, 1, 1, 0, 0, 1, 1, 0, 0, 0]),
        (vec![vec![GCall::Install(1), GCall::Emit(1)], vec![GCall::Install(2), GCall::Emit(2)], vec![GCall::Emit(3), GCall::Emit(0)]],
         vec![2, 2, 0, 1, 0, 1, 0, 2, 2, 0, 0, 1, 1, 2]),
        (vec![vec![GCall::Emit(0)], vec![GCall::Emit(1), GCall::Emit(1)]], vec![0, 1, 0, 1]),
    ];
    for (ci, (progs, sch)) in gcorpus.into_iter().enumerate() {
        for salt in [0usize, 1, 2, 3, 4] {
            out.case(&format!("global corpus {} salt {}", ci, salt));
            one_global(cfg, out, &progs, &sch, salt);
        }
    }
    // faults inside recorder calls and re-entrant emissions (witness shapes of seeded defect C02-6: a per-thread
    // "inside the global recorder" flag that an unwinding call leaves set): emit, panic inside the recorder
    // (caught), emit again; the recorder / the with_recorder closure emitting from inside the call; a local
    // scope that unwinds; all before, across and after the installation
    let gcorpus2: Vec<(Vec<Vec<GCall>>, Vec<usize>)> = vec![
        (vec![vec![GCall::Install(1), GCall::Emit(1), GCall::EmitPanic(1), GCall::Emit(2), GCall::EmitPanic(0), GCall::Emit(0)],
              vec![GCall::Emit(3), GCall::Emit(4)]],
         vec![0, 0, 0, 0, 1, 1, 1, 0, 0, 0, 0, 0, 0, 1, 1, 1]),
        (vec![vec![GCall::EmitPanic(2), GCall::EmitNested(2, 1), GCall::EmitIn(3), GCall::EmitNested(1, 5), GCall::Emit(0)],
              vec![GCall::Install(2)]],
         vec![0, 0, 0, 1, 1, 0, 0, 0, 1, 1, 1, 0]),
        (vec![vec![GCall::EmitIn(1), GCall::EmitLocalPanic(22, 1), GCall::Emit(1), GCall::EmitPanic(3), GCall::EmitNested(1, 2)],
              vec![GCall::Install(3), GCall::EmitPanic(4), GCall::Emit(4)],
              vec![GCall::Install(4), GCall::EmitNested(2, 0), GCall::Emit(5)]],
         vec![0, 0, 1, 1, 0, 1, 2, 2, 1, 0, 0, 0, 2, 2, 2, 1, 1, 1, 0, 0, 2, 2, 2, 2, 2, 2, 1, 1, 1, 0, 0, 0, 0]),
    ];
    // round 7: five threads (three installers around the window, emitters on two more threads); installations from
    // inside a with_recorder closure and inside a local scope; the guard API; a thread spawned during the race that
    // also emits from a thread-local destructor
    let gcorpus3: Vec<(Vec<Vec<GCall>>, Vec<usize>)> = vec![
        (vec![vec![GCall::Install(1)], vec![GCall::Install(2)], vec![GCall::Install(3)],
              vec![GCall::Emit(1), GCall::Emit(2)], vec![GCall::Emit(3), GCall::Emit(0)]],
         vec![0, 0, 0, 1, 1, 1, 2, 2, 3, 3, 3, 3, 0, 2, 4, 4, 4, 3, 0, 4, 4, 4, 3, 3]),
        (vec![vec![GCall::InstallIn(1, 1), GCall::Emit(2)], vec![GCall::InstallLocal(21, 2, 3), GCall::Emit(0)], vec![GCall::Emit(4), GCall::EmitGuard(22, 5), GCall::Emit(1)]],
         vec![0, 1, 2, 0, 0, 2, 2, 0, 1, 1, 0, 0, 2, 2, 0, 0, 0, 1, 1, 2, 2, 2]),
        (vec![vec![GCall::InstallLocal(21, 2, 3), GCall::InstallIn(1, 1)], vec![GCall::InstallIn(3, 0), GCall::Emit(0)]],
         vec![1, 1, 1, 0, 0, 0, 0, 1, 1, 0, 1, 1, 1, 0, 0, 0]),
        (vec![vec![GCall::Emit(1), GCall::EmitSpawn(2), GCall::EmitExit(3), GCall::Emit(4)], vec![GCall::Install(1), GCall::EmitSpawn(0), GCall::EmitExit(1)]],
         vec![0, 0, 0, 0, 0, 1, 1, 1, 0, 1, 0, 1, 0, 0, 0, 1, 1, 1, 1, 1]),
        (vec![vec![GCall::EmitSpawn(5), GCall::EmitExit(2)], vec![GCall::Install(4)]],
         vec![0, 0, 0, 1, 1, 1, 0, 0, 1, 1, 0, 0]),
    ];
    for (ci, (progs, sch)) in gcorpus3.into_iter().enumerate() {
        for salt in [0usize, 1, 4] {
            out.case(&format!("global round-7 corpus {} salt {}", ci, salt));
            one_global(cfg, out, &progs, &sch, salt);
        }
    }
    for (ci, (progs, sch)) in gcorpus2.into_iter().enumerate() {
        for salt in [0usize, 3] {
            out.case(&format!("global fault corpus {} salt {}", ci, salt));
            one_global(cfg, out, &progs, &sch, salt);
        }
    }
    for i in 0..cfg.cases {
        let mut r = root.fork(i as u64);
        out.case(&format!("seed={} i={}", cfg.seed, i));
        let progs = gen_progs(&mut r);
        let sch = bursty(&mut r, progs.len(), if progs.len() > 4 { 70 } else { 40 });
        let salt = r.below(NKINDS * 3);
        out.count(&format!("threads={}", progs.len()));
        one(out, &progs, &sch, salt);
    }
    // the real global path: a third as many cases (one process each)
    let gcases = if cfg.thorough { cfg.cases / 4 } else { cfg.cases / 3 };
    for i in 0..gcases {
        let mut r = root.fork(1_000_000 + i as u64);
        out.case(&format!("global seed={} i={}", cfg.seed, i));
        let progs = gen_gprogs(&mut r);
        let sch = bursty(&mut r, progs.len(), if progs.len() > 4 { 130 } else { 72 });
        let salt = r.below(NKINDS * 3);
        out.count(&format!("global.threads={}", progs.len()));
        for p in &progs {
            for c in p {
                match c {
                    GCall::Install(id) => out.count(&format!("global.install.{}", kind_name(kind_of(*id, salt)))),
                    GCall::Emit(f) => out.count(&format!("global.emit.{}", form_name(*f))),
                    GCall::EmitLocal(_, _) => out.count("global.emit.under-local"),
                    GCall::EmitPanic(_) => out.count("global.emit.recorder-panics"),
                    GCall::EmitNested(k, _) => out.count(&format!("global.emit.recorder-emits.depth{}", k)),
                    GCall::EmitIn(_) => out.count("global.emit.from-inside-closure"),
                    GCall::EmitLocalPanic(_, _) => out.count("global.emit.under-local.recorder-panics"),
                    GCall::InstallIn(id, _) => out.count(&format!("global.install-from-inside-closure.{}", kind_name(kind_of(*id, salt)))),
                    GCall::InstallLocal(_, id, _) => out.count(&format!("global.install-under-local.{}", kind_name(kind_of(*id, salt)))),
                    GCall::EmitGuard(_, _) => out.count("global.emit.under-local-guard"),
                    GCall::EmitSpawn(_) => out.count("global.emit.thread-spawned-during-race"),
                    GCall::EmitExit(_) => out.count("global.emit.tls-destructor"),
                }
            }
        }
        one_global(cfg, out, &progs, &sch, salt);
    }
    if cfg.thorough {
        // exhaustive: all schedules of small configurations, each replayed on the model
        let configs: Vec<Vec<Vec<Call>>> = vec![
            vec![vec![Call::Set(1)], vec![Call::Set(2)], vec![Call::Load, Call::Load]],
            vec![vec![Call::Set(1)], vec![Call::Set(2), Call::Load], vec![Call::Load]],
            vec![vec![Call::Set(1), Call::Load], vec![Call::Load, Call::Set(2)]],
        ];
        for (ci, progs) in configs.into_iter().enumerate() {
            let mut all: Vec<(Vec<usize>, Outcome)> = vec![];
            let p2 = progs.clone();
            let (runs, exhausted) = {
                let mut prefix: Vec<usize> = vec![];
                let mut runs = 0usize;
                let mut exhausted = false;
                loop {
                    let o = execute(&p2, &prefix, ci + runs % NKINDS);
                    runs += 1;
                    let taken: Vec<usize> = o.run.trace.iter().map(|(t, _)| *t).collect();
                    let choices = o.run.choices.clone();
                    all.push((taken.clone(), o));
                    if runs >= 20000 {
                        break;
                    }
                    let mut i = taken.len();
                    let mut next = None;
                    while i > 0 {
                        i -= 1;
                        if let Some(alt) = choices[i].iter().copied().filter(|c| *c > taken[i]).min() {
                            next = Some((i, alt));
                            break;
                        }
                    }
                    match next {
                        None => {
                            exhausted = true;
                            break;
                        }
                        Some((i, alt)) => {
                            prefix = taken[..i].to_vec();
                            prefix.push(alt);
                        }
                    }
                }
                (runs, exhausted)
            };
            out.count_n(&format!("exhaustive.runs.{}", list(progs.iter().map(|p| prog_tok(p)))), runs as u64);
            out.count(&format!("exhaustive.complete={}", exhausted));
            out.case(&format!("exhaustive {}", list(progs.iter().map(|p| prog_tok(p)))));
            for (taken, o) in all {
                out.op(
                    &format!("cell run {} {}", list(progs.iter().map(|p| prog_tok(p))), sched::sched_tok(&taken)),
                    &answer(&o),
                );
                oracle(out, &progs, &o);
            }
            out.nontrivial();
        }
        // all schedules of small programs on the real global path (one process per schedule)
        let gconfigs: Vec<Vec<Vec<GCall>>> = vec![
            vec![vec![GCall::Emit(1), GCall::Emit(0)], vec![GCall::Install(1)]],
            vec![vec![GCall::Install(1), GCall::Emit(2)], vec![GCall::Emit(3), GCall::Install(2)]],
            vec![vec![GCall::Emit(1), GCall::EmitLocal(20, 1), GCall::Emit(1)], vec![GCall::Install(1)], vec![GCall::Install(2)]],
            vec![vec![GCall::Emit(1), GCall::EmitPanic(1), GCall::Emit(0)], vec![GCall::Install(1)]],
            vec![vec![GCall::EmitNested(1, 1), GCall::EmitIn(2)], vec![GCall::Install(1)]],
            vec![vec![GCall::InstallIn(1, 1), GCall::Emit(0)], vec![GCall::Emit(2)]],
            vec![vec![GCall::EmitSpawn(1), GCall::EmitExit(2)], vec![GCall::Install(1)]],
            vec![vec![GCall::InstallLocal(20, 1, 1), GCall::Emit(0)], vec![GCall::InstallIn(2, 3)]],
        ];
        for (ci, progs) in gconfigs.into_iter().enumerate() {
            out.case(&format!("global exhaustive {}", gprogs_tok(&progs, true)));
            let (runs, exhausted) = exhaustive_global(cfg, out, &progs, ci, 20000);
            out.count_n(&format!("global.exhaustive.runs.{}", gprogs_tok(&progs, true)), runs as u64);
            out.count(&format!("global.exhaustive.complete={}", exhausted));
        }
    }
}

fn one(out: &mut Out, progs: &[Vec<Call>], sch: &[usize], salt: usize) {
    let o = execute(progs, sch, salt);
    let taken: Vec<usize> = o.run.trace.iter().map(|(t, _)| *t).collect();
    out.op(
        &format!("cell run {} {}", list(progs.iter().map(|p| prog_tok(p))), sched::sched_tok(&taken)),
        &answer(&o),
    );
    for p in progs {
        for c in p {
            if let Call::Set(id) = c {
                out.count(&format!("install.{}", kind_name(kind_of(*id, salt))));
            }
        }
    }
    // non-trivial: at least one context switch between the winner's CAS and its publishing store
    let cas = o.run.trace.iter().position(|(_, id)| *id == "cell.set.write");
    let st = o.run.trace.iter().position(|(_, id)| *id == "cell.set.store");
    if let (Some(a), Some(b)) = (cas, st) {
        if b > a + 1 {
            out.nontrivial();
            out.count("interleaved.inside.set");
        }
    }
    oracle(out, progs, &o);
}
