//! C03 — Key equality / ordering / hashing agree and ignore how a key was built.
//!
//! Per case: 4 key *contents* (name + label list) that are close to each other (a base, a permutation of it,
//! a small mutation, an independent draw over the same pool).  Every content is built through every public
//! construction path; all pairs and all triples of contents are examined.
//!
//! Model ops (component `key`, see lean/MetricsVerif/Driver/Key.lean): `hash`, `raw` per content, `eq`, `cmp`,
//! `gh` per ordered pair, `race` per case.  Oracles (implementation only): eq ⇔ cmp == Equal, symmetry,
//! antisymmetry of cmp, transitivity of both on triples, equal keys hash alike (std `Hash` call sequence and
//! `get_hash()`), construction-path independence, permutation independence when label names are distinct,
//! racing first `get_hash()` calls.
//!
//! Round 2: `mix` (threads calling `clone()` and first `get_hash()` on one shared lazily hashed key under token
//! passing over the yield points of `get_hash` and of the `Cow::clone` calls inside `Key::clone`; the clone's memo
//! fields are read from its `Debug` output), `ceq`/`ccmp` (`CompositeKey` with every pair of kinds), `leq`/`lcmp`/
//! `scmp`/`nhash` (`Label`, `SharedString`, `KeyName` on their own).  Oracles added: `==`/`cmp`/`partial_cmp`/`Hash`
//! of never-hashed keys before, between and after their first `get_hash()`; labels from `&BTreeMap`/`&HashMap`;
//! `Borrow<str> for KeyName`; clones taken while first `get_hash()` calls race; strings with long common
//! prefixes/suffixes and equal lengths.
use crate::util::*;
use metrics::{Counter, Gauge, Histogram, Key, KeyHasher, KeyName, Label, Metadata, Recorder, SharedString, Unit};
use metrics_util::{CompositeKey, DefaultHashable, Hashable, MetricKind};
use std::cell::RefCell;
use std::cmp::Ordering;
use std::collections::{BTreeMap, HashMap};
use std::hash::{Hash, Hasher};
use std::sync::atomic::{AtomicUsize, Ordering as AO};
use std::sync::Arc;

type Content = (String, Vec<(String, String)>);

// ---------------------------------------------------------------------------------------------
// recording hashers

/// records every `Hasher` method call (`write`, `write_u8`, `write_usize`; anything else is flagged)
#[derive(Default)]
struct RecHasher {
    calls: Vec<String>,
}
impl Hasher for RecHasher {
    fn finish(&self) -> u64 {
        0
    }
    fn write(&mut self, b: &[u8]) {
        self.calls.push(format!("B{}", hex(b)));
    }
    fn write_u8(&mut self, i: u8) {
        self.calls.push(format!("U{:02x}", i));
    }
    fn write_usize(&mut self, i: usize) {
        self.calls.push(format!("Z{}", i));
    }
    fn write_u16(&mut self, i: u16) {
        self.calls.push(format!("unexpected-u16:{}", i));
    }
    fn write_u32(&mut self, i: u32) {
        self.calls.push(format!("unexpected-u32:{}", i));
    }
    fn write_u64(&mut self, i: u64) {
        self.calls.push(format!("unexpected-u64:{}", i));
    }
    fn write_u128(&mut self, i: u128) {
        self.calls.push(format!("unexpected-u128:{}", i));
    }
    fn write_isize(&mut self, i: isize) {
        self.calls.push(format!("unexpected-isize:{}", i));
    }
}

/// overrides `write` only, exactly like `metrics::KeyHasher`: sees what reaches aHash
#[derive(Default)]
struct RawHasher {
    chunks: Vec<String>,
}
impl Hasher for RawHasher {
    fn finish(&self) -> u64 {
        0
    }
    fn write(&mut self, b: &[u8]) {
        self.chunks.push(hex(b));
    }
}

fn std_stream(k: &Key) -> String {
    let mut h = RecHasher::default();
    k.hash(&mut h);
    list(h.calls)
}
fn raw_stream(k: &Key) -> String {
    let mut h = RawHasher::default();
    k.hash(&mut h);
    list(h.chunks)
}
fn ord_str(o: Ordering) -> &'static str {
    match o {
        Ordering::Less => "lt",
        Ordering::Equal => "eq",
        Ordering::Greater => "gt",
    }
}

// ---------------------------------------------------------------------------------------------
// construction paths

fn leak_str(s: &str) -> &'static str {
    Box::leak(s.to_string().into_boxed_str())
}
/// Per-case arena of leaked strings in which a string that is a proper prefix of another string of the case is a
/// SUB-SLICE of that string's buffer (same start address, shorter length), and equal strings share one buffer.
/// Static keys built from such slices alias each other the way `&FULL[..n]` and `FULL` do.
struct Arena(Vec<&'static str>);
impl Arena {
    fn new(contents: &[Content]) -> Arena {
        let mut all: Vec<String> = Vec::new();
        for (n, ls) in contents {
            all.push(n.clone());
            for (k, v) in ls {
                all.push(k.clone());
                all.push(v.clone());
            }
        }
        all.sort_by(|a, b| b.len().cmp(&a.len()).then(a.cmp(b)));
        all.dedup();
        let mut bufs: Vec<&'static str> = Vec::new();
        for s in all {
            if !bufs.iter().any(|b| b.starts_with(s.as_str())) {
                bufs.push(leak_str(&s));
            }
        }
        Arena(bufs)
    }
    fn get(&self, s: &str) -> &'static str {
        match self.0.iter().find(|b| b.starts_with(s)) {
            Some(b) => &b[..s.len()],
            None => leak_str(s),
        }
    }
    fn labels(&self, ls: &[(String, String)]) -> Vec<Label> {
        ls.iter().map(|(k, v)| Label::from_static_parts(self.get(k), self.get(v))).collect()
    }
}
fn static_labels(ls: &[(String, String)]) -> &'static [Label] {
    let v: Vec<Label> = ls.iter().map(|(k, v)| Label::from_static_parts(leak_str(k), leak_str(v))).collect();
    Box::leak(v.into_boxed_slice())
}
fn owned_labels(ls: &[(String, String)]) -> Vec<Label> {
    ls.iter().map(|(k, v)| Label::new(k.clone(), v.clone())).collect()
}
fn arc_labels(ls: &[(String, String)]) -> Vec<Label> {
    ls.iter().map(|(k, v)| Label::new(Arc::<str>::from(k.as_str()), Arc::<str>::from(v.as_str()))).collect()
}
/// each string static, owned or Arc-shared by position
fn mixed_labels(ls: &[(String, String)], salt: usize) -> Vec<Label> {
    let mk = |s: &str, i: usize| -> SharedString {
        match i % 6 {
            0 => SharedString::from_owned(s.to_string()),
            1 => SharedString::const_str(leak_str(s)),
            2 => SharedString::from_shared(Arc::<str>::from(s)),
            3 => SharedString::from(std::borrow::Cow::Owned::<'static, str>(s.to_string())),
            4 => SharedString::from(std::borrow::Cow::Borrowed::<'static>(leak_str(s))),
            _ => if s.is_empty() { SharedString::default() } else { SharedString::from(leak_str(s)) },
        }
    };
    ls.iter().enumerate().map(|(i, (k, v))| Label::new(mk(k, i + salt), mk(v, i + salt + 1))).collect()
}

/// recorder that keeps every key the macros hand to it
#[derive(Default)]
struct Capture(RefCell<Vec<Key>>);
impl Recorder for Capture {
    fn describe_counter(&self, _: KeyName, _: Option<Unit>, _: SharedString) {}
    fn describe_gauge(&self, _: KeyName, _: Option<Unit>, _: SharedString) {}
    fn describe_histogram(&self, _: KeyName, _: Option<Unit>, _: SharedString) {}
    fn register_counter(&self, key: &Key, _: &Metadata<'_>) -> Counter {
        self.0.borrow_mut().push(key.clone());
        Counter::noop()
    }
    fn register_gauge(&self, key: &Key, _: &Metadata<'_>) -> Gauge {
        self.0.borrow_mut().push(key.clone());
        Gauge::noop()
    }
    fn register_histogram(&self, key: &Key, _: &Metadata<'_>) -> Histogram {
        self.0.borrow_mut().push(key.clone());
        Histogram::noop()
    }
}

/// every public way to obtain a key with this content; `(path name, key)`
fn variants(c: &Content, r: &mut Rng, arena: &Arena) -> Vec<(&'static str, Key)> {
    let (name, ls) = c;
    let n = ls.len();
    let mut v: Vec<(&'static str, Key)> = Vec::new();
    v.push(("from_parts(String,owned)", Key::from_parts(name.clone(), owned_labels(ls))));
    v.push(("from_parts(&'static,static-labels-vec)", Key::from_parts(leak_str(name), static_labels(ls).to_vec())));
    v.push(("from_parts(Arc,arc)", Key::from_parts(Arc::<str>::from(name.as_str()), arc_labels(ls))));
    v.push(("from_parts(KeyName,mixed)", Key::from_parts(KeyName::from(name.clone()), mixed_labels(ls, r.below(6)))));
    v.push(("from_parts(std Cow::Borrowed,mixed)", Key::from_parts(std::borrow::Cow::Borrowed::<'static>(leak_str(name)), mixed_labels(ls, 4))));
    v.push(("from_parts(std Cow::Owned,mixed)", Key::from_parts(std::borrow::Cow::Owned::<'static, str>(name.clone()), mixed_labels(ls, 5))));
    if name.is_empty() {
        v.push(("from_parts(SharedString::default())", Key::from_parts(SharedString::default(), mixed_labels(ls, 3))));
        v.push(("from_static_labels(KeyName::from(SharedString::default()))", Key::from_static_labels(KeyName::from(SharedString::default()), static_labels(ls))));
    }
    v.push(("from_static_parts", Key::from_static_parts(leak_str(name), static_labels(ls))));
    v.push(("from_static_labels(String)", Key::from_static_labels(name.clone(), static_labels(ls))));
    v.push(("from_static_labels(Arc)", Key::from_static_labels(Arc::<str>::from(name.as_str()), static_labels(ls))));
    v.push(("From<(N,L)>", Key::from((name.clone(), owned_labels(ls)))));
    v.push(("from_parts(&[(String,String)])", Key::from_parts(name.clone(), ls)));
    {
        let other = Key::from_static_parts("other", static_labels(ls));
        v.push(("from_parts(labels() iter)", Key::from_parts(name.clone(), other.labels())));
    }
    {
        let other = Key::from_parts("other", owned_labels(ls));
        v.push(("from_parts(labels() iter of a built key)", Key::from_parts(Arc::<str>::from(name.as_str()), other.labels())));
    }
    // with_extra_labels at a few split points (n = all labels extra … 0 = none extra → the clone branch)
    let mut splits = vec![0, n, n / 2, r.below(n + 1)];
    splits.sort();
    splits.dedup();
    for i in splits {
        let base = if r.chance(1, 2) {
            Key::from_parts(name.clone(), owned_labels(&ls[..i]))
        } else {
            Key::from_static_parts(leak_str(name), static_labels(&ls[..i]))
        };
        v.push(("with_extra_labels", base.with_extra_labels(mixed_labels(&ls[i..], i))));
    }
    // static strings that ALIAS other strings of the case (sub-slices of one buffer: same address, other length)
    {
        let al: &'static [Label] = Box::leak(arena.labels(ls).into_boxed_slice());
        v.push(("from_static_parts(aliased strs)", Key::from_static_parts(arena.get(name), al)));
        v.push(("from_parts(aliased &'static)", Key::from_parts(arena.get(name), arena.labels(ls))));
        // the label slice itself as a prefix of a longer static slice (same address, shorter length)
        let mut longer = arena.labels(ls);
        longer.push(Label::from_static_parts("zz-extra", "1"));
        let longer: &'static [Label] = Box::leak(longer.into_boxed_slice());
        v.push(("from_static_parts(prefix of longer slice)", Key::from_static_parts(arena.get(name), &longer[..n])));
        if n > 0 {
            v.push(("from_static_labels(sub-slice + extra)", Key::from_static_labels(arena.get(name), &longer[..n - 1]).with_extra_labels(vec![Label::new(arena.get(&ls[n - 1].0), arena.get(&ls[n - 1].1))])));
        }
    }
    // clones: of an eagerly hashed key, of a lazily hashed key before and after its first get_hash()
    v.push(("clone(built)", v[0].1.clone()));
    {
        let k = Key::from_static_parts(leak_str(name), static_labels(ls));
        v.push(("clone(static,unhashed)", k.clone()));
        let _ = k.get_hash();
        v.push(("clone(static,hashed)", k.clone()));
        v.push(("static after get_hash", k));
    }
    {
        let (kn, lv) = v[2].1.clone().into_parts();
        v.push(("from_parts(into_parts())", Key::from_parts(kn, lv)));
    }
    if n == 0 {
        v.push(("from_name(String)", Key::from_name(name.clone())));
        v.push(("from_name(&'static)", Key::from_name(leak_str(name))));
        v.push(("from_static_name", Key::from_static_name(leak_str(name))));
        v.push(("From<N>", Key::from(name.clone())));
    }
    // the macros (non-literal forms): name expression + label collection, name + `k => v` expressions
    let cap = Capture::default();
    metrics::with_local_recorder(&cap, || {
        let _ = metrics::counter!(name.clone(), ls);
        let _ = metrics::gauge!(Arc::<str>::from(name.as_str()), owned_labels(ls));
        match n {
            0 => {
                let _ = metrics::histogram!(name.clone());
            }
            1 => {
                let _ = metrics::histogram!(name.clone(), ls[0].0.clone() => ls[0].1.clone());
            }
            2 => {
                let _ = metrics::histogram!(name.clone(), ls[0].0.clone() => ls[0].1.clone(), ls[1].0.clone() => ls[1].1.clone());
            }
            3 => {
                let _ = metrics::histogram!(name.clone(), ls[0].0.clone() => ls[0].1.clone(), ls[1].0.clone() => ls[1].1.clone(),
                    ls[2].0.clone() => ls[2].1.clone());
            }
            _ => {}
        }
    });
    for k in cap.0.into_inner() {
        v.push(("macro", k));
    }
    v
}

// ---------------------------------------------------------------------------------------------
// one case

fn show(c: &Content) -> String {
    format!("{:?}{:?}", c.0, c.1)
}
fn key_tok(c: &Content) -> String {
    format!("{} {}", hexs(&c.0), pairs(&c.1))
}
fn content_of(k: &Key) -> Content {
    (k.name().to_string(), k.labels().map(|l| (l.key().to_string(), l.value().to_string())).collect())
}
fn bit(b: bool) -> &'static str {
    if b { "1" } else { "0" }
}
fn names_distinct(c: &Content) -> bool {
    let mut ks: Vec<&String> = c.1.iter().map(|(k, _)| k).collect();
    ks.sort();
    ks.windows(2).all(|w| w[0] != w[1])
}
fn is_perm(a: &Content, b: &Content) -> bool {
    let (mut x, mut y) = (a.1.clone(), b.1.clone());
    x.sort();
    y.sort();
    a.0 == b.0 && x == y
}

/// construction paths whose memo is empty until the first get_hash()
fn is_lazy_path(p: &str) -> bool {
    p.starts_with("from_static_parts") || p.starts_with("from_static_labels(S") || p.starts_with("from_static_labels(A") || p.starts_with("from_static_labels(K") || p == "from_static_name"
        || p == "clone(static,unhashed)" || p == "macro literal (static)" || p == "macro literal name"
}
/// a brand-new key that nobody has hashed yet
fn fresh_lazy(c: &Content, how: usize) -> Key {
    match how {
        0 => Key::from_static_parts(leak_str(&c.0), static_labels(&c.1)),
        1 => Key::from_static_labels(c.0.clone(), static_labels(&c.1)),
        _ => Key::from_static_labels(Arc::<str>::from(c.0.as_str()), static_labels(&c.1)),
    }
}

/// `Label`, `KeyName` and `SharedString` on their own: ==, cmp, partial_cmp, <, Hash, in every representation
fn parts_laws(contents: &[Content], r: &mut Rng, out: &mut Out) {
    let mut labels: Vec<(String, String)> = contents.iter().flat_map(|c| c.1.iter().cloned()).collect();
    labels.sort();
    labels.dedup();
    let mk = |kv: &(String, String), how: usize| -> Label {
        match how % 3 {
            0 => Label::new(kv.0.clone(), kv.1.clone()),
            1 => Label::from_static_parts(leak_str(&kv.0), leak_str(&kv.1)),
            _ => Label::new(Arc::<str>::from(kv.0.as_str()), Arc::<str>::from(kv.1.as_str())),
        }
    };
    let rec = |l: &Label| { let mut h = RecHasher::default(); l.hash(&mut h); list(h.calls) };
    for _ in 0..6.min(labels.len() * labels.len()) {
        let (a, b) = (r.pick(&labels).clone(), r.pick(&labels).clone());
        let (la, lb) = (mk(&a, r.below(3)), mk(&b, r.below(3)));
        let (e, c) = (la == lb, la.cmp(&lb));
        let tok = |kv: &(String, String)| format!("{}:{}", hexs(&kv.0), hexs(&kv.1));
        out.op(&format!("key leq {} {}", tok(&a), tok(&b)), if e { "1" } else { "0" });
        out.op(&format!("key lcmp {} {}", tok(&a), tok(&b)), ord_str(c));
        let what = format!("{:?} vs {:?}", a, b);
        if e != (c == Ordering::Equal) || e != (a == b) || la.partial_cmp(&lb) != Some(c) || (la < lb) != (c == Ordering::Less)
            || (la > lb) != (c == Ordering::Greater) || (la <= lb) != (c != Ordering::Greater) || lb.cmp(&la) != c.reverse() || (lb == la) != e
        {
            out.oracle_fail("Label: ==, cmp, partial_cmp, <, > disagree", &format!("{} : == {}, cmp {:?}, partial_cmp {:?}, < {}", what, e, c, la.partial_cmp(&lb), la < lb));
        }
        if e && rec(&la) != rec(&lb) {
            out.oracle_fail("equal Labels hash differently", &what);
        }
        out.count_n("label pairs compared", 1);
    }
    let mut strs: Vec<String> = contents.iter().map(|c| c.0.clone()).collect();
    for c in contents {
        for (k, v) in &c.1 {
            strs.push(k.clone());
            strs.push(v.clone());
        }
    }
    strs.sort();
    strs.dedup();
    let ss = |s: &str, how: usize| -> SharedString {
        match how % 3 {
            0 => SharedString::from_owned(s.to_string()),
            1 => SharedString::const_str(leak_str(s)),
            _ => SharedString::from_shared(Arc::<str>::from(s)),
        }
    };
    let mut map: HashMap<KeyName, usize> = HashMap::new();
    for (i, s) in strs.iter().enumerate() {
        map.insert(KeyName::from(ss(s, i)), i);
    }
    for (i, s) in strs.iter().enumerate() {
        // Borrow<str> for KeyName: a map keyed by KeyName is looked up with a plain &str
        if map.get(s.as_str()) != Some(&i) {
            out.oracle_fail("Borrow<str> for KeyName: lookup by &str misses the entry", &format!("{:?}", s));
        }
    }
    for _ in 0..6 {
        let (a, b) = (r.pick(&strs).clone(), r.pick(&strs).clone());
        let (sa, sb) = (ss(&a, r.below(3)), ss(&b, r.below(3)));
        let (na, nb) = (KeyName::from(ss(&a, r.below(3))), KeyName::from(ss(&b, r.below(3))));
        let c = sa.cmp(&sb);
        out.op(&format!("key scmp {} {}", hexs(&a), hexs(&b)), ord_str(c));
        let what = format!("{:?} vs {:?}", a, b);
        if c != a.as_bytes().cmp(b.as_bytes()) || sa.partial_cmp(&sb) != Some(c) || (sa == sb) != (c == Ordering::Equal) || (sa < sb) != (c == Ordering::Less)
            || (sa > sb) != (c == Ordering::Greater) || sb.cmp(&sa) != c.reverse()
        {
            out.oracle_fail("SharedString: ==, cmp, partial_cmp, < disagree (or differ from str)", &format!("{} : cmp {:?}, partial_cmp {:?}, == {}", what, c, sa.partial_cmp(&sb), sa == sb));
        }
        if na.cmp(&nb) != c || na.partial_cmp(&nb) != Some(c) || (na == nb) != (c == Ordering::Equal) || (na < nb) != (c == Ordering::Less) {
            out.oracle_fail("KeyName: ==, cmp, partial_cmp, < disagree (or differ from str)", &format!("{} : cmp {:?}, == {}", what, na.cmp(&nb), na == nb));
        }
        let mut h1 = RecHasher::default();
        na.hash(&mut h1);
        let mut h2 = RecHasher::default();
        a.as_str().hash(&mut h2);
        let mut h3 = RecHasher::default();
        sa.hash(&mut h3);
        out.op(&format!("key nhash {}", hexs(&a)), &list(h1.calls.clone()));
        if h1.calls != h2.calls || h3.calls != h2.calls {
            out.oracle_fail("Hash for KeyName / SharedString differs from Hash for str (Borrow<str> would be unlawful)", &format!("{:?}", a));
        }
        out.count_n("string pairs compared", 1);
    }
}

/// a key obtained through a random sequence of derivations (`clone`, a `get_hash()` call, `into_parts` round trip,
/// `with_extra_labels` with and without labels) from an eagerly or a lazily hashed start; the model (`Path.build`)
/// answers the content, both memo fields and `get_hash()`
fn path_case(c: &Content, contents: &[Content], r: &mut Rng, out: &mut Out) {
    let lazy = r.chance(1, 2);
    let mut k = if lazy { fresh_lazy(c, r.below(3)) } else { Key::from_parts(c.0.clone(), mixed_labels(&c.1, r.below(6))) };
    let mut line = format!("key path {} {}", if lazy { "S" } else { "P" }, key_tok(c));
    let mut content = c.clone();
    let mut steps = String::new();
    for _ in 0..r.range(0, 5) {
        match r.below(6) {
            0 => {
                k = k.clone();
                line.push_str(" c");
                steps.push_str(".clone()");
            }
            1 => {
                let _ = k.get_hash();
                line.push_str(" h");
                steps.push_str(";get_hash()");
            }
            2 => {
                let (n, l) = k.into_parts();
                k = Key::from_parts(n, l);
                line.push_str(" r");
                steps.push_str(".into_parts()->from_parts");
            }
            3 => {
                k = k.with_extra_labels(vec![]);
                line.push_str(" x .");
                steps.push_str(".with_extra_labels([])");
            }
            _ => {
                // extra labels taken from the contents of the case (so repeated names and repeated labels arise)
                let mut extra: Vec<(String, String)> = Vec::new();
                for _ in 0..r.range(1, 3) {
                    let src = &contents[r.below(contents.len())].1;
                    extra.push(if src.is_empty() { ("x".to_string(), "".to_string()) } else { src[r.below(src.len())].clone() });
                }
                k = k.with_extra_labels(mixed_labels(&extra, r.below(6)));
                line.push_str(&format!(" x {}", pairs(&extra)));
                steps.push_str(&format!(".with_extra_labels({:?})", extra));
                content.1.extend(extra);
            }
        }
    }
    let reference = Key::from_parts(content.0.clone(), owned_labels(&content.1));
    let memo = memo_of(&k);
    let got = content_of(&k);
    let gh = k.get_hash();
    let memo_s = match memo {
        None => "unreadable unreadable".to_string(),
        Some((f, v)) => format!("{} {}", bit(f), if v == reference.get_hash() { "ok" } else if v == 0 { "zero" } else { "bad" }),
    };
    out.op(&line, &format!("{} {} {}", key_tok(&got), memo_s, if gh == reference.get_hash() { "ok" } else { "bad" }));
    out.count_n("construction paths replayed in the model", 1);
    if got != content || gh != reference.get_hash() || k != reference || k.cmp(&reference) != Ordering::Equal || std_stream(&k) != std_stream(&reference)
        || matches!(memo, Some((true, v)) if v != gh)
    {
        out.oracle_fail("construction path: derived key differs from a key built directly from the same content",
            &format!("{} {}{} : content {}, memo {:?}, get_hash {:#x}; directly built: {} get_hash {:#x}", if lazy { "static" } else { "built" }, show(c), steps, show(&got), memo, gh, show(&content), reference.get_hash()));
    }
}

/// `extra`: further keys (from literal macros) to be treated as variants of content `extra.0`
fn examine(contents: &[Content], extra: Vec<(usize, &'static str, Key)>, r: &mut Rng, out: &mut Out) {
    let m = contents.len();
    let arena = Arena::new(contents);
    let mut vars: Vec<Vec<(&'static str, Key)>> = contents.iter().map(|c| variants(c, r, &arena)).collect();
    for (i, p, k) in extra {
        vars[i].push((p, k));
    }
    // ---- per content: call sequences, construction-path independence, get_hash vs Hash
    let mut streams = Vec::new();
    for (ci, c) in contents.iter().enumerate() {
        let vs = &vars[ci];
        let s0 = std_stream(&vs[0].1);
        let r0 = raw_stream(&vs[0].1);
        let g0 = vs[0].1.get_hash();
        out.op(&format!("key hash {}", key_tok(c)), &s0);
        out.op(&format!("key raw {}", key_tok(c)), &r0);
        out.count(&format!("labels={}", if c.1.len() >= 8 { "8+".to_string() } else { c.1.len().to_string() }));
        if !names_distinct(c) {
            out.count("content with repeated label name");
        }
        // pass 1 — BEFORE anything calls get_hash() on the lazily hashed variants (from_static_parts,
        // from_static_labels, from_static_name, clone of an unhashed key, the literal macros): `==`, `cmp`,
        // `partial_cmp` and std `Hash` must not depend on whether the memo has been filled
        let lazy: Vec<usize> = vs.iter().enumerate().filter(|(_, (p, _))| is_lazy_path(p)).map(|(i, _)| i).collect();
        for (vi, (p, k)) in vs.iter().enumerate() {
            let what = format!("construction path `{}` (before any get_hash()) differs from `{}` for {}", p, vs[0].0, show(c));
            if !(k == &vs[0].1) || !(&vs[0].1 == k) || k != k {
                out.oracle_fail("construction-path: == before first get_hash", &what);
            }
            if k.cmp(&vs[0].1) != Ordering::Equal || vs[0].1.cmp(k) != Ordering::Equal || k.partial_cmp(&vs[0].1) != Some(Ordering::Equal) {
                out.oracle_fail("construction-path: cmp before first get_hash", &format!("{}: {:?}", what, k.cmp(&vs[0].1)));
            }
            if std_stream(k) != s0 {
                out.oracle_fail("construction-path: std Hash call sequence before first get_hash", &what);
            }
            // unhashed against unhashed
            for &li in lazy.iter().filter(|&&li| li != vi).take(3) {
                let l = &vs[li].1;
                if !(k == l) || !(l == k) || k.cmp(l) != Ordering::Equal || l.cmp(k) != Ordering::Equal {
                    out.oracle_fail("construction-path: ==/cmp between two keys before their first get_hash",
                        &format!("`{}` vs `{}` for {}: == {}, cmp {:?}", p, vs[li].0, show(c), k == l, k.cmp(l)));
                }
                out.count_n("unhashed-vs-unhashed comparisons", 1);
            }
        }
        // label collections whose iteration order is not the given order (maps): equal when names are distinct
        if names_distinct(c) {
            let bm: BTreeMap<String, String> = c.1.iter().cloned().collect();
            let hm: HashMap<String, String> = c.1.iter().cloned().collect();
            let sm: BTreeMap<&'static str, Arc<str>> = c.1.iter().map(|(k, v)| (leak_str(k), Arc::<str>::from(v.as_str()))).collect();
            let from_maps = [
                ("from_parts(&BTreeMap<String,String>)", Key::from_parts(c.0.clone(), &bm)),
                ("from_parts(&HashMap<String,String>)", Key::from_parts(c.0.clone(), &hm)),
                ("from_parts(&BTreeMap<&'static str,Arc<str>>)", Key::from_parts(leak_str(&c.0), &sm)),
            ];
            for (p, k) in from_maps.iter() {
                let mut got: Vec<(String, String)> = k.labels().map(|l| (l.key().to_string(), l.value().to_string())).collect();
                let mut want = c.1.clone();
                got.sort();
                want.sort();
                if k != &vs[0].1 || &vs[0].1 != k || k.cmp(&vs[0].1) != Ordering::Equal || std_stream(k) != s0 || k.get_hash() != g0 || got != want || k.name() != c.0 {
                    out.oracle_fail("construction-path: labels from a map (distinct names) give a different key",
                        &format!("`{}` for {}: == {}, cmp {:?}, same stream {}, same get_hash {}, same label set {}", p, show(c), k == &vs[0].1, k.cmp(&vs[0].1), std_stream(k) == s0, k.get_hash() == g0, got == want));
                }
                out.count_n("variants built", 1);
            }
        }
        for (p, k) in vs.iter() {
            out.count_n("variants built", 1);
            let what = format!("construction path `{}` differs from `{}` for {}", p, vs[0].0, show(c));
            if std_stream(k) != s0 {
                out.oracle_fail("construction-path: std Hash call sequence", &format!("{}: {} vs {}", what, std_stream(k), s0));
            }
            let g = k.get_hash();
            if g != g0 || k.get_hash() != g {
                out.oracle_fail("construction-path: get_hash", &format!("{}: {:#x} vs {:#x}", what, g, g0));
            }
            if !(k == &vs[0].1) || !(&vs[0].1 == k) || k != k {
                out.oracle_fail("construction-path: ==", &what);
            }
            if k.cmp(&vs[0].1) != Ordering::Equal || vs[0].1.cmp(k) != Ordering::Equal {
                out.oracle_fail("construction-path: cmp", &format!("{}: {:?}", what, k.cmp(&vs[0].1)));
            }
            if k.name() != c.0 || k.labels().map(|l| (l.key().to_string(), l.value().to_string())).collect::<Vec<_>>() != c.1 {
                out.oracle_fail("construction-path: content", &what);
            }
            // get_hash is KeyHasher over the Hash impl; Hashable (metrics-util) agrees
            let mut kh = KeyHasher::default();
            k.hash(&mut kh);
            if kh.finish() != g || Hashable::hashable(k) != g || DefaultHashable(k.clone()).hashable() != g {
                out.oracle_fail("get_hash != KeyHasher(Hash)", &what);
            }
        }
        streams.push(s0);
    }
    // ---- all ordered pairs (a random construction path on each side)
    let mut eqm = vec![vec![false; m]; m];
    let mut cmpm = vec![vec![Ordering::Equal; m]; m];
    let mut picked: Vec<(usize, usize, usize, usize, bool, Ordering, u64, u64)> = Vec::new();
    for i in 0..m {
        for j in 0..m {
            let (ai, bi) = (r.below(vars[i].len()), r.below(vars[j].len()));
            let a = &vars[i][ai];
            let b = &vars[j][bi];
            let (ka, kb) = (&a.1, &b.1);
            let e = ka == kb;
            let c = ka.cmp(kb);
            let gh = ka.get_hash() == kb.get_hash();
            eqm[i][j] = e;
            cmpm[i][j] = c;
            let toks = format!("{} {}", key_tok(&contents[i]), key_tok(&contents[j]));
            out.op(&format!("key eq {}", toks), if e { "1" } else { "0" });
            out.op(&format!("key cmp {}", toks), ord_str(c));
            out.op(&format!("key gh {}", toks), if gh { "1" } else { "0" });
            let pair = format!("a={} [{}]  b={} [{}]", show(&contents[i]), a.0, show(&contents[j]), b.0);
            if e != (c == Ordering::Equal) {
                out.oracle_fail("eq-cmp incoherent: (a == b) != (a.cmp(b) == Equal)", &format!("{} : a==b is {}, a.cmp(b) is {:?}", pair, e, c));
            }
            if ka.partial_cmp(kb) != Some(c) || (ka < kb) != (c == Ordering::Less) {
                out.oracle_fail("partial_cmp differs from cmp", &pair);
            }
            // every operator and provided method of PartialEq / PartialOrd / Ord (an impl may override any of them)
            let ops = (ka != kb, ka < kb, ka <= kb, ka > kb, ka >= kb, ka.partial_cmp(kb));
            out.op(&format!("key ops {}", toks), &format!("{} {} {} {} {} {}", bit(ops.0), bit(ops.1), bit(ops.2), bit(ops.3), bit(ops.4), ops.5.map_or("none", ord_str)));
            if ops != (!e, c == Ordering::Less, c != Ordering::Greater, c == Ordering::Greater, c != Ordering::Less, Some(c)) {
                out.oracle_fail("operators disagree with == / cmp: (!=, <, <=, >, >=, partial_cmp)",
                    &format!("{} : a==b is {}, a.cmp(b) is {:?}, but (a!=b, a<b, a<=b, a>b, a>=b, partial_cmp) = {:?}", pair, e, c, ops));
            }
            {
                let (mx, mn) = (ka.clone().max(kb.clone()), ka.clone().min(kb.clone()));
                out.op(&format!("key sel {}", toks), &format!("{} {}", key_tok(&content_of(&mx)), key_tok(&content_of(&mn))));
                let (wmx, wmn) = if c == Ordering::Greater { (i, j) } else { (j, i) };
                let rmx: &Key = std::cmp::max(ka, kb);
                let rmn: &Key = std::cmp::min(ka, kb);
                if content_of(&mx) != contents[wmx] || content_of(&mn) != contents[wmn] || mx.cmp(&mn) == Ordering::Less || mx < mn
                    || mx.get_hash() != [ka, kb][(wmx == j) as usize].get_hash() || mn.get_hash() != [ka, kb][(wmn == j) as usize].get_hash()
                    || !std::ptr::eq(rmx, if c == Ordering::Greater { ka } else { kb }) || !std::ptr::eq(rmn, if c == Ordering::Greater { kb } else { ka })
                {
                    out.oracle_fail("max/min do not select by cmp",
                        &format!("{} : a.cmp(b) is {:?}, a.max(b) = {}, a.min(b) = {}", pair, c, show(&content_of(&mx)), show(&content_of(&mn))));
                }
            }
            picked.push((i, ai, j, bi, e, c, ka.get_hash(), kb.get_hash()));
            if e {
                if std_stream(ka) != std_stream(kb) {
                    out.oracle_fail("equal keys, different std Hash call sequence", &format!("{} : {} vs {}", pair, std_stream(ka), std_stream(kb)));
                }
                if !gh {
                    out.oracle_fail("equal keys, different get_hash()", &pair);
                }
                if i != j {
                    out.count("pair: equal, different content");
                }
            }
            // the same pair as freshly built, never hashed keys (what the literal macros hand out): same verdicts,
            // before and after their first get_hash()
            {
                let fa = fresh_lazy(&contents[i], r.below(3));
                let fb = fresh_lazy(&contents[j], r.below(3));
                let before = (fa == fb, fa.cmp(&fb), fa == *kb, fa.cmp(kb), *ka == fb, ka.cmp(&fb), fa.partial_cmp(&fb), fa != fb, fa <= fb, *ka > fb);
                let _ = fa.get_hash();
                let half = (fa == fb, fa.cmp(&fb), fa == *kb, fa.cmp(kb), *ka == fb, ka.cmp(&fb), fa.partial_cmp(&fb), fa != fb, fa <= fb, *ka > fb);
                let _ = fb.get_hash();
                let after = (fa == fb, fa.cmp(&fb), fa == *kb, fa.cmp(kb), *ka == fb, ka.cmp(&fb), fa.partial_cmp(&fb), fa != fb, fa <= fb, *ka > fb);
                let want = (e, c, e, c, e, c, Some(c), !e, c != Ordering::Greater, c == Ordering::Greater);
                if before != want || half != want || after != want {
                    out.oracle_fail("==/cmp of a lazily hashed key depends on whether get_hash() has been called",
                        &format!("{} : hashed keys say == {}, cmp {:?}; never-hashed keys (a==b, a.cmp(b), a==B, a.cmp(B), A==b, A.cmp(b), partial_cmp, a!=b, a<=b, A>b): before {:?}, after a.get_hash() {:?}, after both {:?}", pair, e, c, before, half, after));
                }
                if e && fa.get_hash() != fb.get_hash() {
                    out.oracle_fail("equal keys, different get_hash()", &format!("{} (freshly built static keys)", pair));
                }
                out.count_n("pairs of never-hashed keys compared", 1);
            }
            // the derived impls of metrics-util's CompositeKey inherit the same laws — with every pair of kinds
            {
                let kinds = [MetricKind::Counter, MetricKind::Gauge, MetricKind::Histogram];
                let kt = ["c", "g", "h"];
                let (xa, xb) = if r.chance(1, 2) { (r.below(3), r.below(3)) } else { let x = r.below(3); (x, x) };
                let (ca, cb) = (CompositeKey::new(kinds[xa], ka.clone()), CompositeKey::new(kinds[xb], kb.clone()));
                let (ce, cc) = (ca == cb, ca.cmp(&cb));
                out.op(&format!("key ceq {} {} {} {}", kt[xa], key_tok(&contents[i]), kt[xb], key_tok(&contents[j])), if ce { "1" } else { "0" });
                out.op(&format!("key ccmp {} {} {} {}", kt[xa], key_tok(&contents[i]), kt[xb], key_tok(&contents[j])), ord_str(cc));
                let cpair = format!("{:?}/{:?} {}", kinds[xa], kinds[xb], pair);
                if ce != (cc == Ordering::Equal) {
                    out.oracle_fail("CompositeKey eq-cmp incoherent", &format!("{} : == {}, cmp {:?}", cpair, ce, cc));
                }
                if ce != (xa == xb && e) {
                    out.oracle_fail("CompositeKey == is not (same kind and equal keys)", &format!("{} : == {}", cpair, ce));
                }
                if cc != xa.cmp(&xb).then(c) || ca.partial_cmp(&cb) != Some(cc) || cb.cmp(&ca) != cc.reverse() || (cb == ca) != ce {
                    out.oracle_fail("CompositeKey cmp is not (kind, key) lexicographic / not antisymmetric", &format!("{} : {:?}", cpair, cc));
                }
                let sh = |k: &CompositeKey| { let mut h = RecHasher::default(); k.hash(&mut h); list(h.calls) };
                if ce && (sh(&ca) != sh(&cb) || DefaultHashable(ca.clone()).hashable() != DefaultHashable(cb.clone()).hashable()) {
                    out.oracle_fail("equal CompositeKeys hash differently", &cpair);
                }
                if xa != xb {
                    out.count("composite pair: different kinds");
                }
            }
            if i != j && is_perm(&contents[i], &contents[j]) {
                if names_distinct(&contents[i]) {
                    out.count("pair: permutation, distinct names");
                    if !e || c != Ordering::Equal || streams[i] != streams[j] || !gh {
                        out.oracle_fail("label order matters although label names are distinct",
                            &format!("{} : == {}, cmp {:?}, same stream {}, same get_hash {}", pair, e, c, streams[i] == streams[j], gh));
                    }
                } else {
                    out.count("pair: permutation, repeated names");
                }
            }
        }
    }
    // ---- construction path x construction path.  Same content: EVERY ordered pair of paths (not only "against path 0");
    // different contents: every path of the one against a rotating path of the other, verdicts as in the matrix above
    for ci in 0..m {
        let vs = &vars[ci];
        for (pa, ka) in vs.iter() {
            for (pb, kb) in vs.iter() {
                if !(ka == kb) || ka != kb || ka.cmp(kb) != Ordering::Equal || ka < kb || ka > kb || !(ka <= kb) {
                    out.oracle_fail("construction-path pair: same content, not ==/Equal",
                        &format!("`{}` vs `{}` for {}: == {}, != {}, cmp {:?}, < {}, > {}, <= {}", pa, pb, show(&contents[ci]), ka == kb, ka != kb, ka.cmp(kb), ka < kb, ka > kb, ka <= kb));
                }
            }
        }
        out.count_n("path pairs compared (same content, exhaustive)", (vs.len() * vs.len()) as u64);
    }
    for i in 0..m {
        for j in 0..m {
            if i == j {
                continue;
            }
            let off = r.below(vars[j].len());
            for (x, (pa, ka)) in vars[i].iter().enumerate() {
                let (pb, kb) = &vars[j][(x + off) % vars[j].len()];
                let got = (ka == kb, ka != kb, ka.cmp(kb), ka < kb, ka >= kb);
                let (e, c) = (eqm[i][j], cmpm[i][j]);
                if got != (e, !e, c, c == Ordering::Less, c != Ordering::Less) {
                    out.oracle_fail("construction-path pair: the verdict depends on the paths",
                        &format!("a={} [{}]  b={} [{}] : (==, !=, cmp, <, >=) = {:?}, other paths of the same contents gave == {}, cmp {:?}", show(&contents[i]), pa, show(&contents[j]), pb, got, e, c));
                }
                out.count_n("path pairs compared (different contents)", 1);
            }
        }
    }
    // ---- "on every thread": two other threads re-evaluate ==, cmp, the operators, the Hash call sequence and get_hash()
    // of the very same key objects at the same time; the verdicts are those of the main thread
    {
        let (varsr, pickedr, streamsr) = (&vars, &picked, &streams);
        let bad: Vec<String> = std::thread::scope(|sc| {
            let hs: Vec<_> = (0..2)
                .map(|w| {
                    sc.spawn(move || {
                        let mut bad = Vec::new();
                        for &(i, ai, j, bi, e, c, ga, gb) in pickedr.iter() {
                            let (ka, kb) = (&varsr[i][ai].1, &varsr[j][bi].1);
                            let got = (ka == kb, ka != kb, ka.cmp(kb), ka.partial_cmp(kb), ka <= kb, ka.get_hash(), kb.get_hash(), ka.clone().get_hash());
                            if got != (e, !e, c, Some(c), c != Ordering::Greater, ga, gb, ga) || std_stream(ka) != streamsr[i] || std_stream(kb) != streamsr[j] {
                                bad.push(format!("thread {}: contents {} / {} paths `{}` / `{}`: (==, !=, cmp, partial_cmp, <=, get_hash a, get_hash b, clone get_hash) = {:?}; main thread: == {}, cmp {:?}, get_hash {:#x} / {:#x}",
                                    w, i, j, varsr[i][ai].0, varsr[j][bi].0, got, e, c, ga, gb));
                            }
                        }
                        bad
                    })
                })
                .collect();
            hs.into_iter().flat_map(|h| h.join().unwrap()).collect()
        });
        for b in bad {
            out.oracle_fail("another thread gets a different ==/cmp/Hash/get_hash for the same keys", &b);
        }
        out.count_n("pairs re-evaluated on two other threads", picked.len() as u64);
    }
    // ---- clamp on a few triples with lo <= hi
    for _ in 0..8 {
        let (x, lo, hi) = (r.below(m), r.below(m), r.below(m));
        if cmpm[lo][hi] == Ordering::Greater {
            continue;
        }
        let k = |i: usize, r: &mut Rng| vars[i][r.below(vars[i].len())].1.clone();
        let got = k(x, r).clamp(k(lo, r), k(hi, r));
        out.op(&format!("key clamp {} {} {}", key_tok(&contents[x]), key_tok(&contents[lo]), key_tok(&contents[hi])), &key_tok(&content_of(&got)));
        let want = if cmpm[x][lo] == Ordering::Less { lo } else if cmpm[x][hi] == Ordering::Greater { hi } else { x };
        if content_of(&got) != contents[want] {
            out.oracle_fail("clamp does not select by cmp", &format!("x={} lo={} hi={} : got {}", show(&contents[x]), show(&contents[lo]), show(&contents[hi]), show(&content_of(&got))));
        }
        out.count_n("clamp calls", 1);
    }
    // ---- construction paths as sequences of derivations, against the model's `Path.build`
    for _ in 0..2 {
        let ci = r.below(m);
        path_case(&contents[ci], contents, r, out);
    }
    for i in 0..m {
        if !eqm[i][i] {
            out.oracle_fail("== not reflexive", &show(&contents[i]));
        }
        for j in 0..m {
            if eqm[i][j] != eqm[j][i] {
                out.oracle_fail("== not symmetric", &format!("{} / {}", show(&contents[i]), show(&contents[j])));
            }
            if cmpm[i][j] != cmpm[j][i].reverse() {
                out.oracle_fail("cmp not antisymmetric: a.cmp(b) != b.cmp(a).reverse()",
                    &format!("{} / {} : {:?} {:?}", show(&contents[i]), show(&contents[j]), cmpm[i][j], cmpm[j][i]));
            }
            for k in 0..m {
                if eqm[i][j] && eqm[j][k] && !eqm[i][k] {
                    out.oracle_fail("== not transitive", &format!("{} / {} / {}", show(&contents[i]), show(&contents[j]), show(&contents[k])));
                }
                let le = |o: Ordering| o != Ordering::Greater;
                if le(cmpm[i][j]) && le(cmpm[j][k]) && !le(cmpm[i][k]) {
                    out.oracle_fail("cmp not transitive", &format!("{} <= {} <= {} but first > third", show(&contents[i]), show(&contents[j]), show(&contents[k])));
                }
                out.count_n("triples checked", 1);
            }
        }
    }
    // a sort by the real Ord must put equal keys next to each other (what BTreeMap / sort+dedup rely on)
    {
        let mut idx: Vec<usize> = (0..m).collect();
        idx.sort_by(|&a, &b| vars[a][0].1.cmp(&vars[b][0].1));
        for w in 0..m {
            for x in w + 1..m {
                if eqm[idx[w]][idx[x]] && (w + 1..x).any(|y| !eqm[idx[w]][idx[y]]) {
                    out.oracle_fail("sorting by Ord separates equal keys", &format!("{} … {}", show(&contents[idx[w]]), show(&contents[idx[x]])));
                }
            }
        }
    }
    parts_laws(contents, r, out);
    if contents.iter().any(|c| c.1.len() >= 2) {
        out.nontrivial();
    }
}

/// N threads race on the first `get_hash()` of one shared, never-hashed static key
fn race(c: &Content, nthreads: usize, rounds: usize, r: &mut Rng, out: &mut Out, shared: Option<&'static Key>) {
    let reference = Key::from_parts(c.0.clone(), owned_labels(&c.1)).get_hash();
    for round in 0..rounds {
        // from_static_parts, from_static_labels with an owned name (its clone allocates), … with an Arc name
        let key: &'static Key = match (shared, round) {
            (Some(k), 0) => k,
            _ => Box::leak(Box::new(fresh_lazy(c, round + r.below(3)))),
        };
        let ready = Arc::new(AtomicUsize::new(0));
        let handles: Vec<_> = (0..nthreads)
            .map(|t| {
                let ready = ready.clone();
                std::thread::spawn(move || {
                    ready.fetch_add(1, AO::SeqCst);
                    while ready.load(AO::SeqCst) < nthreads {
                        std::hint::spin_loop();
                    }
                    // every other thread clones FIRST, i.e. while the others are inside their first get_hash()
                    let early = if t % 2 == 1 { Some(key.clone()) } else { None };
                    let first = key.get_hash();
                    let again = key.get_hash();
                    let cl = key.clone().get_hash();
                    let early_ok = match early {
                        Some(e) => e == *key && e.cmp(key) == Ordering::Equal && memo_of(&e).map_or(true, |(f, v)| !f || v == first) && e.get_hash() == first,
                        None => true,
                    };
                    (first, again, cl, early_ok)
                })
            })
            .collect();
        let res4: Vec<(u64, u64, u64, bool)> = handles.into_iter().map(|h| h.join().unwrap()).collect();
        for (t, x) in res4.iter().enumerate() {
            if !x.3 {
                out.oracle_fail("clone() taken while first get_hash() calls were racing differs from the original",
                    &format!("{} thread {} of {}: the clone is not ==, or carries hashed=true with a wrong hash, or its get_hash() differs from {:#x}", show(c), t, nthreads, x.0));
            }
        }
        let res: Vec<(u64, u64, u64)> = res4.iter().map(|x| (x.0, x.1, x.2)).collect();
        let sched: Vec<String> = (0..r.below(3 * nthreads + 1)).map(|_| r.below(nthreads).to_string()).collect();
        let ans = list(res.iter().map(|(f, _, _)| if *f == reference { "ok".to_string() } else { format!("bad:{}", f) }));
        out.op(&format!("key race static {} {} {}", key_tok(c), nthreads, list(sched)), &ans);
        out.count_n("racing get_hash calls", nthreads as u64);
        for (t, (f, a, cl)) in res.iter().enumerate() {
            if *f != reference || *a != reference || *cl != reference || key.get_hash() != reference {
                out.oracle_fail("racing get_hash() returned a different value",
                    &format!("{} thread {} of {}: first {:#x}, again {:#x}, clone {:#x}, fresh identical key {:#x}", show(c), t, nthreads, f, a, cl, reference));
            }
        }
    }
    // an eagerly hashed key: no stores at all
    let built: &'static Key = Box::leak(Box::new(Key::from_parts(c.0.clone(), owned_labels(&c.1))));
    let hs: Vec<_> = (0..2).map(|_| std::thread::spawn(move || built.get_hash())).collect();
    let res: Vec<u64> = hs.into_iter().map(|h| h.join().unwrap()).collect();
    out.op(
        &format!("key race built {} 2 .", key_tok(c)),
        &list(res.iter().map(|f| if *f == reference { "ok".to_string() } else { format!("bad:{}", f) })),
    );
}

// ---------------------------------------------------------------------------------------------
// deterministic schedules over the yield points of `Key::get_hash` (needs the `verif_key_hook` hook)

#[cfg(has_key_hook)]
pub(crate) mod sched {
    use std::cell::Cell;
    use std::sync::{Arc, Condvar, Mutex};

    pub struct St {
        parked: Vec<Option<&'static str>>,
        finished: Vec<bool>,
        grant: Option<usize>,
    }
    static ST: Mutex<St> = Mutex::new(St { parked: Vec::new(), finished: Vec::new(), grant: None });
    static CV: Condvar = Condvar::new();
    thread_local! { static TID: Cell<Option<usize>> = Cell::new(None); }

    /// the hook: a managed thread parks here until the controller grants it one step
    pub fn point(id: &'static str) {
        let t = match TID.with(|c| c.get()) {
            Some(t) => t,
            None => return,
        };
        let mut st = ST.lock().unwrap();
        st.parked[t] = Some(id);
        CV.notify_all();
        while st.grant != Some(t) {
            st = CV.wait(st).unwrap();
        }
        st.grant = None;
        st.parked[t] = None;
    }

    /// `n` threads run `f(t)`; exactly one of them moves at a time, from one yield point to its next.
    /// `schedule`: thread ids; an id that is not runnable is skipped, an exhausted schedule falls back to
    /// lowest-id-first.  Returns the grants actually made `(thread, point id)` and the results.
    pub fn run<R: Send + 'static>(
        n: usize,
        schedule: &[usize],
        f: impl Fn(usize) -> R + Send + Sync + 'static,
    ) -> (Vec<(usize, &'static str)>, Vec<R>) {
        {
            let mut st = ST.lock().unwrap();
            st.parked = vec![None; n];
            st.finished = vec![false; n];
            st.grant = None;
        }
        metrics::verif_key_hook::set(Some(point));
        let f = Arc::new(f);
        let handles: Vec<_> = (0..n)
            .map(|t| {
                let f = f.clone();
                std::thread::spawn(move || {
                    TID.with(|c| c.set(Some(t)));
                    let r = f(t);
                    let mut st = ST.lock().unwrap();
                    st.finished[t] = true;
                    CV.notify_all();
                    r
                })
            })
            .collect();
        let mut trace = Vec::new();
        let mut si = 0;
        loop {
            let mut st = ST.lock().unwrap();
            while !(0..n).all(|t| st.parked[t].is_some() || st.finished[t]) {
                st = CV.wait(st).unwrap();
            }
            if (0..n).all(|t| st.finished[t]) {
                break;
            }
            let mut choice = None;
            while si < schedule.len() {
                let t = schedule[si];
                si += 1;
                if t < n && !st.finished[t] {
                    choice = Some(t);
                    break;
                }
            }
            let t = choice.unwrap_or_else(|| (0..n).find(|&t| !st.finished[t]).unwrap());
            trace.push((t, st.parked[t].unwrap()));
            st.grant = Some(t);
            CV.notify_all();
            while !(st.grant.is_none() && (st.parked[t].is_some() || st.finished[t])) {
                st = CV.wait(st).unwrap();
            }
        }
        let res = handles.into_iter().map(|h| h.join().unwrap()).collect();
        metrics::verif_key_hook::set(None);
        (trace, res)
    }
}

/// first `get_hash()` calls of `n` threads on one shared key under a given schedule; the op carries the
/// grants actually made, the answer the yield point each grant started from and every thread's result
#[cfg(has_key_hook)]
fn scheduled(c: &Content, kind: &str, n: usize, schedule: &[usize], out: &mut Out) {
    let reference = Key::from_parts(c.0.clone(), owned_labels(&c.1)).get_hash();
    let key: &'static Key = match kind {
        "static" => Box::leak(Box::new(Key::from_static_parts(leak_str(&c.0), static_labels(&c.1)))),
        _ => Box::leak(Box::new(Key::from_parts(c.0.clone(), owned_labels(&c.1)))),
    };
    let (trace, res) = sched::run(n, schedule, move |_| key.get_hash());
    let show_res = |v: &u64| if *v == reference { "ok".to_string() } else { format!("bad:{}", v) };
    out.op(
        &format!("key sched {} {} {} {}", kind, key_tok(c), n, list(trace.iter().map(|(t, _)| t.to_string()))),
        &format!("{} {}", list(trace.iter().map(|(t, id)| format!("{}:{}", t, id))), list(res.iter().map(show_res))),
    );
    out.count("scheduled get_hash runs");
    let after = key.get_hash();
    let cloned = key.clone().get_hash();
    for (t, v) in res.iter().enumerate() {
        if *v != reference || after != reference || cloned != reference {
            out.oracle_fail(
                "get_hash() returned a different value under a schedule",
                &format!(
                    "{} ({} key), {} threads, grants {:?}: thread {} returned {:#x}, a later call {:#x}, a clone {:#x}; a fresh identical key has {:#x}",
                    show(c), kind, n, trace, t, v, after, cloned, reference
                ),
            );
            break;
        }
    }
}
#[cfg(not(has_key_hook))]
fn scheduled(_: &Content, _: &str, _: usize, _: &[usize], out: &mut Out) {
    out.count("scheduled get_hash runs skipped (hook verif_key_hook absent)");
}

/// the memo fields of a key as its `Debug` output shows them (`…, hashed: true, hash: 123 }`); they are the last two
/// fields, so the LAST occurrence of `, hashed: ` is the real one whatever the strings of the key contain
fn memo_of(k: &Key) -> Option<(bool, u64)> {
    let d = format!("{:?}", k);
    let i = d.rfind(", hashed: ")?;
    let (f, rest) = d[i + 10..].split_once(", hash: ")?;
    let v = rest.trim_end_matches(|ch| ch == ' ' || ch == '}').parse::<u64>().ok()?;
    match f {
        "true" => Some((true, v)),
        "false" => Some((false, v)),
        _ => None,
    }
}

/// threads with roles `h` (first `get_hash()`) and `c` (`clone()`) on one shared, lazily hashed key, run exactly
/// under `schedule` by token passing over the yield points of `get_hash` and of the `Cow::clone` calls inside
/// `Key::clone` (every thread parks at a harness-side `start` point first, so that nothing at all runs unscheduled)
#[cfg(has_cow_hook)]
fn mixed(c: &Content, kind: &str, build: usize, roles: &[u8], schedule: &[usize], out: &mut Out) {
    let reference = Key::from_parts(c.0.clone(), owned_labels(&c.1)).get_hash();
    let key: &'static Key = Box::leak(Box::new(fresh_lazy(c, build)));
    if kind == "prehashed" {
        let _ = key.get_hash();
    }
    let n = roles.len();
    let rv = roles.to_vec();
    let (trace, res) = sched::run(n, schedule, move |t| {
        sched::point("start");
        if rv[t] == b'h' {
            (Some(key.get_hash()), None)
        } else {
            (None, Some(key.clone()))
        }
    });
    let show_res = |x: &(Option<u64>, Option<Key>)| match x {
        (Some(v), _) => if *v == reference { "ok".to_string() } else { format!("bad:{}", v) },
        (_, Some(cl)) => match memo_of(cl) {
            None => "memo:unreadable".to_string(),
            Some((false, _)) => "fresh".to_string(),
            Some((true, v)) => if v == reference { "memo:ok".to_string() } else { format!("memo:bad:{}", v) },
        },
        _ => "nothing".to_string(),
    };
    out.op(
        &format!("key mix {} {} {} {}", kind, key_tok(c), list(roles.iter().map(|x| (*x as char).to_string())), list(trace.iter().map(|(t, _)| t.to_string()))),
        &format!("{} {}", list(trace.iter().map(|(t, id)| format!("{}:{}", t, id))), list(res.iter().map(show_res))),
    );
    out.count("scheduled clone/get_hash runs");
    let after = key.get_hash();
    let how = ["from_static_parts", "from_static_labels(String)", "from_static_labels(Arc)"][build % 3];
    for (t, x) in res.iter().enumerate() {
        let ctx = || format!("{} ({} key, {}), roles {}, grants {:?}", show(c), kind, how, String::from_utf8_lossy(roles), trace);
        match x {
            (Some(v), _) => {
                if *v != reference || after != reference {
                    out.oracle_fail("get_hash() returned a different value under a schedule",
                        &format!("{}: thread {} returned {:#x}, a later call {:#x}; a fresh identical key has {:#x}", ctx(), t, v, after, reference));
                }
            }
            (_, Some(cl)) => {
                let memo = memo_of(cl);
                let eq = cl == key && key == cl && cl.cmp(key) == Ordering::Equal && std_stream(cl) == std_stream(key);
                let gh = cl.get_hash();
                if !eq || gh != reference || cl.get_hash() != gh || matches!(memo, Some((true, v)) if v != reference) {
                    out.oracle_fail("clone() racing with a first get_hash(): the clone is not a faithful copy",
                        &format!("{}: thread {}'s clone has memo (hashed, hash) = {:?}, clone == original: {}, clone.get_hash() = {:#x}, original.get_hash() = {:#x}, a fresh identical key has {:#x}",
                            ctx(), t, memo, eq, gh, after, reference));
                }
                // clone of the clone, and the empty-extra-labels path which is documented to clone
                let cl2 = cl.with_extra_labels(vec![]);
                if cl2 != *key || cl2.get_hash() != reference {
                    out.oracle_fail("with_extra_labels(vec![]) of a clone differs from the original", &ctx());
                }
            }
            _ => {}
        }
    }
}
#[cfg(not(has_cow_hook))]
fn mixed(_: &Content, _: &str, _: usize, _: &[u8], _: &[usize], out: &mut Out) {
    out.count("scheduled clone/get_hash runs skipped (cow-clone hook absent)");
}

/// every sequence that contains id `t` exactly `counts[t]` times
pub(crate) fn all_interleavings(counts: &[usize]) -> Vec<Vec<usize>> {
    fn go(left: &mut Vec<usize>, cur: &mut Vec<usize>, acc: &mut Vec<Vec<usize>>) {
        if left.iter().all(|&x| x == 0) {
            acc.push(cur.clone());
            return;
        }
        for t in 0..left.len() {
            if left[t] > 0 {
                left[t] -= 1;
                cur.push(t);
                go(left, cur, acc);
                cur.pop();
                left[t] += 1;
            }
        }
    }
    let mut acc = Vec::new();
    go(&mut counts.to_vec(), &mut Vec::new(), &mut acc);
    acc
}
/// grants a thread needs at most: start + 3 for a first get_hash(); start + 2 `Cow::clone` points for a clone()
pub(crate) fn grants_of(roles: &[u8]) -> Vec<usize> {
    roles.iter().map(|x| if *x == b'h' { 4 } else { 3 }).collect()
}

/// all interleavings of `n` first calls (each call is at most 3 steps): every sequence with each id 3 times
fn all_schedules(n: usize) -> Vec<Vec<usize>> {
    fn go(left: &mut Vec<usize>, cur: &mut Vec<usize>, acc: &mut Vec<Vec<usize>>) {
        if left.iter().all(|&x| x == 0) {
            acc.push(cur.clone());
            return;
        }
        for t in 0..left.len() {
            if left[t] > 0 {
                left[t] -= 1;
                cur.push(t);
                go(left, cur, acc);
                cur.pop();
                left[t] += 1;
            }
        }
    }
    let mut acc = Vec::new();
    go(&mut vec![3; n], &mut Vec::new(), &mut acc);
    acc
}

fn random_schedule(r: &mut Rng, n: usize) -> Vec<usize> {
    match r.below(4) {
        0 => (0..3 * n).map(|i| i % n).collect(),                      // round robin
        1 => (0..n).flat_map(|t| vec![t; r.range(1, 3)]).collect(),     // one after the other, some cut short
        _ => (0..r.range(0, 4 * n)).map(|_| r.below(n)).collect(),
    }
}

// ---------------------------------------------------------------------------------------------
// generator

const LNAMES: &[&str] = &["", "a", "ab", "b", "é", "日本", "a\u{0}", "z", "\u{7f}", "🦀", "A", "aa", "host", "le"];
const LVALS: &[&str] = &["", "1", "2", "10", "é", "x y", "a", "ß\"", "\u{0}", "🦀🦀", "01", "v"];
const KNAMES: &[&str] = &["n", "", "m", "名前", "n\u{0}", "nn", "http_requests_total"];
const DISTINCT: &[&str] = &["k0", "k1", "k2", "", "é", "k10", "a", "ab", "b", "日本", "K0", "z"];

fn gen_contents(r: &mut Rng, out: &mut Out) -> Vec<Content> {
    let mut n = match r.weighted(&[1, 2, 6, 4, 5, 2, 2, 2]) {
        0 => 0,
        1 => 1,
        2 => 2,
        3 => 3,
        4 => r.range(4, 7),
        5 => 8,
        6 => r.range(9, 10),
        // long label lists: library sorts switch algorithms with the length (e.g. at 20 elements)
        _ => r.range(11, 45),
    };
    // now and then far beyond any inline-map / small-index size: around 64, 128, 256 (where a `u8`/`i8` index or a fixed
    // array would give out) and a few hundred
    if r.chance(1, 40) {
        n = *r.pick(&[63usize, 64, 65, 127, 128, 129, 200, 255, 256, 257, 300]);
        out.count("labels: 63-300");
    }
    let distinct_mode = r.chance(1, 3);
    out.count(if distinct_mode { "mode: distinct label names" } else { "mode: names from a pool of 3" });
    // a third of the cases: every string of the case gets one long common prefix (or suffix) of 7…64 bytes, and
    // in half of those is padded to one common length — so that distinct strings of the case have the same length
    // and agree on their first (last) 8, 16, 24, 32 … bytes, the region where word-wise comparison or hashing and
    // small-string special cases would go wrong
    let stretch: Option<(usize, bool, bool)> =
        if r.chance(1, 3) { Some((*r.pick(&[7usize, 8, 9, 15, 16, 17, 23, 24, 25, 31, 32, 33, 40, 64]), r.chance(1, 2), r.chance(1, 4))) } else { None };
    // one case in twelve of the others: very long strings (127 … 1100 bytes) that differ only in their last (first) few
    // bytes — chunked or length-limited comparison / hashing of `Cow<str>` / `Label` would show from a size upwards
    let stretch = match stretch {
        None if r.chance(1, 8) => Some((*r.pick(&[127usize, 128, 129, 255, 256, 257, 511, 512, 1024, 1100]), r.chance(1, 2), r.chance(1, 4))),
        x => x,
    };
    if let Some((p, _, _)) = stretch {
        if p >= 100 {
            n = n.min(if p >= 1000 { 4 } else { 8 });
            out.count("strings: common part of 127-1100 bytes");
        }
    }
    if n > 10 {
        out.count("labels: more than 10");
    }
    if let Some((p, pad, suffix)) = stretch {
        out.count(&format!("strings: common {} of {} bytes{}", if suffix { "suffix" } else { "prefix" }, if p < 16 { "7-15" } else if p < 32 { "16-31" } else if p < 100 { "32-64" } else { "127+" }, if pad { ", equal lengths" } else { "" }));
    }
    let tr = |s: &str| -> String {
        match stretch {
            None => s.to_string(),
            Some((p, pad, suffix)) => {
                let common: String = "abcdefghijklmnopqrstuvwxyz0123456789".chars().cycle().take(p).collect();
                let mut core = s.to_string();
                if pad {
                    while core.len() < 8 {
                        core.push('~');
                    }
                }
                if suffix { format!("{}{}", core, common) } else { format!("{}{}", common, core) }
            }
        }
    };
    let pick3 = |r: &mut Rng, src: &[&'static str]| -> Vec<String> { (0..3).map(|_| tr(*r.pick(src))).collect() };
    let mut names = pick3(r, LNAMES);
    let mut vals = pick3(r, LVALS);
    let wild = r.chance(1, 4);
    if wild {
        // label names and values outside the literal pools
        names[r.below(3)] = tr(&wild_string(r, false));
        vals[r.below(3)] = tr(&wild_string(r, false));
        out.count("label names/values: generated strings");
    }
    let mut knames = [tr(*r.pick(KNAMES)), tr(*r.pick(KNAMES))];
    if r.chance(1, 4) {
        // key names outside the seven literals
        knames[r.below(2)] = wild_string(r, false);
        out.count("key name: generated string");
    }
    let mut dn: Vec<String> = DISTINCT.iter().map(|s| tr(s)).collect();
    if wild {
        let w = tr(&wild_string(r, false));
        if !dn.contains(&w) {
            let at = r.below(dn.len());
            dn[at] = w;
        }
    }
    for i in (1..dn.len()).rev() {
        dn.swap(i, r.below(i + 1));
    }
    let draw = |r: &mut Rng, n: usize| -> Vec<(String, String)> {
        (0..n)
            .map(|i| {
                let k = if distinct_mode { if i < dn.len() { dn[i].clone() } else { format!("{}#{}", dn[i % dn.len()], i / dn.len()) } } else { r.pick(&names).clone() };
                (k, r.pick(&vals).to_string())
            })
            .collect()
    };
    let base: Content = (knames[0].to_string(), draw(r, n));
    // a permutation
    let mut perm = base.clone();
    match r.below(if distinct_mode { 4 } else { 7 }) {
        4 | 5 | 6 => {
            // a permutation that keeps labels of the same name in their relative order (so the keys stay equal
            // even with repeated names): stable sort by a random rank per name
            let mut uniq: Vec<String> = perm.1.iter().map(|(k, _)| k.clone()).collect();
            uniq.sort();
            uniq.dedup();
            let ranks: Vec<(String, usize)> = uniq.into_iter().map(|k| (k, r.below(1000))).collect();
            perm.1.sort_by_key(|(k, _)| ranks.iter().find(|(n, _)| n == k).map(|x| x.1).unwrap_or(0));
            out.count("perm: order-preserving among equal names");
        }
        0 => perm.1.reverse(),
        1 if n > 0 => perm.1.rotate_left(1),
        _ => {
            for i in (1..n).rev() {
                perm.1.swap(i, r.below(i + 1));
            }
        }
    }
    // a small mutation of the base (same length): swap the values of two labels / replace one / duplicate one
    let mut mutn = base.clone();
    if n > 0 {
        let (i, j) = (r.below(n), r.below(n));
        match r.below(4) {
            0 => {
                let t = mutn.1[i].1.clone();
                mutn.1[i].1 = mutn.1[j].1.clone();
                mutn.1[j].1 = t;
            }
            1 => mutn.1[i] = (r.pick(&names).to_string(), r.pick(&vals).to_string()),
            2 => mutn.1[i] = mutn.1[j].clone(),
            _ => mutn.1.swap(i, j),
        }
    } else {
        mutn.0 = knames[1].to_string();
    }
    // an independent draw, mostly the same name and length
    let n2 = if r.chance(2, 3) { n } else if n > 0 && r.chance(1, 2) { n - 1 } else { n + 1 };
    // with stretched strings the two key names differ only after a long common prefix: use the second one more often
    let indep: Content = (if r.chance(if stretch.is_some() { 2 } else { 3 }, 4) { &knames[0] } else { &knames[1] }.to_string(), draw(r, n2));
    // the base with ONE string replaced by a proper prefix / an extension of itself (so that, built from one
    // static buffer, the two strings start at the same address and differ only in length)
    let mut pfx = base.clone();
    {
        let slot = r.below(1 + 2 * n);
        let target: &mut String = if slot == 0 { &mut pfx.0 } else if slot % 2 == 1 { &mut pfx.1[(slot - 1) / 2].0 } else { &mut pfx.1[(slot - 1) / 2].1 };
        if !target.is_empty() && r.chance(1, 2) {
            let cut = if r.chance(1, 3) { 0 } else { target.char_indices().map(|(i, _)| i).last().unwrap_or(0) };
            target.truncate(cut);
        } else {
            target.push_str(*r.pick(&["x", "0", "é"][..]));
        }
        out.count("content: one string replaced by a prefix/extension");
    }
    vec![base, perm, mutn, indep, pfx]
}

fn c(name: &str, ls: &[(&str, &str)]) -> Content {
    (name.to_string(), ls.iter().map(|(k, v)| (k.to_string(), v.to_string())).collect())
}

fn corpus() -> Vec<Vec<Content>> {
    let big1: Vec<(&str, &str)> = vec![("a", "1"), ("a", "2"), ("b", "1"), ("a", "3"), ("c", "1"), ("b", "2"), ("a", "4"), ("d", "1"), ("a", "5")];
    let mut big2 = big1.clone();
    big2.swap(0, 1);
    let mut big3 = big1.clone();
    big3.swap(2, 5);
    // far more labels than any inline map holds: 257 with pairwise distinct names (reversed / rotated: equal keys), and
    // 130 over three names (a name-order-preserving shuffle: equal; two same-named labels swapped: different)
    let d257: Vec<(String, String)> = (0..257).map(|i| (format!("k{:03}", (i * 101) % 257), format!("v{}", i % 5))).collect();
    let mut d257r = d257.clone();
    d257r.reverse();
    let mut d257o = d257.clone();
    d257o.rotate_left(129);
    let mut d257m = d257.clone();
    d257m[200].1 = "other".to_string();
    let r130: Vec<(String, String)> = (0..130).map(|i| (["a", "b", ""][(i * 7 + i / 3) % 3].to_string(), format!("{}", i % 11))).collect();
    let mut r130s = r130.clone();
    r130s.sort_by_key(|(k, _)| match k.as_str() { "b" => 0, "" => 1, _ => 2 });
    let mut r130x = r130.clone();
    {
        let a: Vec<usize> = (0..130).filter(|&i| r130[i].0 == "a").collect();
        let (x, y) = (a[a.len() - 1], *a.iter().rev().find(|&&i| r130[i].1 != r130[a[a.len() - 1]].1).unwrap());
        r130x.swap(x, y);
    }
    let big = |n: &str, v: &Vec<(String, String)>| -> Content { (n.to_string(), v.clone()) };
    let long_a = format!("{}a", "p".repeat(300));
    let long_b = format!("{}b", "p".repeat(300));
    vec![
        vec![big("n", &d257), big("n", &d257r), big("n", &d257o), big("n", &d257m), big("n", &d257[..256].to_vec())],
        vec![big("n", &r130), big("n", &r130s), big("n", &r130x), big("n", &r130[..129].to_vec())],
        // 301-byte strings that differ in the last byte only
        vec![c(&long_a, &[(&long_a, &long_b), (&long_b, &long_a)]), c(&long_a, &[(&long_b, &long_a), (&long_a, &long_b)]), c(&long_b, &[(&long_a, &long_b), (&long_b, &long_a)]),
             c(&long_a, &[(&long_a, &long_a), (&long_b, &long_a)]), c(&long_a, &[(&long_a, &long_b), (&long_a, &long_a), (&long_b, &long_a)])],
        // the design-round witness: two labels with the same name, values swapped
        vec![c("n", &[("a", "1"), ("a", "2")]), c("n", &[("a", "2"), ("a", "1")]), c("n", &[("a", "1"), ("a", "1")]), c("n", &[("a", "2"), ("a", "2")])],
        vec![c("n", &[("a", "1"), ("b", "2")]), c("n", &[("b", "2"), ("a", "1")]), c("n", &[("a", "2"), ("b", "1")]), c("n", &[("b", "1"), ("a", "2")])],
        // three labels, repeated name, values swapped (stable sort by name keeps the given order)
        vec![c("n", &[("a", "1"), ("a", "2"), ("b", "3")]), c("n", &[("a", "2"), ("a", "1"), ("b", "3")]), c("n", &[("b", "3"), ("a", "1"), ("a", "2")]), c("n", &[("a", "1"), ("b", "3"), ("a", "2")])],
        vec![c("n", &[("a", "1"), ("a", "1"), ("a", "1")]), c("n", &[("a", "1"), ("a", "1")]), c("n", &[("a", "1")]), c("n", &[])],
        vec![c("n", &big1), c("n", &big2), c("n", &big3), c("n", &big1[..8])],
        // empty strings, prefixes, bytes above ASCII
        vec![c("", &[]), c("", &[("", "")]), c("", &[("", ""), ("", "")]), c("\u{0}", &[])],
        vec![c("n", &[("a", "b1")]), c("n", &[("ab", "1")]), c("na", &[("", "b1")]), c("n", &[("a", "b"), ("", "1")])],
        vec![c("n", &[("z", "1"), ("é", "1")]), c("n", &[("é", "1"), ("z", "1")]), c("n", &[("日本", "1"), ("é", "1"), ("z", "")]), c("n", &[("z", ""), ("é", "1"), ("日本", "1")])],
        vec![c("n", &[("a", "1"), ("ab", "1")]), c("n", &[("ab", "1"), ("a", "1")]), c("n", &[("a", "1"), ("a\u{0}", "1")]), c("n", &[("a\u{0}", "1"), ("a", "1")])],
        // seven / eight labels: the `n < 8` / `n` boundary
        vec![
            c("n", &[("g", "1"), ("f", "1"), ("e", "1"), ("d", "1"), ("c", "1"), ("b", "1"), ("a", "1")]),
            c("n", &[("a", "1"), ("b", "1"), ("c", "1"), ("d", "1"), ("e", "1"), ("f", "1"), ("g", "1")]),
            c("n", &[("h", "1"), ("g", "1"), ("f", "1"), ("e", "1"), ("d", "1"), ("c", "1"), ("b", "1"), ("a", "1")]),
            c("n", &[("a", "1"), ("b", "1"), ("c", "1"), ("d", "1"), ("e", "1"), ("f", "1"), ("g", "1"), ("h", "1")]),
        ],
    ]
}

/// keys made by the macros from literals (`key_var!` statics, the path `counter!("x", "k" => "v")` takes)
fn macro_literal_case(r: &mut Rng, out: &mut Out) {
    let contents = vec![
        c("lit", &[("a", "1"), ("a", "2")]),
        c("lit", &[("a", "2"), ("a", "1")]),
        c("lit", &[("b", "x"), ("a", "é"), ("c", "")]),
        c("lit", &[]),
    ];
    let k0: &'static Key = metrics::key_var!("lit", "a" => "1", "a" => "2");
    let k1: &'static Key = metrics::key_var!("lit", "a" => "2", "a" => "1");
    let k2: &'static Key = metrics::key_var!("lit", "b" => "x", "a" => "é", "c" => "");
    let k3: &'static Key = metrics::key_var!("lit");
    let dynamic_name = String::from("lit");
    let k2b: Key = metrics::key_var!(dynamic_name.clone(), "b" => "x", "a" => "é", "c" => "");
    let cap = Capture::default();
    metrics::with_local_recorder(&cap, || {
        let _ = metrics::counter!("lit", "a" => "1", "a" => "2");
    });
    let captured = cap.0.into_inner().pop().unwrap();
    // racing first use of a real macro static (never hashed so far), before anything else touches it
    race(&contents[2], 4, 1, r, out, Some(k2));
    let extra = vec![
        (0, "macro literal (static)", k0.clone()),
        (0, "counter!(literals) via recorder", captured),
        (1, "macro literal (static)", k1.clone()),
        (2, "macro literal (static)", k2.clone()),
        (2, "macro expr name + literal labels", k2b),
        (3, "macro literal name", k3.clone()),
    ];
    examine(&contents, extra, r, out);
}

pub fn run(cfg: &Cfg, out: &mut Out) {
    let root = Rng::new(cfg.seed);
    let mut idx = 0u64;
    // the deterministic schedules come first, so that a replay file starts with a witness that replays exactly
    {
        // small scope, exhaustively: every interleaving of 2 (thorough: and 3) first calls
        out.case("corpus all-schedules");
        out.count("corpus cases");
        out.nontrivial();
        let k = c("n", &[("b", "2"), ("a", "1"), ("c", "3")]);
        for n in 2..=(if cfg.thorough { 3 } else { 2 }) {
            for s in all_schedules(n) {
                scheduled(&k, "static", n, &s, out);
            }
        }
        scheduled(&k, "built", 2, &[0, 1, 0, 1], out);
    }
    {
        // small scope, exhaustively: one clone() against one first get_hash(), every interleaving (35), for each of
        // the three lazily hashed construction paths; thorough: also two hashers / two cloners (11550 + 4200)
        out.case("corpus all-schedules clone-vs-get_hash");
        out.count("corpus cases");
        out.nontrivial();
        let k = c("request_duration_seconds", &[("b", "2"), ("a", "1"), ("c", "3")]);
        for build in 0..3 {
            for s in all_interleavings(&grants_of(b"ch")) {
                mixed(&k, "static", build, b"ch", &s, out);
            }
        }
        mixed(&k, "prehashed", 1, b"chc", &[0, 1, 2, 2, 1, 0, 0, 1, 2], out);
        // the interleaving in which a clone that loads `hash` before `hashed` would copy (true, 0)
        mixed(&k, "static", 1, b"ch", &[0, 1, 1, 1, 1, 0, 0], out);
        mixed(&k, "static", 1, b"hcc", &[1, 2, 1, 0, 0, 0, 0, 1, 2, 2], out);
        if cfg.thorough {
            for s in all_interleavings(&grants_of(b"chh")) {
                mixed(&k, "static", 1, b"chh", &s, out);
            }
            for s in all_interleavings(&grants_of(b"cch")) {
                mixed(&k, "static", 0, b"cch", &s, out);
            }
        }
    }
    for contents in corpus() {
        let mut r = root.fork(1_000_000 + idx);
        out.case(&format!("corpus {}", idx));
        out.count("corpus cases");
        examine(&contents, vec![], &mut r, out);
        race(&contents[0], 4, 2, &mut r, out, None);
        idx += 1;
    }
    {
        let mut r = root.fork(1_000_000 + idx);
        out.case("corpus macro-literals");
        out.count("corpus cases");
        macro_literal_case(&mut r, out);
    }
    for i in 0..cfg.cases {
        let mut r = root.fork(i as u64);
        out.case(&format!("seed={} i={}", cfg.seed, i));
        let contents = gen_contents(&mut r, out);
        examine(&contents, vec![], &mut r, out);
        {
            let n = r.range(2, 5);
            let s = random_schedule(&mut r, n);
            let which = r.below(contents.len());
            scheduled(&contents[which], if r.chance(1, 6) { "built" } else { "static" }, n, &s, out);
        }
        {
            // clone() and first get_hash() callers mixed, random roles and schedule
            let n = r.range(2, 5);
            let mut roles: Vec<u8> = (0..n).map(|_| if r.chance(1, 2) { b'h' } else { b'c' }).collect();
            roles[0] = b'c';
            roles[1] = b'h';
            let s: Vec<usize> = match r.below(3) {
                0 => (0..4 * n).map(|i| i % n).collect(),
                1 => {
                    // the cloner takes its first step(s), then somebody hashes completely, then the rest
                    let mut s = vec![0; r.range(1, 2)];
                    s.extend(vec![1; 4]);
                    s.extend((0..r.range(0, 3 * n)).map(|_| r.below(n)));
                    s
                }
                _ => (0..r.range(0, 5 * n)).map(|_| r.below(n)).collect(),
            };
            let which = r.below(contents.len());
            mixed(&contents[which], if r.chance(1, 8) { "prehashed" } else { "static" }, r.below(3), &roles, &s, out);
        }
        let nthreads = r.range(2, if cfg.thorough { 8 } else { 6 });
        let which = r.below(contents.len());
        race(&contents[which], nthreads, if cfg.thorough { 3 } else { 2 }, &mut r, out, None);
    }
}
