//! C03 — Key equality / ordering / hashing agree and ignore how a key was built.
//!
//! Per case: 4 key *contents* (name + label list) that are close to each other (a base, a permutation of it,
//! a small mutation, an independent draw over the same pool).  Every content is built through every public
//! construction path; all pairs and all triples of contents are examined.
//!
//! Model ops (component `key`, see lean/MetricsVerif/Driver/Key.lean): `hash`, `raw` per content, `eq`, `cmp`,
//! `gh` per ordered pair, `race` per case.  Oracles (implementation only): eq ⇔ cmp == Equal, symmetry,
//! antisymmetry of cmp, transitivity of both on triples, equal keys hash alike (std `Hash` call sequence and
//! `get_hash()`), construction-path independence, permutation independence when label names are distinct,
//! racing first `get_hash()` calls.
use crate::util::*;
use metrics::{Counter, Gauge, Histogram, Key, KeyHasher, KeyName, Label, Metadata, Recorder, SharedString, Unit};
use metrics_util::{CompositeKey, DefaultHashable, Hashable, MetricKind};
use std::cell::RefCell;
use std::cmp::Ordering;
use std::hash::{Hash, Hasher};
use std::sync::atomic::{AtomicUsize, Ordering as AO};
use std::sync::Arc;

type Content = (String, Vec<(String, String)>);

// ---------------------------------------------------------------------------------------------
// recording hashers

/// records every `Hasher` method call (`write`, `write_u8`, `write_usize`; anything else is flagged)
#[derive(Default)]
struct RecHasher {
    calls: Vec<String>,
}
impl Hasher for RecHasher {
    fn finish(&self) -> u64 {
        0
    }
    fn write(&mut self, b: &[u8]) {
        self.calls.push(format!("B{}", hex(b)));
    }
    fn write_u8(&mut self, i: u8) {
        self.calls.push(format!("U{:02x}", i));
    }
    fn write_usize(&mut self, i: usize) {
        self.calls.push(format!("Z{}", i));
    }
    fn write_u16(&mut self, i: u16) {
        self.calls.push(format!("unexpected-u16:{}", i));
    }
    fn write_u32(&mut self, i: u32) {
        self.calls.push(format!("unexpected-u32:{}", i));
    }
    fn write_u64(&mut self, i: u64) {
        self.calls.push(format!("unexpected-u64:{}", i));
    }
    fn write_u128(&mut self, i: u128) {
        self.calls.push(format!("unexpected-u128:{}", i));
    }
    fn write_isize(&mut self, i: isize) {
        self.calls.push(format!("unexpected-isize:{}", i));
    }
}

/// overrides `write` only, exactly like `metrics::KeyHasher`: sees what reaches aHash
#[derive(Default)]
struct RawHasher {
    chunks: Vec<String>,
}
impl Hasher for RawHasher {
    fn finish(&self) -> u64 {
        0
    }
    fn write(&mut self, b: &[u8]) {
        self.chunks.push(hex(b));
    }
}

fn std_stream(k: &Key) -> String {
    let mut h = RecHasher::default();
    k.hash(&mut h);
    list(h.calls)
}
fn raw_stream(k: &Key) -> String {
    let mut h = RawHasher::default();
    k.hash(&mut h);
    list(h.chunks)
}
fn ord_str(o: Ordering) -> &'static str {
    match o {
        Ordering::Less => "lt",
        Ordering::Equal => "eq",
        Ordering::Greater => "gt",
    }
}

// ---------------------------------------------------------------------------------------------
// construction paths

fn leak_str(s: &str) -> &'static str {
    Box::leak(s.to_string().into_boxed_str())
}
/// Per-case arena of leaked strings in which a string that is a proper prefix of another string of the case is a
/// SUB-SLICE of that string's buffer (same start address, shorter length), and equal strings share one buffer.
/// Static keys built from such slices alias each other the way `&FULL[..n]` and `FULL` do.
struct Arena(Vec<&'static str>);
impl Arena {
    fn new(contents: &[Content]) -> Arena {
        let mut all: Vec<String> = Vec::new();
        for (n, ls) in contents {
            all.push(n.clone());
            for (k, v) in ls {
                all.push(k.clone());
                all.push(v.clone());
            }
        }
        all.sort_by(|a, b| b.len().cmp(&a.len()).then(a.cmp(b)));
        all.dedup();
        let mut bufs: Vec<&'static str> = Vec::new();
        for s in all {
            if !bufs.iter().any(|b| b.starts_with(s.as_str())) {
                bufs.push(leak_str(&s));
            }
        }
        Arena(bufs)
    }
    fn get(&self, s: &str) -> &'static str {
        match self.0.iter().find(|b| b.starts_with(s)) {
            Some(b) => &b[..s.len()],
            None => leak_str(s),
        }
    }
    fn labels(&self, ls: &[(String, String)]) -> Vec<Label> {
        ls.iter().map(|(k, v)| Label::from_static_parts(self.get(k), self.get(v))).collect()
    }
}
fn static_labels(ls: &[(String, String)]) -> &'static [Label] {
    let v: Vec<Label> = ls.iter().map(|(k, v)| Label::from_static_parts(leak_str(k), leak_str(v))).collect();
    Box::leak(v.into_boxed_slice())
}
fn owned_labels(ls: &[(String, String)]) -> Vec<Label> {
    ls.iter().map(|(k, v)| Label::new(k.clone(), v.clone())).collect()
}
fn arc_labels(ls: &[(String, String)]) -> Vec<Label> {
    ls.iter().map(|(k, v)| Label::new(Arc::<str>::from(k.as_str()), Arc::<str>::from(v.as_str()))).collect()
}
/// each string static, owned or Arc-shared by position
fn mixed_labels(ls: &[(String, String)], salt: usize) -> Vec<Label> {
    let mk = |s: &str, i: usize| -> SharedString {
        match i % 4 {
            0 => SharedString::from_owned(s.to_string()),
            1 => SharedString::const_str(leak_str(s)),
            2 => SharedString::from_shared(Arc::<str>::from(s)),
            _ => SharedString::from(std::borrow::Cow::Owned::<'static, str>(s.to_string())),
        }
    };
    ls.iter().enumerate().map(|(i, (k, v))| Label::new(mk(k, i + salt), mk(v, i + salt + 1))).collect()
}

/// recorder that keeps every key the macros hand to it
#[derive(Default)]
struct Capture(RefCell<Vec<Key>>);
impl Recorder for Capture {
    fn describe_counter(&self, _: KeyName, _: Option<Unit>, _: SharedString) {}
    fn describe_gauge(&self, _: KeyName, _: Option<Unit>, _: SharedString) {}
    fn describe_histogram(&self, _: KeyName, _: Option<Unit>, _: SharedString) {}
    fn register_counter(&self, key: &Key, _: &Metadata<'_>) -> Counter {
        self.0.borrow_mut().push(key.clone());
        Counter::noop()
    }
    fn register_gauge(&self, key: &Key, _: &Metadata<'_>) -> Gauge {
        self.0.borrow_mut().push(key.clone());
        Gauge::noop()
    }
    fn register_histogram(&self, key: &Key, _: &Metadata<'_>) -> Histogram {
        self.0.borrow_mut().push(key.clone());
        Histogram::noop()
    }
}

/// every public way to obtain a key with this content; `(path name, key)`
fn variants(c: &Content, r: &mut Rng, arena: &Arena) -> Vec<(&'static str, Key)> {
    let (name, ls) = c;
    let n = ls.len();
    let mut v: Vec<(&'static str, Key)> = Vec::new();
    v.push(("from_parts(String,owned)", Key::from_parts(name.clone(), owned_labels(ls))));
    v.push(("from_parts(&'static,static-labels-vec)", Key::from_parts(leak_str(name), static_labels(ls).to_vec())));
    v.push(("from_parts(Arc,arc)", Key::from_parts(Arc::<str>::from(name.as_str()), arc_labels(ls))));
    v.push(("from_parts(KeyName,mixed)", Key::from_parts(KeyName::from(name.clone()), mixed_labels(ls, r.below(4)))));
    v.push(("from_static_parts", Key::from_static_parts(leak_str(name), static_labels(ls))));
    v.push(("from_static_labels(String)", Key::from_static_labels(name.clone(), static_labels(ls))));
    v.push(("from_static_labels(Arc)", Key::from_static_labels(Arc::<str>::from(name.as_str()), static_labels(ls))));
    v.push(("From<(N,L)>", Key::from((name.clone(), owned_labels(ls)))));
    v.push(("from_parts(&[(String,String)])", Key::from_parts(name.clone(), ls)));
    {
        let other = Key::from_static_parts("other", static_labels(ls));
        v.push(("from_parts(labels() iter)", Key::from_parts(name.clone(), other.labels())));
    }
    // with_extra_labels at a few split points (n = all labels extra … 0 = none extra → the clone branch)
    let mut splits = vec![0, n, n / 2, r.below(n + 1)];
    splits.sort();
    splits.dedup();
    for i in splits {
        let base = if r.chance(1, 2) {
            Key::from_parts(name.clone(), owned_labels(&ls[..i]))
        } else {
            Key::from_static_parts(leak_str(name), static_labels(&ls[..i]))
        };
        v.push(("with_extra_labels", base.with_extra_labels(mixed_labels(&ls[i..], i))));
    }
    // static strings that ALIAS other strings of the case (sub-slices of one buffer: same address, other length)
    {
        let al: &'static [Label] = Box::leak(arena.labels(ls).into_boxed_slice());
        v.push(("from_static_parts(aliased strs)", Key::from_static_parts(arena.get(name), al)));
        v.push(("from_parts(aliased &'static)", Key::from_parts(arena.get(name), arena.labels(ls))));
        // the label slice itself as a prefix of a longer static slice (same address, shorter length)
        let mut longer = arena.labels(ls);
        longer.push(Label::from_static_parts("zz-extra", "1"));
        let longer: &'static [Label] = Box::leak(longer.into_boxed_slice());
        v.push(("from_static_parts(prefix of longer slice)", Key::from_static_parts(arena.get(name), &longer[..n])));
        if n > 0 {
            v.push(("from_static_labels(sub-slice + extra)", Key::from_static_labels(arena.get(name), &longer[..n - 1]).with_extra_labels(vec![Label::new(arena.get(&ls[n - 1].0), arena.get(&ls[n - 1].1))])));
        }
    }
    // clones: of an eagerly hashed key, of a lazily hashed key before and after its first get_hash()
    v.push(("clone(built)", v[0].1.clone()));
    {
        let k = Key::from_static_parts(leak_str(name), static_labels(ls));
        v.push(("clone(static,unhashed)", k.clone()));
        let _ = k.get_hash();
        v.push(("clone(static,hashed)", k.clone()));
        v.push(("static after get_hash", k));
    }
    {
        let (kn, lv) = v[2].1.clone().into_parts();
        v.push(("from_parts(into_parts())", Key::from_parts(kn, lv)));
    }
    if n == 0 {
        v.push(("from_name(String)", Key::from_name(name.clone())));
        v.push(("from_name(&'static)", Key::from_name(leak_str(name))));
        v.push(("from_static_name", Key::from_static_name(leak_str(name))));
        v.push(("From<N>", Key::from(name.clone())));
    }
    // the macros (non-literal forms): name expression + label collection, name + `k => v` expressions
    let cap = Capture::default();
    metrics::with_local_recorder(&cap, || {
        let _ = metrics::counter!(name.clone(), ls);
        let _ = metrics::gauge!(Arc::<str>::from(name.as_str()), owned_labels(ls));
        match n {
            0 => {
                let _ = metrics::histogram!(name.clone());
            }
            1 => {
                let _ = metrics::histogram!(name.clone(), ls[0].0.clone() => ls[0].1.clone());
            }
            2 => {
                let _ = metrics::histogram!(name.clone(), ls[0].0.clone() => ls[0].1.clone(), ls[1].0.clone() => ls[1].1.clone());
            }
            3 => {
                let _ = metrics::histogram!(name.clone(), ls[0].0.clone() => ls[0].1.clone(), ls[1].0.clone() => ls[1].1.clone(),
                    ls[2].0.clone() => ls[2].1.clone());
            }
            _ => {}
        }
    });
    for k in cap.0.into_inner() {
        v.push(("macro", k));
    }
    v
}

// ---------------------------------------------------------------------------------------------
// one case

fn show(c: &Content) -> String {
    format!("{:?}{:?}", c.0, c.1)
}
fn key_tok(c: &Content) -> String {
    format!("{} {}", hexs(&c.0), pairs(&c.1))
}
fn names_distinct(c: &Content) -> bool {
    let mut ks: Vec<&String> = c.1.iter().map(|(k, _)| k).collect();
    ks.sort();
    ks.windows(2).all(|w| w[0] != w[1])
}
fn is_perm(a: &Content, b: &Content) -> bool {
    let (mut x, mut y) = (a.1.clone(), b.1.clone());
    x.sort();
    y.sort();
    a.0 == b.0 && x == y
}

/// `extra`: further keys (from literal macros) to be treated as variants of content `extra.0`
fn examine(contents: &[Content], extra: Vec<(usize, &'static str, Key)>, r: &mut Rng, out: &mut Out) {
    let m = contents.len();
    let arena = Arena::new(contents);
    let mut vars: Vec<Vec<(&'static str, Key)>> = contents.iter().map(|c| variants(c, r, &arena)).collect();
    for (i, p, k) in extra {
        vars[i].push((p, k));
    }
    // ---- per content: call sequences, construction-path independence, get_hash vs Hash
    let mut streams = Vec::new();
    for (ci, c) in contents.iter().enumerate() {
        let vs = &vars[ci];
        let s0 = std_stream(&vs[0].1);
        let r0 = raw_stream(&vs[0].1);
        let g0 = vs[0].1.get_hash();
        out.op(&format!("key hash {}", key_tok(c)), &s0);
        out.op(&format!("key raw {}", key_tok(c)), &r0);
        out.count(&format!("labels={}", if c.1.len() >= 8 { "8+".to_string() } else { c.1.len().to_string() }));
        if !names_distinct(c) {
            out.count("content with repeated label name");
        }
        for (p, k) in vs.iter() {
            out.count_n("variants built", 1);
            let what = format!("construction path `{}` differs from `{}` for {}", p, vs[0].0, show(c));
            if std_stream(k) != s0 {
                out.oracle_fail("construction-path: std Hash call sequence", &format!("{}: {} vs {}", what, std_stream(k), s0));
            }
            let g = k.get_hash();
            if g != g0 || k.get_hash() != g {
                out.oracle_fail("construction-path: get_hash", &format!("{}: {:#x} vs {:#x}", what, g, g0));
            }
            if !(k == &vs[0].1) || !(&vs[0].1 == k) || k != k {
                out.oracle_fail("construction-path: ==", &what);
            }
            if k.cmp(&vs[0].1) != Ordering::Equal || vs[0].1.cmp(k) != Ordering::Equal {
                out.oracle_fail("construction-path: cmp", &format!("{}: {:?}", what, k.cmp(&vs[0].1)));
            }
            if k.name() != c.0 || k.labels().map(|l| (l.key().to_string(), l.value().to_string())).collect::<Vec<_>>() != c.1 {
                out.oracle_fail("construction-path: content", &what);
            }
            // get_hash is KeyHasher over the Hash impl; Hashable (metrics-util) agrees
            let mut kh = KeyHasher::default();
            k.hash(&mut kh);
            if kh.finish() != g || Hashable::hashable(k) != g || DefaultHashable(k.clone()).hashable() != g {
                out.oracle_fail("get_hash != KeyHasher(Hash)", &what);
            }
        }
        streams.push(s0);
    }
    // ---- all ordered pairs (a random construction path on each side)
    let mut eqm = vec![vec![false; m]; m];
    let mut cmpm = vec![vec![Ordering::Equal; m]; m];
    for i in 0..m {
        for j in 0..m {
            let a = &vars[i][r.below(vars[i].len())];
            let b = &vars[j][r.below(vars[j].len())];
            let (ka, kb) = (&a.1, &b.1);
            let e = ka == kb;
            let c = ka.cmp(kb);
            let gh = ka.get_hash() == kb.get_hash();
            eqm[i][j] = e;
            cmpm[i][j] = c;
            let toks = format!("{} {}", key_tok(&contents[i]), key_tok(&contents[j]));
            out.op(&format!("key eq {}", toks), if e { "1" } else { "0" });
            out.op(&format!("key cmp {}", toks), ord_str(c));
            out.op(&format!("key gh {}", toks), if gh { "1" } else { "0" });
            let pair = format!("a={} [{}]  b={} [{}]", show(&contents[i]), a.0, show(&contents[j]), b.0);
            if e != (c == Ordering::Equal) {
                out.oracle_fail("eq-cmp incoherent: (a == b) != (a.cmp(b) == Equal)", &format!("{} : a==b is {}, a.cmp(b) is {:?}", pair, e, c));
            }
            if ka.partial_cmp(kb) != Some(c) || (ka < kb) != (c == Ordering::Less) {
                out.oracle_fail("partial_cmp differs from cmp", &pair);
            }
            if e {
                if std_stream(ka) != std_stream(kb) {
                    out.oracle_fail("equal keys, different std Hash call sequence", &format!("{} : {} vs {}", pair, std_stream(ka), std_stream(kb)));
                }
                if !gh {
                    out.oracle_fail("equal keys, different get_hash()", &pair);
                }
                if i != j {
                    out.count("pair: equal, different content");
                }
            }
            // the derived impls of metrics-util's CompositeKey inherit the same laws
            let (ca, cb) = (CompositeKey::new(MetricKind::Counter, ka.clone()), CompositeKey::new(MetricKind::Counter, kb.clone()));
            if (ca == cb) != (ca.cmp(&cb) == Ordering::Equal) {
                out.oracle_fail("CompositeKey eq-cmp incoherent", &pair);
            }
            if i != j && is_perm(&contents[i], &contents[j]) {
                if names_distinct(&contents[i]) {
                    out.count("pair: permutation, distinct names");
                    if !e || c != Ordering::Equal || streams[i] != streams[j] || !gh {
                        out.oracle_fail("label order matters although label names are distinct",
                            &format!("{} : == {}, cmp {:?}, same stream {}, same get_hash {}", pair, e, c, streams[i] == streams[j], gh));
                    }
                } else {
                    out.count("pair: permutation, repeated names");
                }
            }
        }
    }
    for i in 0..m {
        if !eqm[i][i] {
            out.oracle_fail("== not reflexive", &show(&contents[i]));
        }
        for j in 0..m {
            if eqm[i][j] != eqm[j][i] {
                out.oracle_fail("== not symmetric", &format!("{} / {}", show(&contents[i]), show(&contents[j])));
            }
            if cmpm[i][j] != cmpm[j][i].reverse() {
                out.oracle_fail("cmp not antisymmetric: a.cmp(b) != b.cmp(a).reverse()",
                    &format!("{} / {} : {:?} {:?}", show(&contents[i]), show(&contents[j]), cmpm[i][j], cmpm[j][i]));
            }
            for k in 0..m {
                if eqm[i][j] && eqm[j][k] && !eqm[i][k] {
                    out.oracle_fail("== not transitive", &format!("{} / {} / {}", show(&contents[i]), show(&contents[j]), show(&contents[k])));
                }
                let le = |o: Ordering| o != Ordering::Greater;
                if le(cmpm[i][j]) && le(cmpm[j][k]) && !le(cmpm[i][k]) {
                    out.oracle_fail("cmp not transitive", &format!("{} <= {} <= {} but first > third", show(&contents[i]), show(&contents[j]), show(&contents[k])));
                }
                out.count_n("triples checked", 1);
            }
        }
    }
    // a sort by the real Ord must put equal keys next to each other (what BTreeMap / sort+dedup rely on)
    {
        let mut idx: Vec<usize> = (0..m).collect();
        idx.sort_by(|&a, &b| vars[a][0].1.cmp(&vars[b][0].1));
        for w in 0..m {
            for x in w + 1..m {
                if eqm[idx[w]][idx[x]] && (w + 1..x).any(|y| !eqm[idx[w]][idx[y]]) {
                    out.oracle_fail("sorting by Ord separates equal keys", &format!("{} … {}", show(&contents[idx[w]]), show(&contents[idx[x]])));
                }
            }
        }
    }
    if contents.iter().any(|c| c.1.len() >= 2) {
        out.nontrivial();
    }
}

/// N threads race on the first `get_hash()` of one shared, never-hashed static key
fn race(c: &Content, nthreads: usize, rounds: usize, r: &mut Rng, out: &mut Out, shared: Option<&'static Key>) {
    let reference = Key::from_parts(c.0.clone(), owned_labels(&c.1)).get_hash();
    for round in 0..rounds {
        let key: &'static Key = match (shared, round) {
            (Some(k), 0) => k,
            _ => Box::leak(Box::new(Key::from_static_parts(leak_str(&c.0), static_labels(&c.1)))),
        };
        let ready = Arc::new(AtomicUsize::new(0));
        let handles: Vec<_> = (0..nthreads)
            .map(|_| {
                let ready = ready.clone();
                std::thread::spawn(move || {
                    ready.fetch_add(1, AO::SeqCst);
                    while ready.load(AO::SeqCst) < nthreads {
                        std::hint::spin_loop();
                    }
                    let first = key.get_hash();
                    let again = key.get_hash();
                    let cl = key.clone().get_hash();
                    (first, again, cl)
                })
            })
            .collect();
        let res: Vec<(u64, u64, u64)> = handles.into_iter().map(|h| h.join().unwrap()).collect();
        let sched: Vec<String> = (0..r.below(3 * nthreads + 1)).map(|_| r.below(nthreads).to_string()).collect();
        let ans = list(res.iter().map(|(f, _, _)| if *f == reference { "ok".to_string() } else { format!("bad:{}", f) }));
        out.op(&format!("key race static {} {} {}", key_tok(c), nthreads, list(sched)), &ans);
        out.count_n("racing get_hash calls", nthreads as u64);
        for (t, (f, a, cl)) in res.iter().enumerate() {
            if *f != reference || *a != reference || *cl != reference || key.get_hash() != reference {
                out.oracle_fail("racing get_hash() returned a different value",
                    &format!("{} thread {} of {}: first {:#x}, again {:#x}, clone {:#x}, fresh identical key {:#x}", show(c), t, nthreads, f, a, cl, reference));
            }
        }
    }
    // an eagerly hashed key: no stores at all
    let built: &'static Key = Box::leak(Box::new(Key::from_parts(c.0.clone(), owned_labels(&c.1))));
    let hs: Vec<_> = (0..2).map(|_| std::thread::spawn(move || built.get_hash())).collect();
    let res: Vec<u64> = hs.into_iter().map(|h| h.join().unwrap()).collect();
    out.op(
        &format!("key race built {} 2 .", key_tok(c)),
        &list(res.iter().map(|f| if *f == reference { "ok".to_string() } else { format!("bad:{}", f) })),
    );
}

// ---------------------------------------------------------------------------------------------
// deterministic schedules over the yield points of `Key::get_hash` (needs the `verif_key_hook` hook)

#[cfg(has_key_hook)]
mod sched {
    use std::cell::Cell;
    use std::sync::{Arc, Condvar, Mutex};

    pub struct St {
        parked: Vec<Option<&'static str>>,
        finished: Vec<bool>,
        grant: Option<usize>,
    }
    static ST: Mutex<St> = Mutex::new(St { parked: Vec::new(), finished: Vec::new(), grant: None });
    static CV: Condvar = Condvar::new();
    thread_local! { static TID: Cell<Option<usize>> = Cell::new(None); }

    /// the hook: a managed thread parks here until the controller grants it one step
    pub fn point(id: &'static str) {
        let t = match TID.with(|c| c.get()) {
            Some(t) => t,
            None => return,
        };
        let mut st = ST.lock().unwrap();
        st.parked[t] = Some(id);
        CV.notify_all();
        while st.grant != Some(t) {
            st = CV.wait(st).unwrap();
        }
        st.grant = None;
        st.parked[t] = None;
    }

    /// `n` threads run `f(t)`; exactly one of them moves at a time, from one yield point to its next.
    /// `schedule`: thread ids; an id that is not runnable is skipped, an exhausted schedule falls back to
    /// lowest-id-first.  Returns the grants actually made `(thread, point id)` and the results.
    pub fn run<R: Send + 'static>(
        n: usize,
        schedule: &[usize],
        f: impl Fn(usize) -> R + Send + Sync + 'static,
    ) -> (Vec<(usize, &'static str)>, Vec<R>) {
        {
            let mut st = ST.lock().unwrap();
            st.parked = vec![None; n];
            st.finished = vec![false; n];
            st.grant = None;
        }
        metrics::verif_key_hook::set(Some(point));
        let f = Arc::new(f);
        let handles: Vec<_> = (0..n)
            .map(|t| {
                let f = f.clone();
                std::thread::spawn(move || {
                    TID.with(|c| c.set(Some(t)));
                    let r = f(t);
                    let mut st = ST.lock().unwrap();
                    st.finished[t] = true;
                    CV.notify_all();
                    r
                })
            })
            .collect();
        let mut trace = Vec::new();
        let mut si = 0;
        loop {
            let mut st = ST.lock().unwrap();
            while !(0..n).all(|t| st.parked[t].is_some() || st.finished[t]) {
                st = CV.wait(st).unwrap();
            }
            if (0..n).all(|t| st.finished[t]) {
                break;
            }
            let mut choice = None;
            while si < schedule.len() {
                let t = schedule[si];
                si += 1;
                if t < n && !st.finished[t] {
                    choice = Some(t);
                    break;
                }
            }
            let t = choice.unwrap_or_else(|| (0..n).find(|&t| !st.finished[t]).unwrap());
            trace.push((t, st.parked[t].unwrap()));
            st.grant = Some(t);
            CV.notify_all();
            while !(st.grant.is_none() && (st.parked[t].is_some() || st.finished[t])) {
                st = CV.wait(st).unwrap();
            }
        }
        let res = handles.into_iter().map(|h| h.join().unwrap()).collect();
        metrics::verif_key_hook::set(None);
        (trace, res)
    }
}

/// first `get_hash()` calls of `n` threads on one shared key under a given schedule; the op carries the
/// grants actually made, the answer the yield point each grant started from and every thread's result
#[cfg(has_key_hook)]
fn scheduled(c: &Content, kind: &str, n: usize, schedule: &[usize], out: &mut Out) {
    let reference = Key::from_parts(c.0.clone(), owned_labels(&c.1)).get_hash();
    let key: &'static Key = match kind {
        "static" => Box::leak(Box::new(Key::from_static_parts(leak_str(&c.0), static_labels(&c.1)))),
        _ => Box::leak(Box::new(Key::from_parts(c.0.clone(), owned_labels(&c.1)))),
    };
    let (trace, res) = sched::run(n, schedule, move |_| key.get_hash());
    let show_res = |v: &u64| if *v == reference { "ok".to_string() } else { format!("bad:{}", v) };
    out.op(
        &format!("key sched {} {} {} {}", kind, key_tok(c), n, list(trace.iter().map(|(t, _)| t.to_string()))),
        &format!("{} {}", list(trace.iter().map(|(t, id)| format!("{}:{}", t, id))), list(res.iter().map(show_res))),
    );
    out.count("scheduled get_hash runs");
    let after = key.get_hash();
    let cloned = key.clone().get_hash();
    for (t, v) in res.iter().enumerate() {
        if *v != reference || after != reference || cloned != reference {
            out.oracle_fail(
                "get_hash() returned a different value under a schedule",
                &format!(
                    "{} ({} key), {} threads, grants {:?}: thread {} returned {:#x}, a later call {:#x}, a clone {:#x}; a fresh identical key has {:#x}",
                    show(c), kind, n, trace, t, v, after, cloned, reference
                ),
            );
            break;
        }
    }
}
#[cfg(not(has_key_hook))]
fn scheduled(_: &Content, _: &str, _: usize, _: &[usize], out: &mut Out) {
    out.count("scheduled get_hash runs skipped (hook verif_key_hook absent)");
}

/// all interleavings of `n` first calls (each call is at most 3 steps): every sequence with each id 3 times
fn all_schedules(n: usize) -> Vec<Vec<usize>> {
    fn go(left: &mut Vec<usize>, cur: &mut Vec<usize>, acc: &mut Vec<Vec<usize>>) {
        if left.iter().all(|&x| x == 0) {
            acc.push(cur.clone());
            return;
        }
        for t in 0..left.len() {
            if left[t] > 0 {
                left[t] -= 1;
                cur.push(t);
                go(left, cur, acc);
                cur.pop();
                left[t] += 1;
            }
        }
    }
    let mut acc = Vec::new();
    go(&mut vec![3; n], &mut Vec::new(), &mut acc);
    acc
}

fn random_schedule(r: &mut Rng, n: usize) -> Vec<usize> {
    match r.below(4) {
        0 => (0..3 * n).map(|i| i % n).collect(),                      // round robin
        1 => (0..n).flat_map(|t| vec![t; r.range(1, 3)]).collect(),     // one after the other, some cut short
        _ => (0..r.range(0, 4 * n)).map(|_| r.below(n)).collect(),
    }
}

// ---------------------------------------------------------------------------------------------
// generator

const LNAMES: &[&str] = &["", "a", "ab", "b", "é", "日本", "a\u{0}", "z", "\u{7f}", "🦀", "A", "aa", "host", "le"];
const LVALS: &[&str] = &["", "1", "2", "10", "é", "x y", "a", "ß\"", "\u{0}", "🦀🦀", "01", "v"];
const KNAMES: &[&str] = &["n", "", "m", "名前", "n\u{0}", "nn", "http_requests_total"];
const DISTINCT: &[&str] = &["k0", "k1", "k2", "", "é", "k10", "a", "ab", "b", "日本", "K0", "z"];

fn gen_contents(r: &mut Rng, out: &mut Out) -> Vec<Content> {
    let n = match r.weighted(&[1, 2, 6, 4, 5, 2, 2, 2]) {
        0 => 0,
        1 => 1,
        2 => 2,
        3 => 3,
        4 => r.range(4, 7),
        5 => 8,
        6 => r.range(9, 10),
        // long label lists: library sorts switch algorithms with the length (e.g. at 20 elements)
        _ => r.range(11, 45),
    };
    if n > 10 {
        out.count("labels: more than 10");
    }
    let distinct_mode = r.chance(1, 3);
    out.count(if distinct_mode { "mode: distinct label names" } else { "mode: names from a pool of 3" });
    let pick3 = |r: &mut Rng, src: &[&'static str]| -> Vec<&'static str> { (0..3).map(|_| *r.pick(src)).collect() };
    let names = pick3(r, LNAMES);
    let vals = pick3(r, LVALS);
    let knames = [*r.pick(KNAMES), *r.pick(KNAMES)];
    let mut dn: Vec<&'static str> = DISTINCT.to_vec();
    for i in (1..dn.len()).rev() {
        dn.swap(i, r.below(i + 1));
    }
    let draw = |r: &mut Rng, n: usize| -> Vec<(String, String)> {
        (0..n)
            .map(|i| {
                let k = if distinct_mode { dn[i % dn.len()] } else { *r.pick(&names) };
                (k.to_string(), r.pick(&vals).to_string())
            })
            .collect()
    };
    let base: Content = (knames[0].to_string(), draw(r, n));
    // a permutation
    let mut perm = base.clone();
    match r.below(if distinct_mode { 4 } else { 7 }) {
        4 | 5 | 6 => {
            // a permutation that keeps labels of the same name in their relative order (so the keys stay equal
            // even with repeated names): stable sort by a random rank per name
            let mut uniq: Vec<String> = perm.1.iter().map(|(k, _)| k.clone()).collect();
            uniq.sort();
            uniq.dedup();
            let ranks: Vec<(String, usize)> = uniq.into_iter().map(|k| (k, r.below(1000))).collect();
            perm.1.sort_by_key(|(k, _)| ranks.iter().find(|(n, _)| n == k).map(|x| x.1).unwrap_or(0));
            out.count("perm: order-preserving among equal names");
        }
        0 => perm.1.reverse(),
        1 if n > 0 => perm.1.rotate_left(1),
        _ => {
            for i in (1..n).rev() {
                perm.1.swap(i, r.below(i + 1));
            }
        }
    }
    // a small mutation of the base (same length): swap the values of two labels / replace one / duplicate one
    let mut mutn = base.clone();
    if n > 0 {
        let (i, j) = (r.below(n), r.below(n));
        match r.below(4) {
            0 => {
                let t = mutn.1[i].1.clone();
                mutn.1[i].1 = mutn.1[j].1.clone();
                mutn.1[j].1 = t;
            }
            1 => mutn.1[i] = (r.pick(&names).to_string(), r.pick(&vals).to_string()),
            2 => mutn.1[i] = mutn.1[j].clone(),
            _ => mutn.1.swap(i, j),
        }
    } else {
        mutn.0 = knames[1].to_string();
    }
    // an independent draw, mostly the same name and length
    let n2 = if r.chance(2, 3) { n } else if n > 0 && r.chance(1, 2) { n - 1 } else { n + 1 };
    let indep: Content = (if r.chance(3, 4) { knames[0] } else { knames[1] }.to_string(), draw(r, n2));
    // the base with ONE string replaced by a proper prefix / an extension of itself (so that, built from one
    // static buffer, the two strings start at the same address and differ only in length)
    let mut pfx = base.clone();
    {
        let slot = r.below(1 + 2 * n);
        let target: &mut String = if slot == 0 { &mut pfx.0 } else if slot % 2 == 1 { &mut pfx.1[(slot - 1) / 2].0 } else { &mut pfx.1[(slot - 1) / 2].1 };
        if !target.is_empty() && r.chance(1, 2) {
            let cut = if r.chance(1, 3) { 0 } else { target.char_indices().map(|(i, _)| i).last().unwrap_or(0) };
            target.truncate(cut);
        } else {
            target.push_str(*r.pick(&["x", "0", "é"][..]));
        }
        out.count("content: one string replaced by a prefix/extension");
    }
    vec![base, perm, mutn, indep, pfx]
}

fn c(name: &str, ls: &[(&str, &str)]) -> Content {
    (name.to_string(), ls.iter().map(|(k, v)| (k.to_string(), v.to_string())).collect())
}

fn corpus() -> Vec<Vec<Content>> {
    let big1: Vec<(&str, &str)> = vec![("a", "1"), ("a", "2"), ("b", "1"), ("a", "3"), ("c", "1"), ("b", "2"), ("a", "4"), ("d", "1"), ("a", "5")];
    let mut big2 = big1.clone();
    big2.swap(0, 1);
    let mut big3 = big1.clone();
    big3.swap(2, 5);
    vec![
        // the design-round witness: two labels with the same name, values swapped
        vec![c("n", &[("a", "1"), ("a", "2")]), c("n", &[("a", "2"), ("a", "1")]), c("n", &[("a", "1"), ("a", "1")]), c("n", &[("a", "2"), ("a", "2")])],
        vec![c("n", &[("a", "1"), ("b", "2")]), c("n", &[("b", "2"), ("a", "1")]), c("n", &[("a", "2"), ("b", "1")]), c("n", &[("b", "1"), ("a", "2")])],
        // three labels, repeated name, values swapped (stable sort by name keeps the given order)
        vec![c("n", &[("a", "1"), ("a", "2"), ("b", "3")]), c("n", &[("a", "2"), ("a", "1"), ("b", "3")]), c("n", &[("b", "3"), ("a", "1"), ("a", "2")]), c("n", &[("a", "1"), ("b", "3"), ("a", "2")])],
        vec![c("n", &[("a", "1"), ("a", "1"), ("a", "1")]), c("n", &[("a", "1"), ("a", "1")]), c("n", &[("a", "1")]), c("n", &[])],
        vec![c("n", &big1), c("n", &big2), c("n", &big3), c("n", &big1[..8])],
        // empty strings, prefixes, bytes above ASCII
        vec![c("", &[]), c("", &[("", "")]), c("", &[("", ""), ("", "")]), c("\u{0}", &[])],
        vec![c("n", &[("a", "b1")]), c("n", &[("ab", "1")]), c("na", &[("", "b1")]), c("n", &[("a", "b"), ("", "1")])],
        vec![c("n", &[("z", "1"), ("é", "1")]), c("n", &[("é", "1"), ("z", "1")]), c("n", &[("日本", "1"), ("é", "1"), ("z", "")]), c("n", &[("z", ""), ("é", "1"), ("日本", "1")])],
        vec![c("n", &[("a", "1"), ("ab", "1")]), c("n", &[("ab", "1"), ("a", "1")]), c("n", &[("a", "1"), ("a\u{0}", "1")]), c("n", &[("a\u{0}", "1"), ("a", "1")])],
        // seven / eight labels: the `n < 8` / `n` boundary
        vec![
            c("n", &[("g", "1"), ("f", "1"), ("e", "1"), ("d", "1"), ("c", "1"), ("b", "1"), ("a", "1")]),
            c("n", &[("a", "1"), ("b", "1"), ("c", "1"), ("d", "1"), ("e", "1"), ("f", "1"), ("g", "1")]),
            c("n", &[("h", "1"), ("g", "1"), ("f", "1"), ("e", "1"), ("d", "1"), ("c", "1"), ("b", "1"), ("a", "1")]),
            c("n", &[("a", "1"), ("b", "1"), ("c", "1"), ("d", "1"), ("e", "1"), ("f", "1"), ("g", "1"), ("h", "1")]),
        ],
    ]
}

/// keys made by the macros from literals (`key_var!` statics, the path `counter!("x", "k" => "v")` takes)
fn macro_literal_case(r: &mut Rng, out: &mut Out) {
    let contents = vec![
        c("lit", &[("a", "1"), ("a", "2")]),
        c("lit", &[("a", "2"), ("a", "1")]),
        c("lit", &[("b", "x"), ("a", "é"), ("c", "")]),
        c("lit", &[]),
    ];
    let k0: &'static Key = metrics::key_var!("lit", "a" => "1", "a" => "2");
    let k1: &'static Key = metrics::key_var!("lit", "a" => "2", "a" => "1");
    let k2: &'static Key = metrics::key_var!("lit", "b" => "x", "a" => "é", "c" => "");
    let k3: &'static Key = metrics::key_var!("lit");
    let dynamic_name = String::from("lit");
    let k2b: Key = metrics::key_var!(dynamic_name.clone(), "b" => "x", "a" => "é", "c" => "");
    let cap = Capture::default();
    metrics::with_local_recorder(&cap, || {
        let _ = metrics::counter!("lit", "a" => "1", "a" => "2");
    });
    let captured = cap.0.into_inner().pop().unwrap();
    // racing first use of a real macro static (never hashed so far), before anything else touches it
    race(&contents[2], 4, 1, r, out, Some(k2));
    let extra = vec![
        (0, "macro literal (static)", k0.clone()),
        (0, "counter!(literals) via recorder", captured),
        (1, "macro literal (static)", k1.clone()),
        (2, "macro literal (static)", k2.clone()),
        (2, "macro expr name + literal labels", k2b),
        (3, "macro literal name", k3.clone()),
    ];
    examine(&contents, extra, r, out);
}

pub fn run(cfg: &Cfg, out: &mut Out) {
    let root = Rng::new(cfg.seed);
    let mut idx = 0u64;
    for contents in corpus() {
        let mut r = root.fork(1_000_000 + idx);
        out.case(&format!("corpus {}", idx));
        out.count("corpus cases");
        examine(&contents, vec![], &mut r, out);
        race(&contents[0], 4, 2, &mut r, out, None);
        idx += 1;
    }
    {
        let mut r = root.fork(1_000_000 + idx);
        out.case("corpus macro-literals");
        out.count("corpus cases");
        macro_literal_case(&mut r, out);
    }
    {
        // small scope, exhaustively: every interleaving of 2 (thorough: and 3) first calls
        out.case("corpus all-schedules");
        out.count("corpus cases");
        out.nontrivial();
        let k = c("n", &[("b", "2"), ("a", "1"), ("c", "3")]);
        for n in 2..=(if cfg.thorough { 3 } else { 2 }) {
            for s in all_schedules(n) {
                scheduled(&k, "static", n, &s, out);
            }
        }
        scheduled(&k, "built", 2, &[0, 1, 0, 1], out);
    }
    for i in 0..cfg.cases {
        let mut r = root.fork(i as u64);
        out.case(&format!("seed={} i={}", cfg.seed, i));
        let contents = gen_contents(&mut r, out);
        examine(&contents, vec![], &mut r, out);
        {
            let n = r.range(2, 5);
            let s = random_schedule(&mut r, n);
            let which = r.below(contents.len());
            scheduled(&contents[which], if r.chance(1, 6) { "built" } else { "static" }, n, &s, out);
        }
        let nthreads = r.range(2, if cfg.thorough { 8 } else { 6 });
        let which = r.below(contents.len());
        race(&contents[which], nthreads, if cfg.thorough { 3 } else { 2 }, &mut r, out, None);
    }
}
