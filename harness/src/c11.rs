//! C11 — the TCP exporter streams whole frames to every connected client, whatever others do.
//!
//! Every case starts a REAL exporter (`TcpBuilder::new().listen_address(127.0.0.1:<free port>)
//! .buffer_size(..).build()`, recorder used directly, never the global one) and plays a script of
//! client connects (prompt readers / stallers with a small SO_RCVBUF), closes, resets (SO_LINGER 0),
//! `describe_*` calls, emissions from one or two threads and injected write faults against it.
//!
//! Three independent checks:
//!  * stream oracle: every client's byte stream is cut into varint-delimited frames and decoded with
//!    the protobuf reader below (written from proto/event.proto, shares nothing with prost): whole
//!    frames only, metadata first, every metric intact, once, in emission order, nothing missing for
//!    a client that was accepted, stayed connected and never had a frame discarded;
//!  * gate oracle: `client_count` = accepted − removed and `should_send` = (client_count > 0) at every
//!    snapshot of the transport loop, and never closed while the harness holds an accepted client;
//!  * trace validation: the hook's event trace (with the kernel's real write results) is replayed
//!    through the Lean model (`tcp …` ops): write-attempt lengths, queue lengths, leftover lengths,
//!    drop/enqueue counts, `client_count`/`should_send` after every event and finally the bytes each
//!    socket accepted are compared.
use crate::util::*;
use metrics::{Key, KeyName, Label, Level, Metadata, Recorder, SharedString, Unit};
use metrics_exporter_tcp::verif::{self, Fault, Record, WriteOutcome};
use metrics_exporter_tcp::{TcpBuilder, TcpRecorder};
use std::collections::{BTreeMap, HashMap, HashSet};
use std::io::Read;
use std::net::{SocketAddr, TcpStream};
use std::sync::atomic::{AtomicBool, Ordering};
use std::sync::{Arc, Condvar, Mutex, OnceLock};
use std::time::{Duration, Instant};

const WAIT: Duration = Duration::from_secs(8);

// ---------------------------------------------------------------------------------------------
// trace log (process-wide sink of the hook)

struct Log {
    recs: Mutex<Vec<(u16, Record)>>,
    cv: Condvar,
}

fn log() -> &'static Arc<Log> {
    static LOG: OnceLock<Arc<Log>> = OnceLock::new();
    LOG.get_or_init(|| {
        let l = Arc::new(Log { recs: Mutex::new(Vec::new()), cv: Condvar::new() });
        let l2 = l.clone();
        verif::set_sink(Some(Arc::new(move |port, rec| {
            let kind = hold_kind(&rec);
            l2.recs.lock().unwrap().push((port, rec));
            l2.cv.notify_all();
            // the harness may hold the transport thread at this record (see `TGate`)
            if kind != 0 {
                tgate().on_record(kind);
            }
        })));
        l
    })
}

impl Log {
    fn len(&self) -> usize {
        self.recs.lock().unwrap().len()
    }
    /// waits until `f(records)` returns Some, or the timeout passes
    fn wait<T>(&self, timeout: Duration, mut f: impl FnMut(&[(u16, Record)]) -> Option<T>) -> Option<T> {
        let deadline = Instant::now() + timeout;
        let mut g = self.recs.lock().unwrap();
        loop {
            if let Some(x) = f(&g) {
                return Some(x);
            }
            let now = Instant::now();
            if now >= deadline {
                return None;
            }
            g = self.cv.wait_timeout(g, deadline - now).unwrap().0;
        }
    }
}

// ---------------------------------------------------------------------------------------------
// holding the transport thread at a trace record.  The hook's sink runs ON the transport thread, so a sink
// that blocks parks that thread exactly at the program point of the record: `Idle` = about to poll,
// `Wake` = poll returned for the waker (wake-up consumed) and the read loop has not started,
// `Recv` = one message taken from the channel.  With mask 0 (the default) nothing is ever held.

const HOLD_IDLE: u8 = 1;
const HOLD_WAKE: u8 = 2;
const HOLD_RECV: u8 = 4;

fn hold_kind(r: &Record) -> u8 {
    match r {
        Record::Idle => HOLD_IDLE,
        Record::Wake => HOLD_WAKE,
        Record::Recv => HOLD_RECV,
        _ => 0,
    }
}

struct TG {
    mask: u8,
    parked: Option<u8>,
    epoch: u64,
}

struct TGate {
    st: Mutex<TG>,
    cv: Condvar,
}

fn tgate() -> &'static TGate {
    static G: OnceLock<TGate> = OnceLock::new();
    G.get_or_init(|| TGate { st: Mutex::new(TG { mask: 0, parked: None, epoch: 0 }), cv: Condvar::new() })
}

impl TGate {
    /// called by the sink on the transport thread
    fn on_record(&self, kind: u8) {
        let mut st = self.st.lock().unwrap();
        if st.mask & kind == 0 {
            return;
        }
        st.parked = Some(kind);
        self.cv.notify_all();
        let e = st.epoch;
        while st.epoch == e {
            st = self.cv.wait(st).unwrap();
        }
    }
    fn set_mask(&self, mask: u8) {
        self.st.lock().unwrap().mask = mask;
    }
    /// lets a parked transport thread go on, holding it next at a record of `mask`
    fn release(&self, mask: u8) {
        let mut st = self.st.lock().unwrap();
        st.mask = mask;
        st.parked = None;
        st.epoch += 1;
        self.cv.notify_all();
    }
    fn wait_parked(&self, timeout: Duration) -> Option<u8> {
        let deadline = Instant::now() + timeout;
        let mut st = self.st.lock().unwrap();
        loop {
            if let Some(k) = st.parked {
                return Some(k);
            }
            let now = Instant::now();
            if now >= deadline {
                return None;
            }
            st = self.cv.wait_timeout(st, deadline - now).unwrap().0;
        }
    }
}

// ---------------------------------------------------------------------------------------------
// independent varint / protobuf reader (from proto/event.proto)

#[derive(Debug, Clone, PartialEq)]
enum Ev {
    Meta { name: String, ty: u64, unit: Option<String>, desc: Option<String> },
    Metric { name: String, labels: BTreeMap<String, String>, op: u32, bits: u64, has_ts: bool, secs: u64 },
}

struct Rd<'a> {
    b: &'a [u8],
    p: usize,
}

impl<'a> Rd<'a> {
    fn done(&self) -> bool {
        self.p >= self.b.len()
    }
    fn varint(&mut self) -> Result<u64, String> {
        let mut v: u64 = 0;
        for i in 0..10 {
            let x = *self.b.get(self.p).ok_or("varint cut short")?;
            self.p += 1;
            if i == 9 && x > 1 {
                return Err("varint overflows 64 bits".into());
            }
            v |= ((x & 0x7f) as u64) << (7 * i);
            if x & 0x80 == 0 {
                return Ok(v);
            }
        }
        Err("varint longer than 10 bytes".into())
    }
    fn bytes(&mut self) -> Result<&'a [u8], String> {
        let n = self.varint()? as usize;
        if self.b.len() - self.p < n {
            return Err(format!("length {} exceeds the {} bytes left", n, self.b.len() - self.p));
        }
        let s = &self.b[self.p..self.p + n];
        self.p += n;
        Ok(s)
    }
    fn string(&mut self) -> Result<String, String> {
        String::from_utf8(self.bytes()?.to_vec()).map_err(|_| "string field is not UTF-8".to_string())
    }
    fn fixed64(&mut self) -> Result<u64, String> {
        if self.b.len() - self.p < 8 {
            return Err("fixed64 cut short".into());
        }
        let mut a = [0u8; 8];
        a.copy_from_slice(&self.b[self.p..self.p + 8]);
        self.p += 8;
        Ok(u64::from_le_bytes(a))
    }
    fn tag(&mut self) -> Result<(u32, u8), String> {
        let t = self.varint()?;
        Ok(((t >> 3) as u32, (t & 7) as u8))
    }
}

fn dec_meta(b: &[u8]) -> Result<Ev, String> {
    let mut r = Rd { b, p: 0 };
    let (mut name, mut ty, mut unit, mut desc) = (String::new(), 0u64, None, None);
    while !r.done() {
        match r.tag()? {
            (1, 2) => name = r.string()?,
            (2, 0) => ty = r.varint()?,
            (3, 2) => unit = Some(r.string()?),
            (4, 2) => desc = Some(r.string()?),
            (f, w) => return Err(format!("Metadata: unexpected field {} wire type {}", f, w)),
        }
    }
    if ty > 2 {
        return Err(format!("Metadata: metric_type {} is not an enum value", ty));
    }
    Ok(Ev::Meta { name, ty, unit, desc })
}

fn dec_metric(b: &[u8]) -> Result<Ev, String> {
    let mut r = Rd { b, p: 0 };
    let mut name = String::new();
    let mut labels = BTreeMap::new();
    let mut op: Option<(u32, u64)> = None;
    let mut has_ts = false;
    let mut secs = 0u64;
    while !r.done() {
        match r.tag()? {
            (1, 2) => name = r.string()?,
            (2, 2) => {
                let mut t = Rd { b: r.bytes()?, p: 0 };
                while !t.done() {
                    match t.tag()? {
                        (1, 0) => secs = t.varint()?,
                        (2, 0) => {
                            t.varint()?;
                        }
                        (f, w) => return Err(format!("Timestamp: unexpected field {} wire type {}", f, w)),
                    }
                }
                has_ts = true;
            }
            (3, 2) => {
                let mut e = Rd { b: r.bytes()?, p: 0 };
                let (mut k, mut v) = (String::new(), String::new());
                while !e.done() {
                    match e.tag()? {
                        (1, 2) => k = e.string()?,
                        (2, 2) => v = e.string()?,
                        (f, w) => return Err(format!("labels entry: unexpected field {} wire type {}", f, w)),
                    }
                }
                if labels.insert(k, v).is_some() {
                    return Err("labels: the same key twice".into());
                }
            }
            (f @ 4..=5, 0) => {
                if op.replace((f, r.varint()?)).is_some() {
                    return Err("Metric: two operations".into());
                }
            }
            (f @ 6..=9, 1) => {
                if op.replace((f, r.fixed64()?)).is_some() {
                    return Err("Metric: two operations".into());
                }
            }
            (f, w) => return Err(format!("Metric: unexpected field {} wire type {}", f, w)),
        }
    }
    let (op, bits) = op.ok_or("Metric without operation")?;
    Ok(Ev::Metric { name, labels, op, bits, has_ts, secs })
}

/// one frame body (without the length prefix) → event
fn dec_event(b: &[u8]) -> Result<Ev, String> {
    let mut r = Rd { b, p: 0 };
    let mut ev = None;
    while !r.done() {
        let e = match r.tag()? {
            (1, 2) => dec_meta(r.bytes()?)?,
            (2, 2) => dec_metric(r.bytes()?)?,
            (f, w) => return Err(format!("Event: unexpected field {} wire type {}", f, w)),
        };
        if ev.replace(e).is_some() {
            return Err("Event: two payloads in one frame".into());
        }
    }
    ev.ok_or_else(|| "Event: empty frame".to_string())
}

/// cuts a stream into length-delimited frames; returns (events, bytes left over, first error)
fn dec_stream(b: &[u8]) -> (Vec<Ev>, usize, Option<String>) {
    let mut evs = vec![];
    let mut p = 0;
    while p < b.len() {
        let mut r = Rd { b: &b[p..], p: 0 };
        let n = match r.varint() {
            Ok(n) => n as usize,
            Err(_) if b.len() - p < 10 => return (evs, b.len() - p, None),
            Err(e) => return (evs, b.len() - p, Some(format!("at byte {}: length prefix: {}", p, e))),
        };
        if n > (1 << 24) {
            return (evs, b.len() - p, Some(format!("at byte {}: absurd frame length {}", p, n)));
        }
        if b.len() - p - r.p < n {
            return (evs, b.len() - p, None);
        }
        match dec_event(&b[p + r.p..p + r.p + n]) {
            Ok(e) => evs.push(e),
            Err(e) => {
                let msg = format!("frame #{} at byte {} (len {}): {}", evs.len(), p, n, e);
                return (evs, b.len() - p, Some(msg));
            }
        }
        p += r.p + n;
    }
    (evs, 0, None)
}

// ---------------------------------------------------------------------------------------------
// scripts

#[derive(Debug, Clone)]
struct Item {
    name: String,
    labels: Vec<(String, String)>,
    /// proto field number of the operation: 4 inc counter, 5 set counter, 6 inc gauge, 7 dec gauge, 8 set gauge, 9 histogram
    op: u32,
    bits: u64,
    /// emitted through long-lived handle #j (registered once, possibly before the first client connected or
    /// after the last one left) instead of a handle registered for this emission
    held: Option<usize>,
    /// `Some(n)`: a histogram value recorded through `Histogram::record_many(v, n)` -- `n` frames that differ in
    /// nothing but their timestamp are owed (`n` = 0: none)
    many: Option<usize>,
}

impl Item {
    /// number of frames this emission owes every connected client
    fn reps(&self) -> usize {
        self.many.unwrap_or(1)
    }
}

const NHELD: usize = 3;

#[derive(Clone)]
enum Held {
    C(metrics::Counter),
    G(metrics::Gauge),
    H(metrics::Histogram),
}

fn held_key(j: usize) -> Key {
    Key::from_parts(format!("__held{}", j), vec![Label::new("h", j.to_string())])
}

fn held_item(j: usize, serial: u64) -> Item {
    let v = 1_000_000 + serial;
    // every operation of the handle's kind, chosen by the serial number (the value identifies the emission)
    let (op, bits, many) = match j % 3 {
        0 => (if serial % 2 == 0 { 4 } else { 5 }, v, None),
        1 => ([8u32, 6, 7][(serial % 3) as usize], (v as f64).to_bits(), None),
        _ => (9, (v as f64).to_bits(), if serial % 2 == 1 { Some(((serial / 2) % 4) as usize) } else { None }),
    };
    Item { name: format!("__held{}", j), labels: vec![("h".to_string(), j.to_string())], op, bits, held: Some(j), many }
}

#[derive(Debug, Clone)]
enum Step {
    Connect { staller: bool },
    /// several connections completed in the kernel while the transport thread is held before its poll, so
    /// that ONE listener event makes the accept loop run more than once
    ConnectMany { stallers: Vec<bool> },
    /// the client shuts down its sending half (FIN) and keeps reading
    HalfClose { c: usize },
    /// the client sends `n` bytes to the exporter (which never reads) and keeps reading
    Send { c: usize, n: usize },
    /// register long-lived handle #j now (whatever the gate is at this moment)
    RegisterHeld { j: usize },
    Describe { kind: u32, name: String, unit: Option<usize>, desc: String },
    Emit { items: Vec<Item> },
    Burst { a: Vec<Item>, b: Vec<Item> },
    Close { c: usize },
    Reset { c: usize },
    Inject { c: usize, faults: Vec<Fault> },
    Unstall { c: usize },
    Pause { ms: u64 },
    /// wait until the transport thread has handled everything emitted so far and polls again
    Settle,
    /// ONE POLL ROUND: the first sub-step (a describe or a connect, which always make `poll` return) is handled,
    /// then the transport thread is held before its next `poll` while the other sub-steps (connects, describes,
    /// emissions, closes, resets) happen, so that their readiness events -- LISTENER, WAKER, client tokens -- are
    /// returned by one `poll` call and handled back to back: a client accepted in the same round as a fan-out
    /// (its metadata still queued, its first WRITABLE not yet handled), a whole batch ingested by one wake-up
    /// next to parked write buffers, a disconnect next to an accept.  Emissions and describes are limited to
    /// the free room of the channel at that moment (the held thread cannot drain it).
    Round { steps: Vec<Step> },
    /// THE EMITTERS GO QUIET: everything emitted so far has been handled by the transport thread (settle), no
    /// further emission follows for now, pending injected faults are forgotten, and (`unstall`) every open client
    /// starts reading.  Every connected, reading client must then come to hold everything that was fanned out
    /// to it -- without any later fan-out coming to the rescue (the sockets are registered edge-triggered: a
    /// frame parked for any other reason than a refusing socket is never looked at again).
    Quiet { unstall: bool },
}

const UNITS: &[Unit] = &[Unit::Count, Unit::Percent, Unit::Seconds, Unit::Nanoseconds, Unit::Bytes, Unit::BitsPerSecond];

struct Gen {
    next_id: u64,
    names: Vec<String>,
    lkeys: Vec<String>,
    big: bool,
    /// some emissions of this script go through long-lived handles
    use_held: bool,
}

impl Gen {
    fn new(r: &mut Rng) -> Gen {
        let names = (0..r.range(2, 5)).map(|_| wild_string(r, false)).collect();
        let lkeys = (0..4).map(|i| if r.chance(1, 2) { wild_string(r, false) + &i.to_string() } else { format!("k{}", i) }).collect();
        Gen { next_id: 0, names, lkeys, big: false, use_held: false }
    }
    fn value(&self, r: &mut Rng, op: u32) -> u64 {
        if op <= 5 {
            *r.pick(&[0u64, 1, 2, 127, 128, 300, 1 << 32, u64::MAX, u64::MAX - 1, 0x8000_0000_0000_0000])
        } else {
            let f = *r.pick(&[0.0f64, -0.0, 1.0, -1.5, 0.25, 1e300, -1e-300, f64::INFINITY, f64::NEG_INFINITY, f64::NAN, f64::MIN_POSITIVE, 12345.678]);
            f.to_bits()
        }
    }
    fn item(&mut self, r: &mut Rng) -> Item {
        let id = self.next_id;
        self.next_id += 1;
        if self.use_held && !self.big && r.chance(1, 3) {
            return held_item(r.below(NHELD), id);
        }
        let mut name = r.pick(&self.names).clone();
        let mut labels: Vec<(String, String)> = vec![];
        let mut keys: Vec<&String> = self.lkeys.iter().collect();
        for _ in 0..r.weighted(&[3, 3, 2, 1]) {
            let k = keys.remove(r.below(keys.len())).clone();
            labels.push((k, wild_string(r, false)));
        }
        // identity of the emission: in a label or (label-less metrics) in the name
        if labels.is_empty() && r.chance(2, 3) {
            name = format!("{}#{}", name, id);
        } else {
            labels.insert(r.below(labels.len() + 1), ("#".to_string(), id.to_string()));
        }
        if self.big {
            labels.push(("pad".to_string(), "x".repeat(r.range(900, 3000))));
        }
        let op = r.range(4, 9) as u32;
        // a histogram value recorded `n` times in one call (`HistogramFn::record_many`, a provided method)
        let many = if op == 9 && !self.big && r.chance(1, 3) { Some(*r.pick(&[0usize, 1, 2, 3, 5])) } else { None };
        Item { name, labels, op, bits: self.value(r, op), held: None, many }
    }
    fn items(&mut self, r: &mut Rng, lo: usize, hi: usize) -> Vec<Item> {
        (0..r.range(lo, hi)).map(|_| self.item(r)).collect()
    }
}

fn gen_faults(r: &mut Rng) -> Vec<Fault> {
    gen_faults_n(r, 1, 3)
}

fn gen_faults_n(r: &mut Rng, lo: usize, hi: usize) -> Vec<Fault> {
    (0..r.range(lo, hi))
        .map(|_| match r.below(5) {
            0 | 1 => Fault::Accept(r.range(1, 12)),
            2 | 3 => Fault::WouldBlock,
            _ => Fault::Interrupted,
        })
        .collect()
}

/// faults for the LAST frames before a silence.  `Interrupted` is the only injected fault that is faithful to a
/// kernel without a full socket (EINTR can hit any write), so it dominates; injected `WouldBlock` / short writes
/// leave a frame parked behind a socket that is not full (no WRITABLE edge will follow: an artefact of the
/// injection, recognised from the trace and excused by the quiet oracle) and are mixed in to keep that path alive.
fn gen_tail_faults(r: &mut Rng) -> Vec<Fault> {
    match r.below(6) {
        0 | 1 | 2 => (0..r.range(1, 3)).map(|_| Fault::Interrupted).collect(),
        3 => {
            // interrupted retries in between short writes that are followed by more data-carrying writes
            let mut v = vec![Fault::Interrupted];
            v.extend(gen_faults_n(r, 1, 2));
            v.push(Fault::Interrupted);
            v
        }
        _ => gen_faults_n(r, 1, 4),
    }
}

fn gen_script(r: &mut Rng, storm: bool) -> Vec<Step> {
    let mut g = Gen::new(r);
    let mut s = vec![];
    let mut nclients = 0usize;
    // describes use one fixed kind per name (re-describing a name with another kind is outside the property)
    let dnames: Vec<(String, u32)> = (0..r.range(1, 4)).map(|i| (format!("{}{}", wild_string(r, false), i), r.below(3) as u32)).collect();
    let describe = |r: &mut Rng| {
        let (name, kind) = r.pick(&dnames).clone();
        Step::Describe { kind, name, unit: if r.chance(1, 2) { Some(r.below(UNITS.len())) } else { None }, desc: wild_string(r, false) }
    };
    for _ in 0..r.below(3) {
        s.push(describe(r));
    }
    // long-lived handles: some registered while no client has ever connected (gate closed), some later
    g.use_held = r.chance(1, 2);
    if g.use_held {
        for j in 0..NHELD {
            if r.chance(1, 2) {
                s.push(Step::RegisterHeld { j });
            }
        }
    }
    s.push(Step::Connect { staller: storm || r.chance(1, 4) });
    nclients += 1;
    if r.chance(3, 4) {
        s.push(Step::Connect { staller: r.chance(1, 4) });
        nclients += 1;
    }
    let n = r.range(4, 14);
    for _ in 0..n {
        match r.weighted(&[2, 2, 6, 3, 2, 2, 5, 1, 1, 2, 2, 1, 1, 4, 2, 3]) {
            13 => {
                // one poll round: a describe or a connect makes the thread run, then it is held before its poll
                // while connects / describes / emissions / disconnects pile up for ONE poll call
                let mut sub = vec![];
                if nclients < 6 && r.chance(1, 3) {
                    sub.push(Step::Connect { staller: r.chance(1, 4) });
                    nclients += 1;
                } else {
                    sub.push(describe(r));
                }
                let mut connects = 0;
                for _ in 0..r.range(1, 4) {
                    match r.weighted(&[3, 2, 5, 1, 1]) {
                        0 => {
                            if nclients < 7 && connects < 2 {
                                sub.push(Step::Connect { staller: r.chance(1, 5) });
                                nclients += 1;
                                connects += 1;
                            }
                        }
                        1 => sub.push(describe(r)),
                        2 => sub.push(Step::Emit { items: g.items(r, 1, 9) }),
                        3 => sub.push(Step::Close { c: r.below(nclients) }),
                        _ => sub.push(Step::Reset { c: r.below(nclients) }),
                    }
                }
                s.push(Step::Settle);
                s.push(Step::Round { steps: sub });
            }
            14 => {
                // a write buffer parked by the socket's refusals with a short queue behind it, then a whole batch
                // ingested by one wake-up: the fan-out has to flush before it decides what to discard
                s.push(Step::Settle);
                s.push(Step::Inject { c: r.below(nclients), faults: gen_faults_n(r, 2, 6) });
                for _ in 0..r.range(1, 3) {
                    s.push(Step::Emit { items: g.items(r, 1, 2) });
                    s.push(Step::Settle);
                }
                s.push(Step::Round { steps: vec![describe(r), Step::Emit { items: g.items(r, 2, 9) }] });
            }
            15 => {
                // the last frames before the emitters go quiet meet write faults; nothing is emitted afterwards
                // (until the script goes on), so only the exporter's own retry / a genuine WRITABLE edge can
                // deliver them
                s.push(Step::Settle);
                s.push(Step::Inject { c: r.below(nclients), faults: gen_tail_faults(r) });
                s.push(Step::Emit { items: g.items(r, 1, 4) });
                s.push(Step::Quiet { unstall: r.chance(1, 3) });
            }
            9 => s.push(Step::HalfClose { c: r.below(nclients) }),
            10 => s.push(Step::Send { c: r.below(nclients), n: *r.pick(&[1usize, 1, 7, 300, 5000]) }),
            11 => {
                if nclients + 3 <= 7 {
                    let k = r.range(2, 3);
                    s.push(Step::ConnectMany { stallers: (0..k).map(|_| r.chance(1, 4)).collect() });
                    nclients += k;
                }
            }
            12 => s.push(Step::RegisterHeld { j: r.below(NHELD) }),
            0 => {
                if nclients < 5 {
                    s.push(Step::Connect { staller: r.chance(1, 3) });
                    nclients += 1;
                }
            }
            1 => s.push(describe(r)),
            2 => s.push(Step::Emit { items: g.items(r, 1, 6) }),
            3 => s.push(Step::Burst { a: g.items(r, 1, 8), b: g.items(r, 1, 8) }),
            4 => s.push(Step::Close { c: r.below(nclients) }),
            5 => s.push(Step::Reset { c: r.below(nclients) }),
            6 => {
                s.push(Step::Settle);
                s.push(Step::Inject { c: r.below(nclients), faults: gen_faults(r) });
                s.push(Step::Emit { items: g.items(r, 1, 4) });
                if r.chance(2, 3) {
                    s.push(Step::Settle);
                    if r.chance(1, 2) {
                        s.push(Step::Emit { items: g.items(r, 1, 3) });
                    }
                }
            }
            7 => s.push(Step::Unstall { c: r.below(nclients) }),
            _ => s.push(if r.chance(1, 2) { Step::Pause { ms: r.range(1, 8) as u64 } } else { Step::Settle }),
        }
    }
    if storm {
        // big frames against a client that does not read: the kernel itself answers short writes / WouldBlock
        g.big = true;
        s.push(Step::Connect { staller: true });
        s.push(Step::Connect { staller: false });
        for _ in 0..r.range(2, 4) {
            s.push(Step::Emit { items: g.items(r, 20, 40) });
            if r.chance(1, 2) {
                s.push(Step::Burst { a: g.items(r, 5, 15), b: g.items(r, 5, 15) });
            }
        }
        g.big = false;
        s.push(Step::Emit { items: g.items(r, 1, 4) });
    } else if r.chance(1, 2) {
        // the session's last batch meets write faults; the end-of-session quiet check follows it
        s.push(Step::Settle);
        s.push(Step::Inject { c: r.below(nclients), faults: gen_tail_faults(r) });
        if r.chance(1, 3) {
            s.push(Step::Inject { c: r.below(nclients), faults: gen_tail_faults(r) });
        }
        s.push(Step::Emit { items: g.items(r, 1, 5) });
    }
    s
}

fn item(id: u64, name: &str) -> Item {
    Item { name: name.to_string(), labels: vec![("#".to_string(), id.to_string())], op: 4, bits: id + 1, held: None, many: None }
}

/// hand-picked histories: the three design-round findings and the edges of the buffer rule
fn corpus() -> Vec<(&'static str, Option<usize>, Vec<Step>)> {
    let d = |n: &str| Step::Describe { kind: 0, name: n.to_string(), unit: Some(0), desc: "d".to_string() };
    let em = |ids: std::ops::Range<u64>| Step::Emit { items: ids.map(|i| item(i, "m")).collect() };
    let mut v = corpus_raw(&d, &em);
    // every step of a hand-picked history is handled by the transport before the next one starts
    for (_, _, script) in v.iter_mut() {
        let steps = std::mem::take(script);
        for st in steps {
            script.push(st);
            script.push(Step::Settle);
        }
    }
    v
}

fn corpus_raw(d: &dyn Fn(&str) -> Step, em: &dyn Fn(std::ops::Range<u64>) -> Step) -> Vec<(&'static str, Option<usize>, Vec<Step>)> {
    vec![
        ("no-limit", None, vec![d("m"), Step::Connect { staller: false }, em(0..3), Step::Connect { staller: false }, em(3..6)]),
        (
            "dead-client-found-on-fan-out",
            Some(8),
            vec![
                Step::Connect { staller: false },
                Step::Connect { staller: false },
                em(0..1),
                Step::Reset { c: 0 },
                Step::Pause { ms: 30 },
                em(1..2),
                Step::Pause { ms: 10 },
                em(2..3),
                em(3..5),
            ],
        ),
        (
            "wouldblock-before-any-write",
            Some(8),
            vec![Step::Connect { staller: false }, Step::Inject { c: 0, faults: vec![Fault::WouldBlock] }, em(0..1), em(1..2)],
        ),
        (
            "wouldblock-after-partial-write",
            Some(8),
            vec![
                d("m"),
                Step::Connect { staller: false },
                Step::Inject { c: 0, faults: vec![Fault::Accept(1), Fault::Accept(3), Fault::WouldBlock] },
                em(0..1),
                em(1..2),
                em(2..3),
            ],
        ),
        (
            "interrupted-after-partial-write",
            Some(8),
            vec![Step::Connect { staller: false }, Step::Inject { c: 0, faults: vec![Fault::Accept(5), Fault::Interrupted, Fault::Interrupted] }, em(0..1), em(1..2)],
        ),
        (
            "buffer-1-two-readers",
            Some(1),
            vec![d("m"), Step::Connect { staller: false }, Step::Connect { staller: false }, em(0..4), Step::Burst { a: (4..8).map(|i| item(i, "a")).collect(), b: (8..12).map(|i| item(i, "b")).collect() }],
        ),
        (
            "slow-client-drop-oldest",
            Some(2),
            vec![
                d("m"),
                d("n"),
                d("o"),
                Step::Connect { staller: false },
                Step::Connect { staller: false },
                Step::Inject { c: 0, faults: vec![Fault::Accept(2), Fault::WouldBlock, Fault::WouldBlock, Fault::WouldBlock] },
                em(0..1),
                em(1..2),
                em(2..3),
                em(3..4),
                em(4..5),
            ],
        ),
        (
            "half-closed-reader-keeps-receiving",
            Some(8),
            vec![Step::Connect { staller: false }, Step::Connect { staller: false }, em(0..1), Step::HalfClose { c: 0 }, Step::Pause { ms: 30 }, em(1..3), em(3..4)],
        ),
        ("lone-half-closed-reader", Some(1024), vec![Step::Connect { staller: false }, Step::HalfClose { c: 0 }, Step::Pause { ms: 30 }, em(0..2), em(2..3)]),
        (
            "client-talks-to-the-exporter",
            Some(8),
            vec![
                Step::Connect { staller: false },
                Step::Connect { staller: false },
                Step::Send { c: 0, n: 1 },
                Step::Pause { ms: 30 },
                em(0..2),
                Step::Send { c: 0, n: 300 },
                Step::Pause { ms: 10 },
                em(2..3),
            ],
        ),
        ("three-connections-one-listener-event", Some(8), vec![d("m"), Step::ConnectMany { stallers: vec![false, false, false] }, em(0..3), Step::ConnectMany { stallers: vec![false, true] }, em(3..5)]),
        (
            "handles-outlive-gate-transitions",
            Some(8),
            vec![
                Step::RegisterHeld { j: 0 },
                Step::RegisterHeld { j: 1 },
                Step::Connect { staller: false },
                Step::Emit { items: vec![held_item(0, 0), held_item(1, 1), held_item(2, 2)] },
                Step::Close { c: 0 },
                Step::Pause { ms: 30 },
                Step::Emit { items: vec![held_item(0, 3)] },
                Step::Emit { items: vec![held_item(1, 4)] },
                Step::Connect { staller: false },
                Step::Emit { items: vec![held_item(0, 5), held_item(1, 6), held_item(2, 7)] },
            ],
        ),
        (
            // a frame whose length prefix is a 3-byte varint (>= 16384), written in several pieces to a slow client
            "frame-longer-than-16k",
            Some(8),
            vec![
                Step::Connect { staller: false },
                Step::Connect { staller: true },
                Step::Inject { c: 0, faults: vec![Fault::Accept(2), Fault::Accept(1), Fault::WouldBlock] },
                Step::Emit { items: vec![Item { name: "big".to_string(), labels: vec![("#".to_string(), "100".to_string()), ("pad".to_string(), "y".repeat(20_000))], op: 4, bits: 7, held: None, many: None }] },
                em(0..2),
                Step::Unstall { c: 1 },
                em(2..3),
            ],
        ),
        (
            // a client accepted in the same poll round as a fan-out: its metadata is still queued (first WRITABLE
            // not handled yet) when the batch arrives, and metadata + batch exceed buffer_size -- it is healthy
            // and reading, so nothing may be discarded for it
            "accept-and-batch-in-one-poll-round",
            Some(2),
            vec![d("m"), d("n"), Step::Connect { staller: false }, em(0..1), Step::Round { steps: vec![d("o"), Step::Connect { staller: false }, em(1..3)] }, em(3..4)],
        ),
        (
            "batch-then-accept-in-one-poll-round",
            Some(3),
            vec![d("m"), Step::Connect { staller: false }, Step::Round { steps: vec![d("n"), em(0..3), Step::Connect { staller: false }, Step::Connect { staller: true }] }, em(3..5)],
        ),
        (
            // a parked write buffer with a queue shorter than buffer_size behind it (the socket refused three
            // times), then a full batch ingested by one wake-up: the socket takes everything now, nothing is discarded
            "parked-buffer-short-queue-then-full-batch",
            Some(4),
            vec![
                Step::Connect { staller: false },
                Step::Connect { staller: false },
                Step::Inject { c: 0, faults: vec![Fault::WouldBlock, Fault::WouldBlock, Fault::WouldBlock] },
                em(0..1),
                em(1..2),
                Step::Round { steps: vec![d("m"), em(2..6)] },
                em(6..7),
            ],
        ),
        (
            "accept-close-and-batch-in-one-poll-round",
            Some(1),
            vec![d("m"), Step::Connect { staller: false }, Step::Connect { staller: false }, Step::Round { steps: vec![Step::Connect { staller: false }, Step::Reset { c: 0 }, em(0..1), Step::Connect { staller: false }] }, em(1..2)],
        ),
        (
            // seed C11-8 class: the write of the last frame before a silence is interrupted; the client reads
            "interrupted-last-frame-then-silence",
            Some(16),
            vec![Step::Connect { staller: false }, em(0..1), Step::Inject { c: 0, faults: vec![Fault::Interrupted] }, em(1..2), Step::Quiet { unstall: false }, em(2..3)],
        ),
        (
            "interrupted-last-batch-then-silence-no-limit",
            None,
            vec![
                d("m"),
                Step::Connect { staller: false },
                Step::Connect { staller: false },
                Step::Inject { c: 0, faults: vec![Fault::Interrupted, Fault::Interrupted, Fault::Interrupted] },
                Step::Round { steps: vec![d("n"), em(0..3)] },
                Step::Quiet { unstall: false },
            ],
        ),
        (
            "interrupted-retry-of-a-parked-remainder-then-silence",
            Some(8),
            vec![
                Step::Connect { staller: false },
                Step::Inject { c: 0, faults: vec![Fault::Accept(3)] },
                em(0..1),
                Step::Inject { c: 0, faults: vec![Fault::Interrupted, Fault::Interrupted] },
                em(1..2),
                Step::Quiet { unstall: false },
            ],
        ),
        (
            // the kernel's own refusals on the last frames (a client that does not read, 3 x 20 KB), then silence,
            // then the client starts reading: the WRITABLE edge alone has to bring the parked rest and the queue
            "staller-reads-after-the-last-frame",
            Some(8),
            vec![
                Step::Connect { staller: true },
                Step::Connect { staller: false },
                Step::Emit { items: (0..3u64).map(|i| Item { name: "big".to_string(), labels: vec![("#".to_string(), (200 + i).to_string()), ("pad".to_string(), "z".repeat(20_000))], op: 4, bits: i, held: None, many: None }).collect() },
                em(0..2),
                Step::Quiet { unstall: true },
            ],
        ),
        ("large-buffer", Some(1 << 16), vec![d("m"), Step::Connect { staller: false }, Step::Connect { staller: true }, em(0..40), Step::Close { c: 1 }, em(40..60)]),
    ]
}

// ---------------------------------------------------------------------------------------------
// a session against one real exporter

#[derive(Clone, Copy, PartialEq, Debug)]
enum End {
    Open,
    Closed,
    Reset,
}

struct Client {
    staller: bool,
    stream: Option<TcpStream>,
    local_port: u16,
    token: usize,
    data: Arc<Mutex<Vec<u8>>>,
    eof: Arc<AtomicBool>,
    /// the client has sent bytes to the exporter
    talked: Arc<AtomicBool>,
    reader: Option<std::thread::JoinHandle<()>>,
    /// script step at which connect() started / the accept snapshot was seen / close was called
    connect_step: usize,
    /// everything emitted before this step had been fanned out before connect() started (last Settle step)
    floor_step: usize,
    accepted_step: usize,
    accepted_pos: usize,
    closed_step: usize,
    closed_pos: usize,
    end: End,
}

struct Emission {
    step: usize,
    thread: usize,
    seq: usize,
    item: Item,
}

struct Described {
    step: usize,
    /// log position after which the transport is known to have ingested it
    name: String,
    kind: u32,
    unit: Option<String>,
    desc: String,
}

fn spawn_reader(c: &mut Client) {
    if c.reader.is_some() {
        return;
    }
    let mut s = match c.stream.as_ref().and_then(|s| s.try_clone().ok()) {
        Some(s) => s,
        None => return,
    };
    let data = c.data.clone();
    let eof = c.eof.clone();
    let talked = c.talked.clone();
    c.reader = Some(std::thread::spawn(move || {
        let _ = s.set_read_timeout(Some(Duration::from_millis(200)));
        let deadline = Instant::now() + Duration::from_secs(40);
        let mut buf = vec![0u8; 65536];
        while Instant::now() < deadline {
            match s.read(&mut buf) {
                Ok(0) => {
                    eof.store(true, Ordering::SeqCst);
                    return;
                }
                Ok(n) => data.lock().unwrap().extend_from_slice(&buf[..n]),
                Err(e) if matches!(e.kind(), std::io::ErrorKind::WouldBlock | std::io::ErrorKind::TimedOut | std::io::ErrorKind::Interrupted) => {}
                Err(_) => {
                    // connection reset: the exporter closed while bytes this client SENT were still unread
                    // (only clients that talk to the exporter); everything written to us before has been read
                    if talked.load(Ordering::SeqCst) {
                        eof.store(true, Ordering::SeqCst);
                    }
                    return;
                }
            }
        }
    }));
}

fn key_of(it: &Item) -> Key {
    let labels: Vec<Label> = it.labels.iter().map(|(k, v)| Label::new(k.clone(), v.clone())).collect();
    Key::from_parts(it.name.clone(), labels)
}

static MD: Metadata<'static> = Metadata::new("c11", Level::INFO, None);

fn register_held(rec: &TcpRecorder, held: &mut Vec<Option<Held>>, j: usize) {
    if held[j].is_none() {
        let key = held_key(j);
        held[j] = Some(match j % 3 {
            0 => Held::C(rec.register_counter(&key, &MD)),
            1 => Held::G(rec.register_gauge(&key, &MD)),
            _ => Held::H(rec.register_histogram(&key, &MD)),
        });
    }
}

/// every long-lived handle the items need exists (registered now if the script did not do it earlier)
fn ensure_held(rec: &TcpRecorder, held: &mut Vec<Option<Held>>, items: &[Item]) {
    for it in items {
        if let Some(j) = it.held {
            register_held(rec, held, j);
        }
    }
}

fn apply(rec: &TcpRecorder, held: &[Option<Held>], it: &Item) {
    if let Some(j) = it.held {
        match held[j].as_ref().expect("held handle registered") {
            Held::C(h) if it.op == 5 => h.absolute(it.bits),
            Held::C(h) => h.increment(it.bits),
            Held::G(h) if it.op == 6 => h.increment(f64::from_bits(it.bits)),
            Held::G(h) if it.op == 7 => h.decrement(f64::from_bits(it.bits)),
            Held::G(h) => h.set(f64::from_bits(it.bits)),
            Held::H(h) => match it.many {
                Some(n) => h.record_many(f64::from_bits(it.bits), n),
                None => h.record(f64::from_bits(it.bits)),
            },
        }
        return;
    }
    let key = key_of(it);
    match it.op {
        4 => rec.register_counter(&key, &MD).increment(it.bits),
        5 => rec.register_counter(&key, &MD).absolute(it.bits),
        6 => rec.register_gauge(&key, &MD).increment(f64::from_bits(it.bits)),
        7 => rec.register_gauge(&key, &MD).decrement(f64::from_bits(it.bits)),
        8 => rec.register_gauge(&key, &MD).set(f64::from_bits(it.bits)),
        _ => match it.many {
            Some(n) => rec.register_histogram(&key, &MD).record_many(f64::from_bits(it.bits), n),
            None => rec.register_histogram(&key, &MD).record(f64::from_bits(it.bits)),
        },
    }
}

/// `record_many(v, n)` puts `n` events into the channel back to back: "a rate within the configured buffer" means
/// `n` is at most the buffer (the generator does not know the buffer; the session clamps)
fn clamp_many(it: &Item, buffer: Option<usize>) -> Item {
    let mut it = it.clone();
    if let (Some(n), Some(b)) = (it.many, buffer) {
        it.many = Some(n.min(b.max(1)));
    }
    it
}

/// waits for room in the channel to the transport thread ("a rate within the configured buffer")
fn pace(rec: &TcpRecorder, buffer: Option<usize>, headroom: usize) -> bool {
    let n = match buffer {
        None => return true,
        Some(n) => n,
    };
    let deadline = Instant::now() + WAIT;
    while rec.verif_queue_len() + headroom > n {
        if Instant::now() > deadline {
            return false;
        }
        std::thread::yield_now();
    }
    true
}

/// the channel is empty and the last thing the transport thread said is that it is about to poll again
/// (a message taken from the channel is always preceded by a `Wake` record, so this is not a lull in mid-batch)
fn settle(rec: &TcpRecorder, log: &Log, port: u16) -> bool {
    let deadline = Instant::now() + WAIT;
    loop {
        if rec.verif_queue_len() == 0 {
            let idle = {
                let g = log.recs.lock().unwrap();
                matches!(g.iter().rev().find(|(p, _)| *p == port), Some((_, Record::Idle)))
            };
            if idle {
                return true;
            }
        }
        if Instant::now() > deadline {
            return false;
        }
        std::thread::sleep(Duration::from_micros(200));
    }
}

static DEFAULT_PATH: std::sync::atomic::AtomicUsize = std::sync::atomic::AtomicUsize::new(0);

fn start_exporter(buffer: Option<usize>) -> Result<(TcpRecorder, u16), String> {
    let mut last = String::new();
    for _ in 0..20 {
        let port = std::net::TcpListener::bind("127.0.0.1:0").and_then(|l| l.local_addr()).map_err(|e| e.to_string())?.port();
        let addr: SocketAddr = ([127, 0, 0, 1], port).into();
        // the documented default ("By default, the buffer limit is set at 1024 metrics") is reached through the
        // builder's own default -- `TcpBuilder::new()` / `TcpBuilder::default()` without `.buffer_size(..)` -- in
        // two of three exporters that run with 1024; the model is told 1024 either way
        let builder = match (buffer, DEFAULT_PATH.fetch_add(if buffer == Some(1024) { 1 } else { 0 }, Ordering::SeqCst) % 3) {
            (Some(1024), 0) => TcpBuilder::new().listen_address(addr),
            (Some(1024), 1) => TcpBuilder::default().listen_address(addr),
            _ => TcpBuilder::new().listen_address(addr).buffer_size(buffer),
        };
        match builder.build() {
            Ok(r) => return Ok((r, port)),
            // EADDRINUSE: the port raced away → retry with a fresh one
            Err(e) => last = e.to_string(),
        }
    }
    Err(last)
}

fn wres(o: &WriteOutcome) -> String {
    match o {
        WriteOutcome::Ok(n) => format!("o{}", n),
        WriteOutcome::WouldBlock => "w".into(),
        WriteOutcome::Interrupted => "i".into(),
        WriteOutcome::Err(_) => "e".into(),
    }
}

#[derive(Default, Clone)]
struct DriveLog {
    attempts: Vec<usize>,
    results: Vec<String>,
    end: Option<(bool, Option<usize>, usize)>,
}

impl DriveLog {
    fn show(&self) -> String {
        let (done, wbuf, msgs) = self.end.unwrap_or((false, None, usize::MAX));
        format!(
            "{}/{}/{}/{}",
            done as u8,
            wbuf.map_or("~".to_string(), |n| n.to_string()),
            msgs,
            if self.attempts.is_empty() { "-".to_string() } else { self.attempts.iter().map(|n| n.to_string()).collect::<Vec<_>>().join(".") }
        )
    }
}

#[derive(Default, Clone)]
struct TokLog {
    drives: Vec<DriveLog>,
    dropped: usize,
    enq: usize,
}

fn fail(out: &mut Out, script: &str, what: &str, detail: String) {
    out.oracle_fail(what, &format!("{} || script: {}", detail, script));
}

fn connect_client(port: u16, staller: bool) -> Result<(TcpStream, u16), String> {
    let sock = socket2::Socket::new(socket2::Domain::IPV4, socket2::Type::STREAM, None).unwrap();
    if staller {
        // small receive buffer and a small MSS (which keeps the exporter's send buffer from being
        // auto-tuned to megabytes on loopback): about 20 KB unread and the exporter sees WouldBlock
        let _ = sock.set_recv_buffer_size(2048);
        let _ = sock.set_mss(256);
    }
    let dst: SocketAddr = ([127, 0, 0, 1], port).into();
    sock.connect_timeout(&dst.into(), Duration::from_secs(2)).map_err(|e| format!("connect to the exporter failed: {}", e))?;
    let stream: TcpStream = sock.into();
    let local_port = stream.local_addr().map(|a| a.port()).unwrap_or(0);
    Ok((stream, local_port))
}

/// accepted = Accept record for our port followed by the snapshot taken after registration → (token, log position)
fn wait_accept(log: &Log, port: u16, local_port: u16) -> Option<(usize, usize)> {
    log.wait(WAIT, |recs| {
        let mut tok = None;
        for (i, (p, r)) in recs.iter().enumerate() {
            if *p != port {
                continue;
            }
            match r {
                Record::Accept { token, peer } if peer.map(|a| a.port()) == Some(local_port) => tok = Some(*token),
                Record::Snapshot { .. } if tok.is_some() => return Some((tok.unwrap(), i)),
                _ => {}
            }
        }
        None
    })
}

fn new_client(staller: bool, stream: TcpStream, local_port: u16, token: usize, pos: usize, si: usize, last_settle: usize) -> Client {
    let mut c = Client {
        staller,
        stream: Some(stream),
        local_port,
        token,
        data: Arc::new(Mutex::new(vec![])),
        eof: Arc::new(AtomicBool::new(false)),
        talked: Arc::new(AtomicBool::new(false)),
        reader: None,
        connect_step: si,
        floor_step: last_settle,
        accepted_step: si,
        accepted_pos: pos,
        closed_step: usize::MAX,
        closed_pos: usize::MAX,
        end: End::Open,
    };
    if !staller {
        spawn_reader(&mut c);
    }
    c
}

fn do_describe(rec: &TcpRecorder, kind: u32, name: &str, unit: Option<usize>, desc: &str) -> Option<Unit> {
    let u = unit.map(|i| UNITS[i]);
    let (kn, d): (KeyName, SharedString) = (KeyName::from(name.to_string()), SharedString::from(desc.to_string()));
    match kind {
        0 => rec.describe_counter(kn, u, d),
        1 => rec.describe_gauge(kn, u, d),
        _ => rec.describe_histogram(kn, u, d),
    }
    u
}

fn do_close(cl: &mut Client, reset: bool, si: usize, log: &Log) {
    cl.closed_step = si;
    cl.closed_pos = log.len();
    cl.end = if reset { End::Reset } else { End::Closed };
    if let Some(s) = cl.stream.take() {
        if reset {
            let _ = socket2::SockRef::from(&s).set_linger(Some(Duration::from_secs(0)));
        }
        let _ = s.shutdown(std::net::Shutdown::Both);
        drop(s);
    }
    if let Some(h) = cl.reader.take() {
        let _ = h.join();
    }
}

/// identity of an emission as it appears on the wire: name, labels (and the value for long-lived handles,
/// whose emissions share their key)
fn ident_of(name: &str, labels: &BTreeMap<String, String>, bits: u64) -> String {
    let mut s = hexs(name);
    for (k, v) in labels {
        s.push_str(&format!(" {}={}", hexs(k), hexs(v)));
    }
    if name.starts_with("__held") {
        s.push_str(&format!(" bits={:016x}", bits));
    }
    s
}

// ---------------------------------------------------------------------------------------------
// the quiet oracle: "a connected, reading client eventually holds everything that was accepted before the
// emitters went quiet".
//
// Called when the transport thread has handled everything emitted so far and polls again (`settle`), with no
// emission to follow.  Nothing but the exporter's own retry logic and genuine WRITABLE edges from the kernel can
// move bytes from now on.  For every open client that reads, the bytes it has read must come to END with the last
// frame that was fanned out while it was connected (the last frame of a batch is never discarded: drop-oldest
// removes from the front and a batch never exceeds the limit), within `WAIT` (8 s; on loopback the bytes arrive
// within milliseconds of the write, a timeout means nobody is going to send them).  What the client holds at that
// moment is kept and judged with the other stream oracles at the end of the session (for a client that never had
// a frame discarded: every emission made while it was connected).
//
// Excused (injection artefacts, recognised from the trace): a client whose LAST write was an injected `WouldBlock`
// or an injected short write.  The real kernel answers those only when the socket's buffer is full and then owes a
// WRITABLE edge; the injected ones park the frame behind a socket that is not full, so that no edge follows and
// even the correct exporter waits for the next fan-out.  An injected `Interrupted` is NOT excused: EINTR says
// nothing about the socket and the exporter has to retry by itself.

struct QuietClient {
    ci: usize,
    /// why this client's parked frames are excused, if they are
    artefact: Option<String>,
    /// the last frame fanned out while it was connected (None: nothing was fanned out to it)
    target: Option<Vec<u8>>,
    /// what the client had read when the wait ended
    data: Vec<u8>,
    reached: bool,
}

struct QuietSnap {
    step: usize,
    waited: Duration,
    clients: Vec<QuietClient>,
}

static QUIET_STRANDED: std::sync::atomic::AtomicUsize = std::sync::atomic::AtomicUsize::new(0);

/// per token: (the exporter removed it, description of the last write if it was an injected refusal)
fn quiet_scan(recs: &[(u16, Record)], port: u16) -> (HashSet<usize>, HashMap<usize, String>, Option<(usize, Vec<u8>)>) {
    let mut gone = HashSet::new();
    let mut last_attempt: HashMap<usize, usize> = HashMap::new();
    let mut artefact: HashMap<usize, String> = HashMap::new();
    let mut last_fanout = None;
    for (i, (p, r)) in recs.iter().enumerate() {
        if *p != port {
            continue;
        }
        match r {
            Record::Disconnect { token } => {
                gone.insert(*token);
            }
            Record::WriteAttempt { token, buf } => {
                last_attempt.insert(*token, buf.len());
            }
            Record::WriteResult { token, outcome, injected } => {
                let len = last_attempt.get(token).copied().unwrap_or(0);
                let refusal = match outcome {
                    WriteOutcome::WouldBlock => Some("WouldBlock".to_string()),
                    WriteOutcome::Ok(n) if *n < len => Some(format!("short write {}/{}", n, len)),
                    _ => None,
                };
                match (refusal, *injected) {
                    (Some(what), true) => {
                        artefact.insert(*token, format!("its last write was an injected {} (the socket is not full, no WRITABLE edge is owed)", what));
                    }
                    _ => {
                        artefact.remove(token);
                    }
                }
            }
            Record::Fanout { frames } => {
                if let Some(f) = frames.last() {
                    last_fanout = Some((i, f.clone()));
                }
            }
            _ => {}
        }
    }
    (gone, artefact, last_fanout)
}

fn quiet_check(clients: &mut [Client], log: &Log, port: u16, si: usize, unstall: bool, out: &mut Out) -> QuietSnap {
    // no injected fault may be consumed by a write that a genuine WRITABLE edge triggers from now on
    verif::clear_faults(port);
    if unstall {
        for c in clients.iter_mut() {
            if c.end == End::Open {
                spawn_reader(c);
            }
        }
    }
    let t0 = Instant::now();
    // once the defect has been seen a few times in this process, do not spend the full wait on every session
    let wait = if QUIET_STRANDED.load(Ordering::SeqCst) >= 2 { Duration::from_millis(1500) } else { WAIT };
    let scan = |log: &Log| {
        let g = log.recs.lock().unwrap();
        quiet_scan(&g, port)
    };
    let (_, _, last_fanout) = scan(log);
    let examined: Vec<usize> = (0..clients.len()).filter(|&i| clients[i].end == End::Open && clients[i].reader.is_some()).collect();
    let target_of = |c: &Client| -> Option<Vec<u8>> {
        match &last_fanout {
            Some((pos, f)) if c.accepted_pos < *pos => Some(f.clone()),
            _ => None,
        }
    };
    loop {
        let (gone, artefact, _) = scan(log);
        let all = examined.iter().all(|&i| {
            let c = &clients[i];
            if gone.contains(&c.token) || artefact.contains_key(&c.token) {
                return true;
            }
            match target_of(c) {
                None => true,
                Some(f) => c.data.lock().unwrap().ends_with(&f),
            }
        });
        if all || t0.elapsed() > wait {
            break;
        }
        std::thread::sleep(Duration::from_millis(2));
    }
    let (gone, artefact, _) = scan(log);
    let mut snap = QuietSnap { step: si, waited: t0.elapsed(), clients: vec![] };
    for &i in examined.iter() {
        let c = &clients[i];
        if gone.contains(&c.token) {
            continue;
        }
        let target = target_of(c);
        let data = c.data.lock().unwrap().clone();
        let reached = target.as_ref().map_or(true, |f| data.ends_with(f));
        let art = artefact.get(&c.token).cloned();
        out.count(match (&art, reached) {
            (Some(_), _) => "quiet check: client excused (frame parked by an injected WouldBlock / short write)",
            (None, true) => "quiet check: reading client holds the last frame fanned out",
            (None, false) => "quiet check: reading client is missing the last frame fanned out",
        });
        if art.is_none() && !reached {
            QUIET_STRANDED.fetch_add(1, Ordering::SeqCst);
        }
        snap.clients.push(QuietClient { ci: i, artefact: art, target, data, reached });
    }
    snap
}

fn session(tag: &str, buffer: Option<usize>, script: &[Step], out: &mut Out) {
    out.case(tag);
    let log = log();
    let unix_now = || std::time::SystemTime::now().duration_since(std::time::UNIX_EPOCH).map(|d| d.as_secs()).unwrap_or(0);
    let t_session_start = unix_now();
    // sessions run one after the other and the previous transport thread has been stopped
    log.recs.lock().unwrap().clear();
    let script_txt = {
        let mut s = format!("buffer_size={:?} {:?}", buffer, script);
        if s.len() > 6000 {
            let mut cut = 6000;
            while !s.is_char_boundary(cut) {
                cut -= 1;
            }
            s.truncate(cut);
            s.push('…');
        }
        s
    };
    out.count(match buffer {
        None => "buffer none",
        Some(n) if n <= 2 => "buffer 1-2",
        Some(n) if n <= 16 => "buffer 3-16",
        Some(n) if n <= 1024 => "buffer 17-1024",
        _ => "buffer >1024",
    });
    let buf_tok = buffer.map_or("~".to_string(), |n| n.to_string());

    let (rec, port) = match start_exporter(buffer) {
        Ok(x) => x,
        Err(e) => {
            out.op(&format!("tcp init {}", buf_tok), "error build");
            fail(out, &script_txt, "exporter does not start", format!("TcpBuilder::build failed: {}", e));
            return;
        }
    };
    let rec = Arc::new(rec);
    let mine = |recs: &[(u16, Record)]| -> Vec<Record> { recs.iter().filter(|(p, _)| *p == port).map(|(_, r)| r.clone()).collect() };

    // the exporter must start serving for every buffer configuration
    let started = log.wait(WAIT, |recs| if recs.iter().any(|(p, r)| *p == port && *r == Record::Start) { Some(()) } else { None }).is_some();
    if !started {
        // independent probe: a client that connects, a metric, nothing arrives
        let probe = TcpStream::connect_timeout(&([127, 0, 0, 1], port).into(), Duration::from_secs(1));
        let mut got = 0;
        if let Ok(mut s) = probe {
            std::thread::sleep(Duration::from_millis(100));
            apply(&rec, &[], &item(0, "probe"));
            let _ = s.set_read_timeout(Some(Duration::from_millis(500)));
            let mut b = [0u8; 256];
            got = s.read(&mut b).unwrap_or(0);
        }
        out.op(&format!("tcp init {}", buf_tok), "error transport-not-running");
        fail(
            out,
            &script_txt,
            "exporter does not serve",
            format!("buffer_size({:?}): the transport thread never entered its event loop (no Start record within {:?}); a probing client received {} bytes", buffer, WAIT, got),
        );
        return;
    }

    let mut clients: Vec<Client> = vec![];
    let mut emissions: Vec<Emission> = vec![];
    let mut described: Vec<Described> = vec![];
    let mut seqs = [0usize; 3];
    let mut hung: Option<String> = None;
    let mut last_settle = 0usize;
    let emit_lock = Arc::new(Mutex::new(()));
    let mut held: Vec<Option<Held>> = vec![None; NHELD];
    let mut quiets: Vec<QuietSnap> = vec![];
    let mut held_fill_fail: Option<String> = None;

    // -- helpers as closures would fight the borrow checker; plain loops below
    let nsteps = script.len();
    for (si, step) in script.iter().enumerate() {
        if hung.is_some() {
            break;
        }
        match step {
            Step::Pause { ms } => std::thread::sleep(Duration::from_millis(*ms)),
            Step::Settle => {
                if !settle(&rec, log, port) {
                    hung = Some(format!("the transport thread did not finish handling its events within {:?}", WAIT));
                }
                last_settle = si;
            }
            Step::Connect { staller } => {
                out.count(if *staller { "step connect staller" } else { "step connect reader" });
                let (stream, local_port) = match connect_client(port, *staller) {
                    Ok(x) => x,
                    Err(e) => {
                        hung = Some(e);
                        break;
                    }
                };
                let (token, pos) = match wait_accept(log, port, local_port) {
                    Some(x) => x,
                    None => {
                        hung = Some(format!("the exporter did not accept connection #{} within {:?}", clients.len(), WAIT));
                        break;
                    }
                };
                clients.push(new_client(*staller, stream, local_port, token, pos, si, last_settle));
            }
            Step::ConnectMany { stallers } => {
                out.count("step connect several in one listener event");
                // hold the transport thread before its next poll, let the kernel complete the other
                // handshakes, then let it go: one LISTENER event, the accept loop runs once per connection
                let gate = tgate();
                gate.set_mask(HOLD_IDLE);
                let mut socks = vec![];
                let mut failed = None;
                for (k, st) in stallers.iter().enumerate() {
                    match connect_client(port, *st) {
                        Ok(x) => socks.push((*st, x.0, x.1)),
                        Err(e) => {
                            failed = Some(e);
                            break;
                        }
                    }
                    if k == 0 {
                        // the first connection makes the thread run one round of its loop; it parks at `Idle`
                        // (with the first connection accepted or still in the backlog, either is fine)
                        if gate.wait_parked(WAIT).is_none() {
                            failed = Some(format!("the transport thread did not come back to its poll within {:?}", WAIT));
                            break;
                        }
                    }
                }
                gate.release(0);
                if let Some(e) = failed {
                    hung = Some(e);
                    break;
                }
                for (st, stream, local_port) in socks {
                    match wait_accept(log, port, local_port) {
                        Some((token, pos)) => clients.push(new_client(st, stream, local_port, token, pos, si, last_settle)),
                        None => {
                            hung = Some(format!("the exporter did not accept connection #{} (one of {} made at once) within {:?}", clients.len(), stallers.len(), WAIT));
                            break;
                        }
                    }
                }
            }
            Step::Round { steps } => {
                out.count("step poll round (events piled up while the transport thread is held before its poll)");
                let gate = tgate();
                gate.set_mask(HOLD_IDLE);
                let room_for = |rec: &TcpRecorder, k: usize| buffer.map_or(true, |n| rec.verif_queue_len() + k <= n);
                let room = |rec: &TcpRecorder| room_for(rec, 1);
                let mut socks: Vec<(bool, TcpStream, u16)> = vec![];
                let mut failed: Option<String> = None;
                let (mut n_emitted, mut n_conn) = (0usize, 0usize);
                for (k, sub) in steps.iter().enumerate() {
                    match sub {
                        Step::Connect { staller } => match connect_client(port, *staller) {
                            Ok(x) => {
                                n_conn += 1;
                                socks.push((*staller, x.0, x.1))
                            }
                            Err(e) => failed = Some(e),
                        },
                        Step::Describe { kind, name, unit, desc } => {
                            if room(&rec) {
                                let u = do_describe(&rec, *kind, name, *unit, desc);
                                described.push(Described { step: si, name: name.clone(), kind: *kind, unit: u.map(|u| u.as_str().to_string()), desc: desc.clone() });
                            }
                        }
                        Step::Emit { items } => {
                            ensure_held(&rec, &mut held, items);
                            for it in items {
                                let it = &clamp_many(it, buffer);
                                if !room_for(&rec, it.reps().max(1)) {
                                    break;
                                }
                                let q0 = rec.verif_queue_len();
                                apply(&rec, &held, it);
                                // the transport thread is held: the channel grows by exactly what was emitted within its room
                                let q1 = rec.verif_queue_len();
                                let gate_open = clients.iter().any(|c| c.end == End::Open);
                                if gate_open && held_fill_fail.is_none() && q1 != q0 + it.reps() {
                                    held_fill_fail = Some(format!(
                                        "step {}: the transport thread is held before its poll, the channel held {} event(s) (buffer_size {:?}), a client is connected; an emission owing {} event(s) left the channel at {} instead of {}",
                                        si, q0, buffer, it.reps(), q1, q0 + it.reps()
                                    ));
                                }
                                if it.many.is_some() {
                                    out.count(&format!("emitted through record_many(v, {})", it.reps()));
                                }
                                emissions.push(Emission { step: si, thread: 0, seq: seqs[0], item: it.clone() });
                                seqs[0] += 1;
                                n_emitted += 1;
                                out.count("emitted");
                                out.count("emitted while the transport thread was held (one batch)");
                            }
                        }
                        Step::Close { c } | Step::Reset { c } => {
                            if !clients.is_empty() {
                                let reset = matches!(sub, Step::Reset { .. });
                                let k = c % clients.len();
                                let cl = &mut clients[k];
                                if cl.end == End::Open {
                                    out.count(if reset { "step reset" } else { "step close" });
                                    do_close(cl, reset, si, log);
                                }
                            }
                        }
                        _ => {}
                    }
                    if failed.is_some() {
                        break;
                    }
                    if k == 0 && gate.wait_parked(WAIT).is_none() {
                        // the first sub-step makes the thread run one round of its loop; it parks at `Idle`
                        failed = Some(format!("the transport thread did not come back to its poll within {:?}", WAIT));
                        break;
                    }
                }
                if n_conn > 0 && n_emitted > 0 {
                    out.count("poll round with a connect and a batch");
                }
                gate.release(0);
                if let Some(e) = failed {
                    hung = Some(e);
                    break;
                }
                for (st, stream, local_port) in socks {
                    match wait_accept(log, port, local_port) {
                        Some((token, pos)) => clients.push(new_client(st, stream, local_port, token, pos, si, last_settle)),
                        None => {
                            hung = Some(format!("the exporter did not accept connection #{} (made while the transport thread was held) within {:?}", clients.len(), WAIT));
                            break;
                        }
                    }
                }
                let want = described.len();
                if hung.is_none()
                    && log.wait(WAIT, |recs| if recs.iter().filter(|(p, r)| *p == port && matches!(r, Record::IngestMetadata { .. })).count() >= want { Some(()) } else { None }).is_none()
                {
                    hung = Some(format!("describe #{} was not ingested by the transport thread within {:?}", want, WAIT));
                }
            }
            Step::HalfClose { c } | Step::Send { c, .. } => {
                if clients.is_empty() {
                    continue;
                }
                let k = c % clients.len();
                let cl = &mut clients[k];
                if cl.end != End::Open {
                    continue;
                }
                if let Some(s) = cl.stream.as_ref() {
                    match step {
                        Step::HalfClose { .. } => {
                            out.count("step half-close (client keeps reading)");
                            let _ = s.shutdown(std::net::Shutdown::Write);
                        }
                        Step::Send { n, .. } => {
                            out.count("step client sends bytes to the exporter");
                            cl.talked.store(true, Ordering::SeqCst);
                            let _ = s.set_write_timeout(Some(Duration::from_millis(200)));
                            let mut w: &TcpStream = s;
                            let _ = std::io::Write::write(&mut w, &vec![0x2au8; *n]);
                        }
                        _ => {}
                    }
                }
            }
            Step::RegisterHeld { j } => {
                out.count("step register long-lived handle");
                register_held(&rec, &mut held, *j);
            }
            Step::Describe { kind, name, unit, desc } => {
                out.count("step describe");
                if !pace(&rec, buffer, 1) {
                    hung = Some("the channel to the transport thread stays full (describe)".into());
                    break;
                }
                let u = unit.map(|i| UNITS[i]);
                let (kn, d): (KeyName, SharedString) = (KeyName::from(name.clone()), SharedString::from(desc.clone()));
                match kind {
                    0 => rec.describe_counter(kn, u, d),
                    1 => rec.describe_gauge(kn, u, d),
                    _ => rec.describe_histogram(kn, u, d),
                }
                // settle: the transport has taken it from the channel and recorded it
                let want = described.len() + 1;
                let ok = log
                    .wait(WAIT, |recs| if recs.iter().filter(|(p, r)| *p == port && matches!(r, Record::IngestMetadata { .. })).count() >= want { Some(()) } else { None })
                    .is_some();
                if !ok {
                    hung = Some(format!("describe #{} was not ingested by the transport thread within {:?}", want, WAIT));
                    break;
                }
                described.push(Described { step: si, name: name.clone(), kind: *kind, unit: u.map(|u| u.as_str().to_string()), desc: desc.clone() });
            }
            Step::Emit { items } => {
                out.count("step emit");
                ensure_held(&rec, &mut held, items);
                for it in items {
                    let it = &clamp_many(it, buffer);
                    if !pace(&rec, buffer, it.reps().max(1)) {
                        hung = Some("the channel to the transport thread stays full (emit)".into());
                        break;
                    }
                    if it.held.is_some() {
                        out.count("emitted through a long-lived handle");
                    }
                    if it.many.is_some() {
                        out.count(&format!("emitted through record_many(v, {})", it.reps()));
                    }
                    apply(&rec, &held, it);
                    emissions.push(Emission { step: si, thread: 0, seq: seqs[0], item: it.clone() });
                    seqs[0] += 1;
                    out.count("emitted");
                }
            }
            Step::Burst { a, b } => {
                out.count("step burst (2 threads)");
                let stuck = Arc::new(AtomicBool::new(false));
                ensure_held(&rec, &mut held, a);
                ensure_held(&rec, &mut held, b);
                std::thread::scope(|sc| {
                    for list in [a, b] {
                        let rec = rec.clone();
                        let held = held.clone();
                        let stuck = stuck.clone();
                        let lock = emit_lock.clone();
                        sc.spawn(move || {
                            for it in list {
                                let it = &clamp_many(it, buffer);
                                // small buffers: one emitter at a time may use the last slots; large: lock-free, headroom for both threads
                                let small = buffer.map_or(false, |n| n < 16);
                                let _g = if small { Some(lock.lock().unwrap()) } else { None };
                                let k = it.reps().max(1);
                                if !pace(&rec, buffer, if small { k } else { k + 5 }) {
                                    stuck.store(true, Ordering::SeqCst);
                                    return;
                                }
                                apply(&rec, &held, it);
                            }
                        });
                    }
                });
                if stuck.load(Ordering::SeqCst) {
                    hung = Some("the channel to the transport thread stays full (burst)".into());
                    break;
                }
                for (t, list) in [(1usize, a), (2usize, b)] {
                    for it in list {
                        let it = &clamp_many(it, buffer);
                        emissions.push(Emission { step: si, thread: t, seq: seqs[t], item: it.clone() });
                        seqs[t] += 1;
                        out.count("emitted");
                    }
                }
            }
            Step::Close { c } | Step::Reset { c } => {
                if clients.is_empty() {
                    continue;
                }
                let reset = matches!(step, Step::Reset { .. });
                let k = c % clients.len();
                let cl = &mut clients[k];
                if cl.end != End::Open {
                    continue;
                }
                out.count(if reset { "step reset" } else { "step close" });
                cl.closed_step = si;
                cl.closed_pos = log.len();
                cl.end = if reset { End::Reset } else { End::Closed };
                if let Some(s) = cl.stream.take() {
                    if reset {
                        let _ = socket2::SockRef::from(&s).set_linger(Some(Duration::from_secs(0)));
                    }
                    let _ = s.shutdown(std::net::Shutdown::Both);
                    drop(s);
                }
                if let Some(h) = cl.reader.take() {
                    let _ = h.join();
                }
            }
            Step::Inject { c, faults } => {
                if clients.is_empty() {
                    continue;
                }
                let cl = &clients[c % clients.len()];
                if cl.end != End::Open {
                    continue;
                }
                out.count("step inject");
                for f in faults {
                    verif::inject(port, cl.token, *f);
                }
            }
            Step::Quiet { unstall } => {
                out.count("step quiet (the emitters go quiet, reading clients must come to hold everything)");
                if !settle(&rec, log, port) {
                    hung = Some(format!("the transport thread did not finish handling its events within {:?}", WAIT));
                    break;
                }
                last_settle = si;
                quiets.push(quiet_check(&mut clients, log, port, si, *unstall, out));
            }
            Step::Unstall { c } => {
                if clients.is_empty() {
                    continue;
                }
                let k = c % clients.len();
                if clients[k].end == End::Open && clients[k].reader.is_none() {
                    out.count("step unstall");
                    spawn_reader(&mut clients[k]);
                }
            }
        }
    }

    // -- flush: every open client reads, one last metric, wait until each open client's queue is empty
    let sentinel = Item { name: format!("__last__{}", port), labels: vec![], op: 5, bits: 42, held: None, many: None };
    let mut sentinel_sent = false;
    if hung.is_none() && !settle(&rec, log, port) {
        hung = Some(format!("the transport thread did not finish handling its events within {:?}", WAIT));
    }
    if hung.is_none() {
        verif::clear_faults(port);
        for c in clients.iter_mut() {
            if c.end == End::Open {
                spawn_reader(c);
            }
        }
        // the emitters are quiet now: before the final metric comes to anybody's rescue, every open client (all
        // of them read from here on) must come to hold what was fanned out to it
        quiets.push(quiet_check(&mut clients, log, port, nsteps, true, out));
        let open: Vec<usize> = clients.iter().filter(|c| c.end == End::Open).map(|c| c.token).collect();
        if !open.is_empty() {
            if !pace(&rec, buffer, 1) {
                hung = Some("the channel to the transport thread stays full (final metric)".into());
            } else {
                apply(&rec, &[], &sentinel);
                emissions.push(Emission { step: nsteps, thread: 0, seq: seqs[0], item: sentinel.clone() });
                sentinel_sent = true;
                let body_mark = sentinel.name.as_bytes().to_vec();
                let ok = log.wait(Duration::from_secs(10), |recs| {
                    // after the fan-out that carries the sentinel, the last DriveEnd of every open token shows an empty queue
                    let mut seen = false;
                    let mut idle: HashMap<usize, bool> = HashMap::new();
                    for (p, r) in recs.iter() {
                        if *p != port {
                            continue;
                        }
                        match r {
                            Record::Fanout { frames } if frames.iter().any(|f| f.windows(body_mark.len()).any(|w| w == &body_mark[..])) => seen = true,
                            Record::DriveEnd { token, done, wbuf, msgs } if seen => {
                                idle.insert(*token, *done || (wbuf.is_none() && *msgs == 0));
                            }
                            Record::Disconnect { token } if seen => {
                                idle.insert(*token, true);
                            }
                            _ => {}
                        }
                    }
                    if seen && open.iter().all(|t| idle.get(t).copied().unwrap_or(false)) {
                        Some(())
                    } else {
                        None
                    }
                });
                if ok.is_none() {
                    hung = Some("the final metric did not reach every connected, reading client within 10 s (gate closed or delivery stalled)".into());
                }
            }
        }
    }

    // -- clients that sent bytes to the exporter get a reset instead of a FIN when the exporter closes (unread
    //    inbound data): let their readers take everything that was written to them first
    if hung.is_none() && clients.iter().any(|c| c.end == End::Open && c.talked.load(Ordering::SeqCst)) {
        let written: HashMap<usize, usize> = {
            let g = log.recs.lock().unwrap();
            let mut m = HashMap::new();
            for (p, r) in g.iter() {
                if let (true, Record::WriteResult { token, outcome: WriteOutcome::Ok(n), .. }) = (*p == port, r) {
                    *m.entry(*token).or_insert(0) += *n;
                }
            }
            m
        };
        let deadline = Instant::now() + WAIT;
        for c in clients.iter().filter(|c| c.end == End::Open && c.talked.load(Ordering::SeqCst)) {
            let want = written.get(&c.token).copied().unwrap_or(0);
            while c.data.lock().unwrap().len() < want && Instant::now() < deadline {
                std::thread::sleep(Duration::from_millis(1));
            }
        }
    }

    // -- stop the transport thread (hook) and let every reader run into EOF
    verif::request_stop(port);
    rec.describe_counter(KeyName::from("__stop__"), None, SharedString::from(""));
    let stopped = log.wait(WAIT, |recs| if recs.iter().any(|(p, r)| *p == port && *r == Record::Stop) { Some(()) } else { None }).is_some();
    if !stopped && hung.is_none() {
        hung = Some(format!("the transport thread did not react to a wake-up within {:?} (hung or dead)", WAIT));
    }
    for c in clients.iter_mut() {
        if c.end == End::Open {
            if stopped {
                if let Some(h) = c.reader.take() {
                    let _ = h.join();
                }
            } else {
                // do not wait for a thread that will never see EOF
                if let Some(s) = c.stream.take() {
                    let _ = s.shutdown(std::net::Shutdown::Both);
                }
                if let Some(h) = c.reader.take() {
                    let _ = h.join();
                }
            }
        }
    }
    let t_session_end = unix_now();
    let trace: Vec<Record> = {
        let g = log.recs.lock().unwrap();
        mine(&g)
    };
    let trace_pos: Vec<usize> = {
        let g = log.recs.lock().unwrap();
        g.iter().enumerate().filter(|(_, (p, _))| *p == port).map(|(i, _)| i).collect()
    };

    // ------------------------------------------------------------------------------------------
    // trace → model ops with the implementation's answers
    out.op(&format!("tcp init {}", buf_tok), "ok");
    let mut key_ids: HashMap<String, usize> = HashMap::new();
    let mut frame_ids: HashMap<Vec<u8>, usize> = HashMap::new();
    let mut next_fid = 0usize;
    let name_of = |frame: &[u8]| -> Option<String> {
        match dec_stream(frame) {
            (evs, 0, None) if evs.len() == 1 => match &evs[0] {
                Ev::Meta { name, .. } => Some(name.clone()),
                _ => None,
            },
            _ => None,
        }
    };
    enum Cur {
        None,
        Wake { metas: Vec<String>, frames: Option<Vec<String>>, toks: BTreeMap<usize, TokLog>, in_drive: Option<usize> },
        Accept { token: usize, keys: Vec<String>, bytes: usize },
        Writable { token: usize, d: DriveLog },
    }
    let mut cur = Cur::None;
    let mut accepted_bytes: BTreeMap<usize, Vec<u8>> = BTreeMap::new(); // what each socket took from us, by token
    let mut pending_attempt: Option<(usize, Vec<u8>)> = None;
    let mut accepts = 0usize;
    let mut removed = 0usize;
    let mut had_drop: HashSet<usize> = HashSet::new();
    let mut disconnected: HashSet<usize> = HashSet::new();
    let mut gate_fail: Option<String> = None;
    let mut malformed: Option<String> = None;
    let mut nonfull = 0usize;
    // per token: the last `write` of the CURRENT wake-up's fan-out was not taken whole (WouldBlock / short write)
    let mut refused_now: HashMap<usize, bool> = HashMap::new();
    let mut undue_drop: Option<String> = None;
    for (ti, r) in trace.iter().enumerate() {
        match r {
            Record::Start | Record::Recv | Record::Stop | Record::Idle => {}
            Record::Snapshot { client_count, should_send } => {
                let cc = format!("cc={} ss={}", client_count, *should_send as u8);
                match std::mem::replace(&mut cur, Cur::None) {
                    Cur::None => {}
                    Cur::Wake { metas, frames, toks, .. } => {
                        let res = list(toks.iter().map(|(t, l)| {
                            let rs: Vec<String> = l.drives.iter().flat_map(|d| d.results.iter().cloned()).collect();
                            format!("{}/{}", t, if rs.is_empty() { "-".to_string() } else { rs.join(".") })
                        }));
                        let op = format!("tcp wake {} {} {}", list(metas), list(frames.clone().unwrap_or_default()), res);
                        let mut ans = cc.clone();
                        for (t, l) in toks.iter() {
                            ans.push_str(&format!(" {}={}", t, l.drives.first().map_or("?".to_string(), |d| d.show())));
                            if l.drives.len() > 1 {
                                ans.push_str(&format!(";x{};e{};{}", l.dropped, l.enq, l.drives[1].show()));
                            } else if !l.drives.first().and_then(|d| d.end).map_or(false, |e| e.0) {
                                ans.push_str(" <second drive missing>");
                            }
                        }
                        out.op(&op, &ans);
                    }
                    Cur::Accept { token, keys, bytes } => {
                        out.op(&format!("tcp accept {}", list(keys.clone())), &format!("{} tok={} enq={} bytes={} permok=1", cc, token, keys.len(), bytes));
                    }
                    Cur::Writable { token, d } => {
                        out.op(&format!("tcp writable {} {}", token, if d.results.is_empty() { "-".to_string() } else { d.results.join(".") }), &format!("{} {}={}", cc, token, d.show()));
                    }
                }
                // gate oracle: accounting and the lower bound given by the clients the harness holds open
                let pos = trace_pos[ti];
                let held = clients.iter().filter(|c| c.accepted_pos <= pos && pos < c.closed_pos).count();
                let want = accepts.wrapping_sub(removed);
                if gate_fail.is_none() && (*client_count != want || *should_send != (want > 0) || (held > 0 && !*should_send)) {
                    gate_fail = Some(format!(
                        "trace record #{}: client_count={} should_send={} but {} connections were accepted and {} removed (expected client_count={}, should_send={}); the harness holds {} accepted, open clients at that moment",
                        ti, client_count, should_send, accepts, removed, want, want > 0, held
                    ));
                }
            }
            Record::Wake => {
                refused_now.clear();
                cur = Cur::Wake { metas: vec![], frames: None, toks: BTreeMap::new(), in_drive: None }
            }
            Record::IngestMetadata { frame } => {
                if let Cur::Wake { metas, .. } = &mut cur {
                    let name = name_of(frame).unwrap_or_else(|| {
                        malformed = Some(format!("IngestMetadata frame does not decode: {}", hex(frame)));
                        String::new()
                    });
                    let n = key_ids.len();
                    let k = *key_ids.entry(name).or_insert(n);
                    let fid = *frame_ids.entry(frame.clone()).or_insert_with(|| {
                        next_fid += 1;
                        next_fid - 1
                    });
                    metas.push(format!("{}/{}/{}", k, fid, hex(frame)));
                } else {
                    malformed = Some("IngestMetadata outside a wake".into());
                }
            }
            Record::Fanout { frames } => {
                if let Cur::Wake { frames: fs, .. } = &mut cur {
                    *fs = Some(
                        frames
                            .iter()
                            .map(|f| {
                                next_fid += 1;
                                format!("{}/{}", next_fid - 1, hex(f))
                            })
                            .collect(),
                    );
                } else {
                    malformed = Some("Fanout outside a wake".into());
                }
            }
            Record::Accept { token, .. } => {
                accepts += 1;
                accepted_bytes.entry(*token).or_default();
                cur = Cur::Accept { token: *token, keys: vec![], bytes: 0 };
            }
            Record::Enqueue { token, frame } => match &mut cur {
                Cur::Accept { keys, bytes, .. } => {
                    let name = name_of(frame).unwrap_or_default();
                    keys.push(key_ids.get(&name).map_or("?".to_string(), |k| k.to_string()));
                    *bytes += frame.len();
                }
                Cur::Wake { toks, .. } => toks.entry(*token).or_default().enq += 1,
                _ => malformed = Some("Enqueue outside accept/wake".into()),
            },
            Record::DropOldest { token, count } => {
                // (a discard for a client that is not slow excuses nothing: the stream oracles below then still
                // demand the metadata known at connect and every later metric from its stream)
                if refused_now.get(token).copied().unwrap_or(false) {
                    had_drop.insert(*token);
                }
                out.count_n("frames discarded for a slow client", *count as u64);
                // only a SLOW client may have older messages discarded: one whose socket, asked in this very
                // fan-out, did not take what it was offered.  A client that has just been accepted (metadata
                // queued, never written to) or whose parked buffer the socket would take now is not slow.
                if !refused_now.get(token).copied().unwrap_or(false) && undue_drop.is_none() {
                    undue_drop = Some(format!(
                        "trace record #{}: {} queued frame(s) discarded for token {} although in this fan-out its socket had not refused anything ({}); the queue held metadata/frames a healthy client is owed",
                        ti,
                        count,
                        token,
                        if refused_now.contains_key(token) { "its last write was taken whole" } else { "no write was attempted on it before the discard" }
                    ));
                }
                if let Cur::Wake { toks, .. } = &mut cur {
                    toks.entry(*token).or_default().dropped += count;
                } else {
                    malformed = Some("DropOldest outside a wake".into());
                }
            }
            Record::Drive { token } => match &mut cur {
                Cur::Wake { toks, in_drive, .. } => {
                    toks.entry(*token).or_default().drives.push(DriveLog::default());
                    *in_drive = Some(*token);
                }
                _ => cur = Cur::Writable { token: *token, d: DriveLog::default() },
            },
            Record::WriteAttempt { token, buf } => {
                pending_attempt = Some((*token, buf.clone()));
                match &mut cur {
                    Cur::Wake { toks, .. } => {
                        if let Some(d) = toks.entry(*token).or_default().drives.last_mut() {
                            d.attempts.push(buf.len())
                        }
                    }
                    Cur::Writable { d, .. } => d.attempts.push(buf.len()),
                    _ => malformed = Some("write outside a drive".into()),
                }
            }
            Record::WriteResult { token, outcome, injected } => {
                let full = matches!((outcome, &pending_attempt), (WriteOutcome::Ok(n), Some((_, b))) if *n == b.len());
                if !full {
                    nonfull += 1;
                }
                refused_now.insert(*token, !full);
                out.count(&format!(
                    "write {}{}",
                    match outcome {
                        WriteOutcome::Ok(_) if full => "whole buffer",
                        WriteOutcome::Ok(_) => "short",
                        WriteOutcome::WouldBlock => "WouldBlock",
                        WriteOutcome::Interrupted => "Interrupted",
                        WriteOutcome::Err(_) => "error",
                    },
                    if *injected { " (injected)" } else { "" }
                ));
                if let (WriteOutcome::Ok(n), Some((t, b))) = (outcome, pending_attempt.take()) {
                    if t == *token {
                        accepted_bytes.entry(t).or_default().extend_from_slice(&b[..(*n).min(b.len())]);
                    }
                }
                let s = wres(outcome);
                match &mut cur {
                    Cur::Wake { toks, .. } => {
                        if let Some(d) = toks.entry(*token).or_default().drives.last_mut() {
                            d.results.push(s)
                        }
                    }
                    Cur::Writable { d, .. } => d.results.push(s),
                    _ => {}
                }
            }
            Record::DriveEnd { token, done, wbuf, msgs } => match &mut cur {
                Cur::Wake { toks, in_drive, .. } => {
                    if let Some(d) = toks.entry(*token).or_default().drives.last_mut() {
                        d.end = Some((*done, *wbuf, *msgs));
                    }
                    *in_drive = None;
                }
                Cur::Writable { d, .. } => d.end = Some((*done, *wbuf, *msgs)),
                _ => {}
            },
            Record::Disconnect { token } => {
                disconnected.insert(*token);
                removed += 1;
                out.count("client removed by the exporter");
            }
        }
    }
    // bytes each socket accepted: model vs what the client really read (EOF-drained) / the trace (others)
    for c in clients.iter() {
        let read = c.data.lock().unwrap().clone();
        let cut_by_reset = c.talked.load(Ordering::SeqCst) && read.len() < accepted_bytes.get(&c.token).map_or(0, |b| b.len());
        let drained = c.end == End::Open && c.eof.load(Ordering::SeqCst) && stopped && !cut_by_reset;
        let imp = if drained { read.clone() } else { accepted_bytes.get(&c.token).cloned().unwrap_or_default() };
        out.op(&format!("tcp received {}", c.token), &hex(&imp));
    }
    if clients.len() >= 2 && nonfull > 0 && !emissions.is_empty() {
        out.nontrivial();
    }

    // ------------------------------------------------------------------------------------------
    // oracles
    if let Some(h) = &hung {
        fail(out, &script_txt, "exporter stopped serving", h.clone());
    }
    if let Some(m) = &malformed {
        fail(out, &script_txt, "trace malformed", m.clone());
    }
    if let Some(d) = &held_fill_fail {
        fail(out, &script_txt, "emission within the configured buffer not accepted by the channel", d.clone());
    }
    if let Some(d) = &undue_drop {
        fail(out, &script_txt, "frames discarded for a client that is not slow", d.clone());
    }
    if let Some(g) = &gate_fail {
        fail(out, &script_txt, "gate out of step with the connected clients", g.clone());
    }
    // identity → emission
    // (emissions through a long-lived handle share their key; the value tells them apart)
    let ident = |name: &str, labels: &BTreeMap<String, String>, bits: u64| -> String { ident_of(name, labels, bits) };
    let mut by_ident: HashMap<String, usize> = HashMap::new();
    for (i, e) in emissions.iter().enumerate() {
        let labels: BTreeMap<String, String> = e.item.labels.iter().cloned().collect();
        by_ident.insert(ident(&e.item.name, &labels, e.item.bits), i);
    }
    // a client the harness never closed (it reads, or will read at the end; it may have shut down its sending
    // half or sent bytes) must never be removed by the exporter
    for (ci, c) in clients.iter().enumerate() {
        if c.end == End::Open && disconnected.contains(&c.token) {
            fail(
                out,
                &script_txt,
                "exporter dropped a connected client",
                format!("client #{} (token {}) was never closed or reset by the harness (half-closed/sent bytes: {}), yet the exporter removed it from its client table", ci, c.token, c.talked.load(Ordering::SeqCst)),
            );
        }
    }
    for (ci, c) in clients.iter().enumerate() {
        let read = c.data.lock().unwrap().clone();
        let taken = accepted_bytes.get(&c.token).cloned().unwrap_or_default();
        let cut_by_reset = c.talked.load(Ordering::SeqCst) && read.len() < taken.len();
        let drained = c.end == End::Open && c.eof.load(Ordering::SeqCst) && stopped && !cut_by_reset;
        let who = format!("client #{} (token {}, {}{:?})", ci, c.token, if c.staller { "staller, " } else { "reader, " }, c.end);
        // what the client read is what the socket took (prefix while the client left early)
        if drained && read != taken {
            fail(out, &script_txt, "bytes read differ from bytes written", format!("{}: read {} bytes, the exporter's writes add up to {} bytes", who, read.len(), taken.len()));
        } else if !drained && !taken.starts_with(&read) {
            fail(out, &script_txt, "bytes read differ from bytes written", format!("{}: the {} bytes read are not a prefix of the {} bytes written", who, read.len(), taken.len()));
        }
        // the stream the socket accepted is the longest view we have of what this client was sent
        let stream = if drained { &read } else { &taken };
        let (evs, rest, err) = dec_stream(stream);
        if let Some(e) = err {
            fail(out, &script_txt, "stream is not a concatenation of whole frames", format!("{}: {} ; stream = {}", who, e, hex(&stream[..stream.len().min(400)])));
            continue;
        }
        if drained && rest > 0 {
            fail(out, &script_txt, "stream ends inside a frame", format!("{}: {} trailing bytes after the last whole frame although the client's queue was reported empty", who, rest));
        }
        out.count_n("frames decoded", evs.len() as u64);
        // metadata first, and it is the metadata known at connect
        let first_metric = evs.iter().position(|e| matches!(e, Ev::Metric { .. })).unwrap_or(evs.len());
        if let Some(p) = evs.iter().skip(first_metric).position(|e| matches!(e, Ev::Meta { .. })) {
            fail(out, &script_txt, "metadata after metrics", format!("{}: frame #{} is metadata but frame #{} already was a metric", who, first_metric + p, first_metric));
        }
        let mut must: BTreeMap<String, &Described> = BTreeMap::new();
        for d in described.iter().filter(|d| d.step < c.connect_step) {
            must.insert(d.name.clone(), d);
        }
        let mut seen_meta: HashSet<String> = HashSet::new();
        for e in evs.iter() {
            if let Ev::Meta { name, ty, unit, desc } = e {
                if !seen_meta.insert(name.clone()) {
                    fail(out, &script_txt, "duplicated frame", format!("{}: metadata for {:?} twice", who, name));
                }
                // described in the same poll round as the connect: may be known at accept, or not
                let same_round = described.iter().filter(|d| d.step == c.connect_step && d.name == *name).any(|d| *ty == d.kind as u64 && *unit == d.unit && desc.as_deref() == Some(d.desc.as_str()));
                if same_round {
                    continue;
                }
                match must.get(name) {
                    Some(d) => {
                        if *ty != d.kind as u64 || *unit != d.unit || desc.as_deref() != Some(d.desc.as_str()) {
                            fail(
                                out,
                                &script_txt,
                                "metadata not as described",
                                format!("{}: {:?} arrived as type {} unit {:?} desc {:?}, last described before connect as type {} unit {:?} desc {:?}", who, name, ty, unit, desc, d.kind, d.unit, d.desc),
                            );
                        }
                    }
                    None => fail(out, &script_txt, "metadata not as described", format!("{}: metadata for {:?} which was not described before this client connected", who, name)),
                }
            }
        }
        let complete_view = drained || (c.end == End::Open && !had_drop.contains(&c.token));
        if !had_drop.contains(&c.token) && (drained || evs.len() > seen_meta.len()) {
            for name in must.keys() {
                if !seen_meta.contains(name) {
                    fail(out, &script_txt, "metadata known at connect is missing", format!("{}: {:?} was described before the client connected but is not at the head of its stream", who, name));
                }
            }
        }
        // metrics: intact, once, in order
        let mut seen: HashMap<usize, usize> = HashMap::new();
        let mut last_seq = [None::<usize>; 3];
        let mut last_step = 0usize;
        for (fi, e) in evs.iter().enumerate() {
            if let Ev::Metric { name, labels, op, bits, has_ts, secs } = e {
                // every frame carries the wall-clock time at which it was encoded
                if *has_ts && (*secs + 5 < t_session_start || *secs > t_session_end + 5) {
                    fail(out, &script_txt, "metric not intact", format!("{}: frame #{} ({:?}) carries timestamp {} s, the session ran from {} s to {} s (unix time)", who, fi, name, secs, t_session_start, t_session_end));
                }
                let id = ident(name, labels, *bits);
                let i = match by_ident.get(&id) {
                    Some(i) => *i,
                    None => {
                        fail(out, &script_txt, "metric not intact", format!("{}: frame #{} carries name {:?} labels {:?}, which no emission had", who, fi, name, labels));
                        continue;
                    }
                };
                let em = &emissions[i];
                if *op != em.item.op || *bits != em.item.bits || !*has_ts {
                    fail(
                        out,
                        &script_txt,
                        "metric not intact",
                        format!("{}: frame #{} ({:?}) has operation field {} value bits {:016x} timestamp {}, emitted as field {} bits {:016x}", who, fi, name, op, bits, has_ts, em.item.op, em.item.bits),
                    );
                }
                let cnt = seen.entry(i).or_insert(0);
                *cnt += 1;
                if *cnt > em.item.reps() {
                    fail(out, &script_txt, "duplicated frame", format!("{}: emission {:?} (thread {} #{}, owed {} frame(s)) arrives for the {}. time at frame #{}", who, name, em.thread, em.seq, em.item.reps(), *cnt, fi));
                }
                if last_seq[em.thread].map_or(false, |s| s > em.seq || (s == em.seq && em.item.reps() < 2)) || em.step < last_step {
                    fail(out, &script_txt, "metrics out of emission order", format!("{}: frame #{} is emission #{} of thread {} (step {}) after #{:?} (step {})", who, fi, em.seq, em.thread, em.step, last_seq[em.thread], last_step));
                }
                last_seq[em.thread] = Some(em.seq);
                last_step = last_step.max(em.step);
                if em.step < c.floor_step {
                    fail(
                        out,
                        &script_txt,
                        "metric from before the connection",
                        format!("{}: frame #{} was emitted at step {} and fanned out by step {}, but the client connected at step {}", who, fi, em.step, c.floor_step, c.connect_step),
                    );
                }
            }
        }
        // nothing missing for a client that stayed connected and never had a frame discarded
        if drained && !had_drop.contains(&c.token) && hung.is_none() {
            let missing: Vec<String> =
                emissions
                    .iter()
                    .enumerate()
                    .filter(|(i, e)| e.step > c.accepted_step && seen.get(i).copied().unwrap_or(0) < e.item.reps())
                    .map(|(i, e)| format!("thread {} #{} (step {}) {:?} ({} of {} frame(s) arrived{})", e.thread, e.seq, e.step, e.item.name, seen.get(&i).copied().unwrap_or(0), e.item.reps(), if e.item.many.is_some() { ", record_many" } else { "" }))
                    .collect();
            if !missing.is_empty() {
                fail(
                    out,
                    &script_txt,
                    "metric missing for a connected, reading client",
                    format!("{}: accepted at step {}, never closed, nothing discarded for it, yet {} of the later emissions never arrived: {}", who, c.accepted_step, missing.len(), missing[..missing.len().min(6)].join("; ")),
                );
            }
            if sentinel_sent && !matches!(evs.last(), Some(Ev::Metric { name, .. }) if *name == sentinel.name) {
                fail(out, &script_txt, "metric missing for a connected, reading client", format!("{}: the final metric is not the last frame of its stream", who));
            }
        }
        // the quiet oracle: what this client held when the emitters had gone quiet (see `quiet_check`)
        for q in quiets.iter() {
            if hung.is_some() {
                break;
            }
            let qc = match q.clients.iter().find(|x| x.ci == ci) {
                Some(x) => x,
                None => continue,
            };
            if qc.artefact.is_some() {
                continue;
            }
            let when = if q.step == nsteps { "at the end of the script".to_string() } else { format!("at script step {}", q.step) };
            let (qevs, _, _) = dec_stream(&qc.data);
            let held_ids: HashSet<usize> = qevs
                .iter()
                .filter_map(|e| match e {
                    Ev::Metric { name, labels, bits, .. } => by_ident.get(&ident(name, labels, *bits)).copied(),
                    _ => None,
                })
                .collect();
            let missing: Vec<String> = if had_drop.contains(&c.token) {
                vec![]
            } else {
                emissions
                    .iter()
                    .enumerate()
                    .filter(|(i, e)| e.step > c.accepted_step && e.step < q.step && e.item.reps() > 0 && !held_ids.contains(i))
                    .map(|(_, e)| format!("thread {} #{} (step {}) {:?}", e.thread, e.seq, e.step, e.item.name))
                    .collect()
            };
            if !qc.reached || !missing.is_empty() {
                let last = qc.target.as_ref().map(|f| match dec_stream(f) {
                    (evs, _, None) if evs.len() == 1 => match &evs[0] {
                        Ev::Metric { name, labels, .. } => format!("metric {:?} {:?}", name, labels),
                        Ev::Meta { name, .. } => format!("metadata {:?}", name),
                    },
                    _ => "<undecodable>".to_string(),
                });
                fail(
                    out,
                    &script_txt,
                    "metric stranded when the emitters went quiet",
                    format!(
                        "{}: the emitters went quiet {} (transport thread back in poll, channel empty); the client is connected and reading, its last write was neither an injected WouldBlock nor an injected short write, yet after {:?} it holds {} bytes / {} metric frames which {} the last frame fanned out to it ({}); emissions made while it was connected that it does not hold: {} [{}]",
                        who,
                        when,
                        q.waited,
                        qc.data.len(),
                        held_ids.len(),
                        if qc.reached { "end with" } else { "do NOT end with" },
                        last.unwrap_or_else(|| "none".to_string()),
                        missing.len(),
                        missing[..missing.len().min(6)].join("; ")
                    ),
                );
            }
        }
        let _ = complete_view;
        let _ = c.local_port;
        let _ = c.closed_step;
    }
}

// ---------------------------------------------------------------------------------------------
// producer / transport interleavings ("race" cases, model `tcpq` = Model/TcpProd.lean)
//
// One real exporter per configuration.  Emitting threads run the real `Handle::increment` →
// `State::push_metric` and park at their yield points:
//   `tcp:should_send` (hook, before the gate load), `clone` (allocator trap inside `key.clone()`, i.e. after
//   the gate load and before `try_send`), `tcp:wake` (hook, before `waker.wake()`);
// the transport thread parks at its trace records `Idle` / `Wake` / `Recv` (see `TGate`).  A schedule (list of
// thread ids) grants one step at a time; the same schedule is replayed on the Lean step machine and every
// step's observation (yield point reached, channel length, wake-up pending, batch fanned out) is compared.
// Oracle: when nothing can move any more (all emitters returned, transport back at its poll, no wake-up
// pending) the channel must be empty — otherwise a metric was enqueued and nobody will ever wake the
// transport for it.  Before reporting, the transport thread is let run freely for `STUCK_WAIT`.

const TRAP_LEN: usize = 1543;
const STUCK_WAIT: Duration = Duration::from_secs(3);
static CONFIRMED_STUCK: std::sync::atomic::AtomicUsize = std::sync::atomic::AtomicUsize::new(0);

struct EmS {
    at: Vec<Option<&'static str>>,
    done: Vec<bool>,
    grant: Vec<u64>,
    /// `wake()` was called by a thread that is not a managed emitter (the transport's self-wake, a describe)
    unmanaged_wake: bool,
}

struct EmCtl {
    st: Mutex<EmS>,
    cv: Condvar,
}

fn emctl() -> &'static EmCtl {
    static C: OnceLock<EmCtl> = OnceLock::new();
    C.get_or_init(|| EmCtl { st: Mutex::new(EmS { at: vec![], done: vec![], grant: vec![], unmanaged_wake: false }), cv: Condvar::new() })
}

thread_local! {
    static EM_ID: std::cell::Cell<Option<usize>> = const { std::cell::Cell::new(None) };
}

fn em_park(id: &'static str) {
    if !matches!(id, "tcp:should_send" | "tcp:wake" | "clone") {
        return;
    }
    let i = match EM_ID.try_with(|c| c.get()).ok().flatten() {
        Some(i) => i,
        None => {
            if id == "tcp:wake" {
                emctl().st.lock().unwrap().unmanaged_wake = true;
            }
            return;
        }
    };
    let c = emctl();
    let mut st = c.st.lock().unwrap();
    st.at[i] = Some(id);
    c.cv.notify_all();
    let g = st.grant[i];
    while st.grant[i] == g {
        st = c.cv.wait(st).unwrap();
    }
}

fn em_trap() {
    em_park("clone");
}

impl EmCtl {
    fn reset(&self, n: usize) {
        let mut st = self.st.lock().unwrap();
        st.at = vec![None; n];
        st.done = vec![false; n];
        st.grant = vec![0; n];
    }
    fn take_unmanaged_wake(&self) -> bool {
        std::mem::replace(&mut self.st.lock().unwrap().unmanaged_wake, false)
    }
    /// where emitter `i` is parked (`done` once it has returned from its last call)
    fn pc(&self, i: usize) -> Option<&'static str> {
        let st = self.st.lock().unwrap();
        if st.done[i] {
            Some("done")
        } else {
            st.at[i]
        }
    }
    fn wait_parked(&self, i: usize) -> Option<&'static str> {
        let deadline = Instant::now() + WAIT;
        let mut st = self.st.lock().unwrap();
        loop {
            if st.done[i] {
                return Some("done");
            }
            if let Some(p) = st.at[i] {
                return Some(p);
            }
            let now = Instant::now();
            if now >= deadline {
                return None;
            }
            st = self.cv.wait_timeout(st, deadline - now).unwrap().0;
        }
    }
    fn grant(&self, i: usize) -> Option<&'static str> {
        {
            let mut st = self.st.lock().unwrap();
            st.at[i] = None;
            st.grant[i] += 1;
            self.cv.notify_all();
        }
        self.wait_parked(i)
    }
    fn finish(&self, i: usize) {
        let mut st = self.st.lock().unwrap();
        st.at[i] = None;
        st.done[i] = true;
        self.cv.notify_all();
    }
}

fn race_key(id: u64) -> Key {
    Key::from_parts("race", vec![Label::new("#", id.to_string()), Label::new("pad", "x".repeat(TRAP_LEN))])
}

fn race_ids(frames: &[Vec<u8>]) -> Vec<u64> {
    let mut ids = vec![];
    for f in frames {
        if let (evs, 0, None) = dec_stream(f) {
            for e in evs {
                if let Ev::Metric { labels, .. } = e {
                    if let Some(id) = labels.get("#").and_then(|s| s.parse().ok()) {
                        ids.push(id);
                    }
                }
            }
        }
    }
    ids
}

fn show_ids(ids: &[u64]) -> String {
    if ids.is_empty() {
        "-".to_string()
    } else {
        ids.iter().map(|i| i.to_string()).collect::<Vec<_>>().join("/")
    }
}

#[derive(Clone, Debug)]
struct RaceCase {
    tag: String,
    /// metric ids per emitter
    progs: Vec<Vec<u64>>,
    /// thread ids: 0..n = emitters, n = transport
    sched: Vec<usize>,
    /// a DEEP case: about `buffer_size` emissions (or more) pile up in the channel before the transport thread
    /// takes them, so that the capacity of the channel (`bounded(size)`) and the batch limit of the read loop
    /// (`buffer_limit`) are reached for the large configurations too (1024 = the builder's default, no limit)
    deep: bool,
}

struct RaceExporter {
    rec: Arc<TcpRecorder>,
    port: u16,
    cap: Option<usize>,
    gate: bool,
    /// the transport thread is inside its read loop (parked at `Wake` or `Recv`)
    in_loop: bool,
    /// shadow of the waker: `wake()` has been called since poll last returned for it (observed, not computed)
    wake_pending: bool,
    client: Option<Client>,
    delivered_all: Vec<u64>,
    /// bytes of every batch fanned out so far (what the reading client is owed)
    fanned_bytes: usize,
    broken: Option<String>,
}

impl RaceExporter {
    fn start(cap: Option<usize>, gate: bool) -> Result<RaceExporter, String> {
        let log = log();
        log.recs.lock().unwrap().clear();
        let (rec, port) = start_exporter(cap)?;
        if log.wait(WAIT, |recs| if recs.iter().any(|(p, r)| *p == port && *r == Record::Start) { Some(()) } else { None }).is_none() {
            return Err("the transport thread never entered its event loop".into());
        }
        let mut x = RaceExporter { rec: Arc::new(rec), port, cap, gate, in_loop: false, wake_pending: false, client: None, delivered_all: vec![], fanned_bytes: 0, broken: None };
        if gate {
            let (stream, lp) = connect_client(port, false)?;
            let (token, pos) = wait_accept(log, port, lp).ok_or("the exporter did not accept the reading client")?;
            x.client = Some(new_client(false, stream, lp, token, pos, 0, 0));
        }
        x.sync()?;
        Ok(x)
    }

    /// brings the transport thread to its `Idle` record with everything in the channel handled
    fn sync(&mut self) -> Result<(), String> {
        self.sync_n(0)
    }

    fn sync_n(&mut self, round: usize) -> Result<(), String> {
        if round > 4096 {
            return Err("the transport thread keeps waking itself although the channel is empty (batch limit 0?)".into());
        }
        let gate = tgate();
        let ctl = emctl();
        gate.set_mask(HOLD_IDLE | HOLD_WAKE);
        if gate.st.lock().unwrap().parked.is_some() {
            gate.release(HOLD_IDLE | HOLD_WAKE);
        }
        ctl.take_unmanaged_wake();
        self.rec.describe_counter(KeyName::from("__sync__"), None, SharedString::from(""));
        // … poll returns for the waker (possibly after other events) …
        let deadline = Instant::now() + WAIT;
        loop {
            match gate.wait_parked(deadline.saturating_duration_since(Instant::now())) {
                Some(HOLD_WAKE) => break,
                Some(_) => gate.release(HOLD_IDLE | HOLD_WAKE),
                None => return Err("the transport thread did not react to a wake-up".into()),
            }
        }
        ctl.take_unmanaged_wake();
        // … and the read loop runs until the channel is empty (or the batch limit is hit: self-wake)
        gate.release(HOLD_IDLE);
        if gate.wait_parked(WAIT) != Some(HOLD_IDLE) {
            return Err("the transport thread did not come back to its poll".into());
        }
        self.in_loop = false;
        self.wake_pending = ctl.take_unmanaged_wake();
        if self.cap != Some(0) && self.wake_pending {
            // a full batch: go round again
            return self.sync_n(round + 1);
        }
        Ok(())
    }

    fn qlen(&self) -> usize {
        self.rec.verif_queue_len()
    }

    fn tail(&self) -> String {
        format!("q={} wp={}", self.qlen(), self.wake_pending as u8)
    }

    /// one step of the transport thread → what it did
    fn t_step(&mut self) -> Result<String, String> {
        let gate = tgate();
        let ctl = emctl();
        let log = log();
        let all = HOLD_IDLE | HOLD_WAKE | HOLD_RECV;
        if !self.in_loop {
            if !self.wake_pending {
                return Ok("blocked".into());
            }
            // parked at Idle: poll returns for the waker, possibly after rounds for other events
            gate.release(all);
            let deadline = Instant::now() + WAIT;
            loop {
                match gate.wait_parked(deadline.saturating_duration_since(Instant::now())) {
                    Some(HOLD_WAKE) => break,
                    Some(_) => gate.release(all),
                    None => return Err("a wake-up is pending but poll did not return for the waker".into()),
                }
            }
            self.wake_pending = false;
            self.in_loop = true;
            return Ok("woken".into());
        }
        let from = log.len();
        gate.release(all);
        match gate.wait_parked(WAIT) {
            Some(HOLD_RECV) => Ok("recv".into()),
            Some(HOLD_IDLE) => {
                self.in_loop = false;
                let sw = ctl.take_unmanaged_wake();
                self.wake_pending |= sw;
                let frames: Vec<Vec<u8>> = {
                    let g = log.recs.lock().unwrap();
                    g.iter().skip(from).filter(|(p, _)| *p == self.port).filter_map(|(_, r)| if let Record::Fanout { frames } = r { Some(frames.clone()) } else { None }).flatten().collect()
                };
                let ids = race_ids(&frames);
                self.fanned_bytes += frames.iter().map(|f| f.len()).sum::<usize>();
                self.delivered_all.extend(ids.iter().copied());
                Ok(format!("fanout:{}:sw{}", show_ids(&ids), sw as u8))
            }
            Some(k) => Err(format!("the transport thread parked at record kind {} inside its read loop", k)),
            None => Err("the transport thread did not finish an iteration of its read loop".into()),
        }
    }

    /// the reading client's queue is flushed: the transport thread runs freely until the client has read every
    /// byte fanned out so far (a held thread handles no WRITABLE event), then it is parked at `Idle` again
    fn flush(&mut self) {
        let behind = |x: &RaceExporter| x.client.as_ref().map_or(false, |c| c.data.lock().unwrap().len() < x.fanned_bytes);
        if self.in_loop || self.wake_pending || self.broken.is_some() || !behind(self) {
            return;
        }
        tgate().release(0);
        let deadline = Instant::now() + WAIT;
        while behind(self) && Instant::now() < deadline {
            std::thread::sleep(Duration::from_millis(1));
        }
        if let Err(e) = self.sync() {
            self.broken = Some(e);
        }
    }

    fn run_case(&mut self, case: &RaceCase, out: &mut Out) {
        out.case(&case.tag);
        if case.deep {
            self.flush();
            out.count("race deep case (the channel is filled to about buffer_size before the transport thread runs)");
        }
        let ctl = emctl();
        let n = case.progs.len();
        let script = format!("buffer_size={:?} gate={} emitters={:?} schedule={:?} (ids < {} are emitters, {} = transport)", self.cap, self.gate, case.progs, case.sched, n, n);
        out.count(&format!("race buffer {}", self.cap.map_or("none".to_string(), |c| if c > 4 { ">4".to_string() } else { c.to_string() })));
        out.count(if self.gate { "race gate open" } else { "race gate closed" });
        let wp0 = self.wake_pending;
        // handles are registered up front (long-lived), the calls happen on the emitter threads
        let handles: Vec<Vec<metrics::Counter>> = case.progs.iter().map(|ids| ids.iter().map(|id| self.rec.register_counter(&race_key(*id), &MD)).collect()).collect();
        ctl.reset(n);
        let mut threads = vec![];
        for (i, hs) in handles.into_iter().enumerate() {
            threads.push(std::thread::spawn(move || {
                EM_ID.with(|c| c.set(Some(i)));
                for h in hs {
                    crate::alloc::arm_trap(TRAP_LEN);
                    h.increment(1);
                    crate::alloc::disarm_trap();
                }
                EM_ID.with(|c| c.set(None));
                emctl().finish(i);
            }));
        }
        let mut hung: Option<String> = None;
        for i in 0..n {
            if ctl.wait_parked(i).is_none() {
                hung = Some(format!("emitter {} did not reach its first yield point", i));
            }
        }
        for i in 0..n {
            match ctl.pc(i) {
                Some("tcp:should_send") | None => {}
                Some(p) => {
                    if hung.is_none() {
                        hung = Some(format!("emitter {} reached {:?} first: the yield point tcp:should_send is missing (is hook-C11.patch applied to the repository?)", i, p));
                    }
                }
            }
        }
        let progs_tok = list(case.progs.iter().map(|ids| show_ids(ids)));
        out.op(&format!("tcpq init {} {} {} {}", self.cap.map_or("~".to_string(), |c| c.to_string()), self.gate as u8, wp0 as u8, progs_tok), "ok");
        let mut delivered_before = self.delivered_all.len();
        let case_start = delivered_before;
        let mut steps = 0usize;
        let mut do_step = |x: &mut RaceExporter, tid: usize, out: &mut Out, hung: &mut Option<String>| {
            if hung.is_some() {
                return;
            }
            if tid < n {
                let p0 = ctl.pc(tid).unwrap_or("?");
                let p1 = if p0 == "done" { "done" } else { ctl.grant(tid).unwrap_or("?") };
                if p1 == "?" {
                    *hung = Some(format!("emitter {} did not reach its next yield point after {}", tid, p0));
                }
                if p0 == "tcp:wake" {
                    x.wake_pending = true;
                }
                out.count(&format!("race emitter step at {}", p0));
                out.op(&format!("tcpq step e{}", tid), &format!("e{} {}>{} {}", tid, p0, p1, x.tail()));
            } else {
                match x.t_step() {
                    Ok(what) => {
                        out.count(&format!("race transport step {}", what.split(':').next().unwrap_or("")));
                        out.op("tcpq step t", &format!("t {} {}", what, x.tail()));
                    }
                    Err(e) => *hung = Some(e),
                }
            }
        };
        for tid in case.sched.iter() {
            do_step(self, (*tid).min(n), out, &mut hung);
            steps += 1;
        }
        // drain: emitters to completion (lowest id first), then the transport while it can move
        for i in 0..n {
            let mut guard = 0;
            while hung.is_none() && ctl.pc(i) != Some("done") && guard < 64 + 3 * case.progs[i].len() {
                do_step(self, i, out, &mut hung);
                guard += 1;
            }
        }
        let total: usize = case.progs.iter().map(|p| p.len()).sum();
        let mut guard = 0;
        while hung.is_none() && (self.in_loop || self.wake_pending) && guard < 3 * total + 8 {
            do_step(self, n, out, &mut hung);
            guard += 1;
        }
        let _ = (steps, &mut delivered_before);
        let all_done = (0..n).all(|i| ctl.pc(i) == Some("done"));
        let quiescent = all_done && !self.in_loop && !self.wake_pending;
        let q = self.qlen();
        out.op(
            "tcpq end",
            &format!("{} tpc={} delivered={} quiescent={}", self.tail(), if self.in_loop { "loop" } else { "idle" }, show_ids(&self.delivered_all[case_start..]), quiescent as u8),
        );
        if total >= 2 && n >= 2 {
            out.nontrivial();
        }
        if let Some(h) = &hung {
            fail(out, &script, "exporter stopped serving", format!("race case: {}", h));
            self.broken = Some(h.clone());
            // let everything go so that no thread stays parked for ever
            for i in 0..n {
                let mut guard = 0;
                while ctl.pc(i) != Some("done") && guard < 64 {
                    ctl.grant(i);
                    guard += 1;
                }
            }
        } else if quiescent && q > 0 {
            // nothing can move and the channel still holds events: confirm on the free-running thread
            let gate = tgate();
            gate.release(HOLD_IDLE);
            // (the first confirmations wait long; once the defect is established the others may be brief)
            let wait = if CONFIRMED_STUCK.load(Ordering::SeqCst) < 2 { STUCK_WAIT } else { Duration::from_millis(400) };
            let deadline = Instant::now() + wait;
            while self.qlen() > 0 && Instant::now() < deadline {
                std::thread::sleep(Duration::from_millis(2));
            }
            if self.qlen() > 0 {
                CONFIRMED_STUCK.fetch_add(1, Ordering::SeqCst);
                let accepted: Vec<u64> = case.progs.iter().flatten().copied().filter(|id| !self.delivered_all[case_start..].contains(id)).collect();
                fail(
                    out,
                    &script,
                    "metric enqueued but the transport thread is never woken (lost wake-up)",
                    format!(
                        "every emitter has returned, the transport thread is blocked in poll, yet {} event(s) sit in the channel and stayed there for {:?} with the thread running freely; emitted and never fanned out: {:?}; client connected and reading: {}",
                        self.qlen(),
                        wait,
                        accepted,
                        self.gate
                    ),
                );
            } else {
                out.count("race: channel drained although no wake-up was observed");
            }
            if let Err(e) = self.sync() {
                self.broken = Some(e);
            }
            // what the resync fanned out belongs to no later case
            let g = log().recs.lock().unwrap();
            let late: Vec<Vec<u8>> = g.iter().filter(|(p, _)| *p == self.port).filter_map(|(_, r)| if let Record::Fanout { frames } = r { Some(frames.clone()) } else { None }).flatten().collect();
            drop(g);
            for id in race_ids(&late) {
                if !self.delivered_all.contains(&id) {
                    self.delivered_all.push(id);
                }
            }
        } else if !quiescent && self.cap != Some(0) {
            // the bounded drain did not reach quiescence (only possible if the model of the loop is wrong)
            if let Err(e) = self.sync() {
                self.broken = Some(e);
            }
        }
        for t in threads {
            if hung.is_none() {
                let _ = t.join();
            }
        }
        if case.deep && hung.is_none() {
            self.flush();
        }
        log().recs.lock().unwrap().clear();
    }

    /// stops the exporter; the reading client must have received exactly the fanned-out batches, in order
    fn finish(mut self, out: &mut Out) {
        let log = log();
        tgate().release(0);
        verif::request_stop(self.port);
        self.rec.describe_counter(KeyName::from("__stop__"), None, SharedString::from(""));
        let stopped = log.wait(WAIT, |recs| if recs.iter().any(|(p, r)| *p == self.port && *r == Record::Stop) { Some(()) } else { None }).is_some();
        if let Some(mut c) = self.client.take() {
            if !stopped {
                if let Some(s) = c.stream.take() {
                    let _ = s.shutdown(std::net::Shutdown::Both);
                }
            }
            if let Some(h) = c.reader.take() {
                let _ = h.join();
            }
            if stopped && self.broken.is_none() {
                out.case(&format!("race stream buffer_size={:?}: bytes received by the reading client", self.cap));
                let data = c.data.lock().unwrap().clone();
                let (evs, rest, err) = dec_stream(&data);
                let got: Vec<u64> = evs.iter().filter_map(|e| if let Ev::Metric { labels, .. } = e { labels.get("#").and_then(|s| s.parse().ok()) } else { None }).collect();
                if err.is_some() || rest != 0 || got != self.delivered_all {
                    fail(
                        out,
                        &format!("race stream buffer_size={:?}", self.cap),
                        "metric missing for a connected, reading client",
                        format!("the reading client of the race stream received {} metric frames ({:?} trailing bytes, decode error {:?}), the transport fanned out {}; first difference at position {:?}", got.len(), rest, err, self.delivered_all.len(), got.iter().zip(self.delivered_all.iter()).position(|(a, b)| a != b)),
                    );
                }
                out.count_n("race frames received by the reading client", got.len() as u64);
                if self.cap == Some(0) && got.is_empty() {
                    // genuine defect, recorded as a known finding (known_findings.json: K-C11-zero-buffer)
                    out.oracle_fail(
                        "K-C11-zero-buffer: buffer_size(Some(0)) never delivers a metric to a connected, reading client",
                        "zero-capacity channel and zero batch limit: emissions made while a client is connected and reading are never fanned out and the transport thread keeps waking itself (Lean: C11.zero_buffer_never_delivers, C11.zero_buffer_spins)",
                    );
                }
            }
        }
        log.recs.lock().unwrap().clear();
    }
}

fn race_corpus() -> Vec<(Option<usize>, bool, Vec<Vec<usize>>, Vec<usize>, &'static str)> {
    // (buffer, gate, metrics per emitter, schedule, name); thread ids: emitters 0.., transport = #emitters
    vec![
        // emitter 1 passes the gate (and anything it samples there) while metric 0 is still queued; the transport
        // drains and goes back to poll; only then emitter 1 enqueues
        (Some(1024), true, vec![vec![1], vec![1]], vec![0, 0, 0, 2, 1, 2, 2, 1], "enqueue-after-transport-went-idle"),
        // the transport handles a wake-up between an emitter's second and third step
        (Some(1024), true, vec![vec![1]], vec![0, 0, 1, 1, 0], "transport-runs-between-send-and-wake"),
        (Some(1024), true, vec![vec![2], vec![1]], vec![0, 1, 0, 1, 2, 0, 2, 1, 2, 0, 2, 0, 0, 2, 2], "two-emitters-interleaved"),
        (Some(1), true, vec![vec![2], vec![2]], vec![0, 0, 1, 1, 0, 2, 2, 1, 0, 0, 2, 2, 1], "buffer-1-channel-full-and-batch-limit"),
        (Some(2), true, vec![vec![3]], vec![0, 0, 0, 0, 0, 0, 0, 0, 0, 1, 1, 1, 1], "buffer-2-self-wake"),
        (None, true, vec![vec![2], vec![2], vec![1]], vec![0, 1, 2, 0, 1, 2, 3, 0, 1, 2, 3, 3], "no-limit-three-emitters"),
        (Some(1024), false, vec![vec![2], vec![1]], vec![0, 1, 2, 0], "gate-closed"),
        (Some(0), true, vec![vec![1]], vec![0, 0, 0, 1, 1, 1, 1], "buffer-0 (nothing is ever delivered: see REPORT)"),
    ]
}

fn race_stream(cfg: &Cfg, out: &mut Out) {
    let root = Rng::new(cfg.seed ^ 0x5ace);
    metrics::verif::set_hook(Some(em_park));
    crate::alloc::set_trap_fn(Some(em_trap));
    let mut next_id = 0u64;
    let mut mk = |tag: String, shape: &[usize], sched: Vec<usize>| -> RaceCase {
        let progs = shape
            .iter()
            .map(|k| {
                (0..*k)
                    .map(|_| {
                        next_id += 1;
                        next_id
                    })
                    .collect()
            })
            .collect();
        RaceCase { tag, progs, sched, deep: false }
    };
    // a limit between the small ones and the default, different for every seed (deep cases reach it)
    let mid = 65 + root.fork(0xdee9).below(560);
    let mut configs: Vec<(Option<usize>, bool)> = vec![(Some(1024), true), (None, true), (Some(1), true), (Some(2), true), (Some(1024), false), (Some(0), true), (Some(mid), true)];
    if cfg.thorough {
        configs.push((Some(1 << root.fork(0xdeea).range(11, 13)), true));
    }
    let n_random = if cfg.thorough { 260 } else { 36 };
    for (ci, (cap, gate)) in configs.iter().enumerate() {
        let mut cases: Vec<RaceCase> = vec![];
        for (c, g, shape, sched, name) in race_corpus() {
            if c == *cap && g == *gate {
                let shape: Vec<usize> = shape.iter().map(|v| v[0]).collect();
                cases.push(mk(format!("race corpus {}", name), &shape, sched));
            }
        }
        let weight = match (cap, gate) {
            (Some(0), _) => 0,
            (_, false) => 1,
            (Some(1024), true) => 6,
            (Some(c), true) if *c > 64 => 1,
            _ => 3,
        };
        for i in 0..(n_random * weight / 6) {
            let mut r = root.fork((ci * 100_000 + i) as u64);
            let n = r.range(1, 3);
            let shape: Vec<usize> = (0..n).map(|_| r.range(1, 2)).collect();
            let total: usize = shape.iter().sum();
            let len = r.range(0, 4 * total + 6);
            // the transport gets a third of the steps, in runs (a thread that is preempted stays preempted for a while)
            let mut sched = vec![];
            while sched.len() < len {
                let t = if r.chance(1, 3) { n } else { r.below(n) };
                for _ in 0..r.range(1, 3) {
                    sched.push(t);
                }
            }
            cases.push(mk(format!("race seed={} cfg={} i={}", cfg.seed, ci, i), &shape, sched));
        }
        // deep cases: the emitters put about `buffer_size` events (or more) into the channel before the transport
        // thread takes them.  Two variants: OVERFLOW (only emitters run, buffer_size + a few emissions: the channel
        // accepts exactly buffer_size, the read loop takes exactly buffer_size in one batch and wakes itself) and
        // INTERLEAVED (at most buffer_size emissions in all, long runs of emitters and of the transport thread, so
        // that batches of hundreds are cut wherever the schedule says and never by a smaller hidden limit).
        let n_deep = match (cap, gate) {
            (Some(c), true) if *c > 64 => if cfg.thorough { 8 } else { 2 },
            (None, true) => if cfg.thorough { 4 } else { 1 },
            _ => 0,
        };
        for i in 0..n_deep {
            let mut r = root.fork((ci * 100_000 + 50_000 + i) as u64);
            let n = r.range(1, 2);
            let base = cap.unwrap_or(1500);
            let overflow = i % 2 == 0;
            let total = if overflow && cap.is_some() { base + r.range(1, 40) } else { base - r.below(base / 8 + 1) };
            let first = if n == 1 { total } else { r.range(1, total - 1) };
            let shape: Vec<usize> = if n == 1 { vec![total] } else { vec![first, total - first] };
            let mut rem: Vec<usize> = shape.iter().map(|k| 3 * k).collect();
            let mut sched = vec![];
            while rem.iter().any(|k| *k > 0) {
                if !overflow && r.chance(1, 6) {
                    for _ in 0..r.range(1, 150) {
                        sched.push(n);
                    }
                    continue;
                }
                let e = r.below(n);
                let k = rem[e].min(r.range(1, 90));
                for _ in 0..k {
                    sched.push(e);
                }
                rem[e] -= k;
            }
            let mut c = mk(format!("race deep seed={} cfg={} i={} {}", cfg.seed, ci, i, if overflow { "overflow" } else { "interleaved" }), &shape, sched);
            c.deep = true;
            cases.push(c);
        }
        if cfg.thorough && *cap == Some(1024) && *gate {
            // every schedule of length 8 over two emitters with one metric each and the transport
            for code in 0..6561usize {
                let mut c = code;
                let sched: Vec<usize> = (0..8).map(|_| { let d = c % 3; c /= 3; d }).collect();
                cases.push(mk(format!("race exhaustive 2x1 #{}", code), &[1, 1], sched));
            }
        }
        if cases.is_empty() {
            continue;
        }
        match RaceExporter::start(*cap, *gate) {
            Ok(mut x) => {
                for case in cases.iter() {
                    if x.broken.is_some() {
                        break;
                    }
                    x.run_case(case, out);
                }
                x.finish(out);
            }
            Err(e) => {
                out.case(&format!("race stream buffer_size={:?} gate={}", cap, gate));
                fail(out, &format!("race stream buffer_size={:?}", cap), "exporter does not serve", format!("race stream could not be set up: {}", e));
                tgate().release(0);
            }
        }
    }
    tgate().release(0);
    metrics::verif::set_hook(None);
    crate::alloc::set_trap_fn(None);
}

// ---------------------------------------------------------------------------------------------
// accept() failing with something else than WouldBlock (audit blind spot 3).  No injection: the process really runs
// out of file descriptors (RLIMIT_NOFILE lowered to what is open, the holes filled with /dev/null) while a connection
// completes its handshake; `listener.accept()` then fails with EMFILE on the real kernel.  What the exporter does is
// OBSERVED and counted; it becomes an oracle failure only with `REPORT_ACCEPT_ERROR` (off: known_findings.json has no
// entry for it yet -- see REPORT.md, proposed K-C11-accept-error).

const REPORT_ACCEPT_ERROR: bool = true; // the defect is repaired in the repository: a recurrence is a violation

#[repr(C)]
struct RLimit {
    cur: u64,
    max: u64,
}

extern "C" {
    fn getrlimit(resource: i32, rlim: *mut RLimit) -> i32;
    fn setrlimit(resource: i32, rlim: *const RLimit) -> i32;
}

const RLIMIT_NOFILE: i32 = 7;

fn accept_error_case(out: &mut Out) {
    if !cfg!(all(target_os = "linux", target_pointer_width = "64")) {
        return;
    }
    out.case("accept error: the process is out of file descriptors when a second client connects");
    let log = log();
    log.recs.lock().unwrap().clear();
    let (rec, port) = match start_exporter(Some(8)) {
        Ok(x) => x,
        Err(_) => return,
    };
    let started = log.wait(WAIT, |recs| if recs.iter().any(|(p, r)| *p == port && *r == Record::Start) { Some(()) } else { None }).is_some();
    let a = connect_client(port, false).ok().and_then(|(s, lp)| wait_accept(log, port, lp).map(|(t, pos)| new_client(false, s, lp, t, pos, 0, 0)));
    let mut a = match (started, a) {
        (true, Some(a)) => a,
        _ => return,
    };
    apply(&rec, &[], &item(0, "before"));
    let t0 = Instant::now();
    while a.data.lock().unwrap().is_empty() && t0.elapsed() < WAIT {
        std::thread::sleep(Duration::from_millis(1));
    }
    let served_before = !a.data.lock().unwrap().is_empty();
    // the second client's socket exists before the descriptors run out
    let b = socket2::Socket::new(socket2::Domain::IPV4, socket2::Type::STREAM, None);
    let mut old = RLimit { cur: 0, max: 0 };
    let got = unsafe { getrlimit(RLIMIT_NOFILE, &mut old) } == 0;
    let maxfd = std::fs::read_dir("/proc/self/fd").ok().map(|d| d.filter_map(|e| e.ok()?.file_name().to_str()?.parse::<u64>().ok()).max().unwrap_or(0));
    let (b, maxfd) = match (b, got, maxfd) {
        (Ok(b), true, Some(m)) => (b, m),
        _ => return,
    };
    let low = RLimit { cur: (maxfd + 1).min(old.cur), max: old.max };
    if unsafe { setrlimit(RLIMIT_NOFILE, &low) } != 0 {
        return;
    }
    let mut filler = vec![];
    while let Ok(f) = std::fs::File::open("/dev/null") {
        filler.push(f);
        if filler.len() > 100_000 {
            break;
        }
    }
    let dst: SocketAddr = ([127, 0, 0, 1], port).into();
    let connected = b.connect_timeout(&dst.into(), Duration::from_secs(2)).is_ok();
    // the exporter's accept() fails now (EMFILE); give it time to act, then give the descriptors back
    let t0 = Instant::now();
    while !a.eof.load(Ordering::SeqCst) && t0.elapsed() < Duration::from_secs(3) {
        std::thread::sleep(Duration::from_millis(2));
    }
    drop(filler);
    unsafe { setrlimit(RLIMIT_NOFILE, &old) };
    let a_closed = a.eof.load(Ordering::SeqCst);
    // with descriptors available again: does the exporter still accept, and does the old client still get metrics?
    let q0 = rec.verif_queue_len();
    apply(&rec, &[], &item(1, "after"));
    // (after `run_transport` returned the receiver is gone: `try_send` fails, nothing queues up)
    let gate_open_after = rec.verif_queue_len() > q0;
    let c = connect_client(port, false);
    let c_accepted = match &c {
        Ok((_, lp)) => log.wait(Duration::from_secs(2), |recs| if recs.iter().any(|(p, r)| *p == port && matches!(r, Record::Accept { peer, .. } if peer.map(|x| x.port()) == Some(*lp))) { Some(()) } else { None }).is_some(),
        Err(_) => false,
    };
    let before = a.data.lock().unwrap().len();
    std::thread::sleep(Duration::from_millis(200));
    let a_got_more = a.data.lock().unwrap().len() > before;
    let removed = log.recs.lock().unwrap().iter().filter(|(p, r)| *p == port && matches!(r, Record::Disconnect { .. })).count();
    out.count(&format!(
        "accept error case: served before={} second connect completed={} | afterwards: first (reading, never closed) client closed by the exporter={} removed through the client table={} a later emission is queued={} a third client is accepted={} first client still receives={}",
        served_before, connected, a_closed, removed, gate_open_after, c_accepted, a_got_more
    ));
    if REPORT_ACCEPT_ERROR && served_before && a_closed && !c_accepted {
        out.oracle_fail(
            "a failing accept() (EMFILE while another client connects) ends the transport thread for every client: the connected, reading client is closed and nobody is accepted any more",
            &format!(
                "buffer_size(Some(8)); client A connected, reading, received its first metric; the process ran out of file descriptors while client B connected: listener.accept() failed (not WouldBlock) and run_transport returned (lib.rs `Err(e) => {{ error!(..); return }}`): A's connection closed by the exporter={}, later connection accepted={}, a later emission is queued={}",
                a_closed, c_accepted, gate_open_after
            ),
        );
    }
    if let Some(s) = a.stream.take() {
        let _ = s.shutdown(std::net::Shutdown::Both);
    }
    if let Some(h) = a.reader.take() {
        let _ = h.join();
    }
    // if the transport thread survived, stop it like every other session does
    verif::request_stop(port);
    rec.describe_counter(KeyName::from("__stop__"), None, SharedString::from(""));
    let _ = log.wait(Duration::from_millis(300), |recs| if recs.iter().any(|(p, r)| *p == port && *r == Record::Stop) { Some(()) } else { None });
    log.recs.lock().unwrap().clear();
}

pub fn run(cfg: &Cfg, out: &mut Out) {
    race_stream(cfg, out);
    let root = Rng::new(cfg.seed);
    for (name, buffer, script) in corpus() {
        session(&format!("corpus {}", name), buffer, &script, out);
    }
    for i in 0..cfg.cases {
        let mut r = root.fork(i as u64);
        let buffer = match r.weighted(&[3, 2, 3, 3, 2, 1]) {
            0 => None,
            1 => Some(1),
            2 => Some(r.range(2, 4)),
            3 => Some(r.range(5, 64)),
            4 => Some(1024),
            _ => Some(1 << r.range(12, 17)),
        };
        // every 8th case fills a non-reading client's socket with big frames (the kernel's own short writes)
        let storm = i % 8 == 5;
        let script = gen_script(&mut r, storm);
        session(&format!("seed={} i={}{}", cfg.seed, i, if storm { " storm" } else { "" }), buffer, &script, out);
    }
    accept_error_case(out);
}
