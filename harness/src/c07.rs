//! C07 — Prometheus output reports exactly what was recorded, each sample once.
use crate::prom::{session, Flavour};
use crate::util::*;

pub fn run(cfg: &Cfg, out: &mut Out) {
    let root = Rng::new(cfg.seed);
    for i in 0..cfg.cases {
        let mut r = root.fork(i as u64);
        out.case(&format!("seed={} i={}", cfg.seed, i));
        session(&mut r, out, Flavour::Values);
    }
}
