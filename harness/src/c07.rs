//! C07 — Prometheus output reports exactly what was recorded, each sample once.
use crate::prom::{session, Flavour};
use crate::util::*;

pub fn run(cfg: &Cfg, out: &mut Out) {
    let root = Rng::new(cfg.seed);
    for i in 0..cfg.cases {
        let mut r = root.fork(i as u64);
        out.case(&format!("seed={} i={}", cfg.seed, i));
        session(&mut r, out, Flavour::Values);
    }
}

/// Concurrent stream: `record()` threads racing `render()` / `run_upkeep()` on a real recorder under the
/// deterministic scheduler (yield points of the bucket and the registry). Oracle: after everything finished, the
/// rendered `_count` is the number of samples recorded and `_sum` their sum — every sample once — unless the trace
/// has the signature of the known bucket finding (a push on a block that a drain detached meanwhile).
pub fn run_concurrent(cfg: &Cfg, out: &mut Out) {
    use metrics::{Key, Recorder};
    use metrics_exporter_prometheus::PrometheusBuilder;
    use std::sync::Arc;
    static META: metrics::Metadata<'static> = metrics::Metadata::new("mv", metrics::Level::INFO, None);
    let root = Rng::new(cfg.seed ^ 0xC07C);
    let n = if cfg.thorough { 400 } else { 60 };
    for i in 0..n {
        let mut r = root.fork(i as u64);
        out.case(&format!("concurrent seed={} i={}", cfg.seed, i));
        let rec = Arc::new(PrometheusBuilder::new().build_recorder());
        let handle = rec.handle();
        let key = Key::from_name("lat");
        let h = rec.register_histogram(&key, &META);
        // the first cases are the targeted shape: the recorders' claims fill the block exactly, the first recorder is
        // held between its slot claim and its publish while the others finish and the drain runs
        let targeted = i < 6;
        let prefill = if targeted { 64 - (1 + i % 3) } else { *r.pick(&[0usize, 1, 62, 63, 64, 65]) };
        let mut total: u64 = 0;
        for _ in 0..prefill {
            h.record(1.0);
            total += 1;
        }
        let nrec = if targeted { 1 + i % 3 } else { r.range(1, 3) };
        let mut bodies: Vec<Box<dyn FnOnce() + Send + 'static>> = vec![];
        for _ in 0..nrec {
            let h = h.clone();
            let k = if targeted { 1 } else { r.range(1, 2) };
            total += k as u64;
            bodies.push(Box::new(move || {
                for _ in 0..k {
                    h.record(1.0);
                }
            }));
        }
        let hd = handle.clone();
        let renders = r.range(1, 2);
        let upkeep = r.chance(1, 2);
        bodies.push(Box::new(move || {
            for _ in 0..renders {
                if upkeep {
                    hd.run_upkeep();
                } else {
                    let _ = hd.render();
                }
            }
        }));
        let nt = bodies.len();
        let mut sch = vec![];
        if targeted {
            sch.extend(vec![0; 3]); // recorder 0: start, load tail, claim → parked before publish
            for t in 1..nrec {
                sch.extend(vec![t; 6]); // start, load tail, claim, publish, gen.applied, (done)
            }
            sch.extend(vec![nt - 1; 40]); // the drain
            sch.extend(vec![0; 5]);
        }
        let mut cur = r.below(nt);
        for _ in 0..80 {
            if r.chance(2, 5) {
                cur = r.below(nt);
            }
            sch.push(cur);
        }
        let run = crate::sched::run(bodies, &sch);
        out.count(&format!("concurrent.prefill={}", prefill));
        if run.deadlock || run.timed_out || !run.panicked.is_empty() {
            out.oracle_fail("record racing render/upkeep: deadlock, timeout or panic", &format!("{:?}", run.trace));
            continue;
        }
        let text = handle.render();
        let fams = match crate::expo::check_exposition(&text) {
            Ok(f) => f,
            Err(e) => {
                out.oracle_fail("render(): not well-formed exposition text", &e);
                continue;
            }
        };
        let count: Option<u64> = fams
            .iter()
            .flat_map(|f| f.samples.iter())
            .find(|(n, _, _)| n == "lat_count")
            .and_then(|(_, _, v)| v.parse().ok());
        let sig = crate::c05::signatures_of_trace(&run.trace);
        if run.trace.iter().any(|(_, id)| id.starts_with("bkt.clear")) && run.trace.iter().any(|(_, id)| *id == "blk.push.claim") {
            out.nontrivial();
        }
        if count != Some(total) {
            out.oracle_fail(
                &format!(
                    "histogram _count after record() raced render()/run_upkeep() is not the number of samples recorded [{}]",
                    if sig.k1 { "K1:straggler-push-on-detached-block" } else { "no-known-signature" }
                ),
                &format!("want {} got {:?} trace {:?}", total, count, run.trace),
            );
        }
    }
}
