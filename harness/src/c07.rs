//! C07 — Prometheus output reports exactly what was recorded, each sample once.
use crate::prom::{session, Flavour};
use crate::util::*;
use std::sync::atomic::{AtomicU64, Ordering};
use std::sync::{Arc, Mutex};

pub fn run(cfg: &Cfg, out: &mut Out) {
    let root = Rng::new(cfg.seed);
    for i in 0..cfg.cases {
        let mut r = root.fork(i as u64);
        out.case(&format!("seed={} i={}", cfg.seed, i));
        session(&mut r, out, Flavour::Values);
    }
    run_wild(cfg, out);
}

// ------------------------------------------------------------------------------------------------------------------
// Stream "wild": histogram samples over the whole f64 domain (non-dyadic, subnormal, huge, NaN, ±inf), fractional
// bucket bounds. IEEE rounding is outside the Lean model, so this stream is judged by implementation-side oracles only:
//   _count  = number of samples (exact);
//   _sum    = the real sum of the samples up to the classical bound for ANY order of floating-point summation,
//             |err| <= (n-1)·2^-53·Σ|x| (doubled here) — the exporter adds per drained block and per batch, so the
//             order is its own business, but a detour through f32 (relative error 2^-24) or a fixed-precision text
//             (`{:.10}`) is far outside it; NaN / ±inf propagate as IEEE says;
//   le="b"  parses back to the configured bound bit for bit, its count = #{x <= b} (NaN compares false).
// ------------------------------------------------------------------------------------------------------------------
const WILD: [f64; 22] = [
    0.1,
    0.2,
    0.3,
    1.0 / 3.0,
    -0.7,
    1e-7,
    -1e-7,
    2.5e-11,
    5e-324,
    f64::MIN_POSITIVE,
    1e21,
    -1e21,
    123456789.123456789,
    16777217.0,
    1e15 + 0.3,
    0.0009765624,
    std::f64::consts::PI,
    -0.0,
    f64::MAX,
    f64::NAN,
    f64::INFINITY,
    f64::NEG_INFINITY,
];

fn run_wild(cfg: &Cfg, out: &mut Out) {
    use metrics::{Key, Recorder};
    use metrics_exporter_prometheus::PrometheusBuilder;
    static META: metrics::Metadata<'static> = metrics::Metadata::new("mv", metrics::Level::INFO, None);
    let root = Rng::new(cfg.seed ^ 0x771D);
    let n = if cfg.thorough { 1500 } else { 200 };
    for i in 0..n {
        let mut r = root.fork(i as u64);
        out.case(&format!("wild seed={} i={}", cfg.seed, i));
        // finite-only sessions are the ones with a sharp `_sum` oracle; the others check propagation
        let finite_only = r.chance(2, 3);
        let no_huge = r.chance(1, 2);
        let bounds: Option<Vec<f64>> = if r.chance(1, 2) {
            let mut b: Vec<f64> = (0..r.range(1, 4)).map(|_| *r.pick(&[0.1, 1e-7, 0.3, 1.0 / 3.0, 2.5, 1e21, -0.7, 16777217.0])).collect();
            b.sort_by(|a, c| a.partial_cmp(c).unwrap());
            b.dedup();
            Some(b)
        } else {
            None
        };
        let mut b = PrometheusBuilder::new();
        if let Some(bs) = &bounds {
            b = b.set_buckets(bs).unwrap();
        }
        let rec = b.build_recorder();
        let handle = rec.handle();
        let h = rec.register_histogram(&Key::from_name("w"), &META);
        let mut vals: Vec<f64> = vec![];
        let rounds = r.range(1, 4);
        for round in 0..rounds {
            let reps = if r.chance(1, 5) { r.range(60, 140) } else { r.range(1, 6) };
            for _ in 0..reps {
                let v = loop {
                    let v = if r.chance(1, 3) {
                        // a random non-dyadic value with a full mantissa
                        (r.range(1, 1 << 52) as f64) * 1e-9 * if r.chance(1, 2) { 1.0 } else { -1.0 }
                    } else {
                        *r.pick(&WILD)
                    };
                    if finite_only && !v.is_finite() {
                        continue;
                    }
                    if (finite_only || no_huge) && v.abs() > 1e300 {
                        continue;
                    }
                    break v;
                };
                if r.chance(1, 8) {
                    let c = r.range(0, 3);
                    h.record_many(v, c);
                    vals.extend(std::iter::repeat(v).take(c));
                } else {
                    h.record(v);
                    vals.push(v);
                }
            }
            match r.below(3) {
                0 => handle.run_upkeep(),
                1 => {
                    let _ = handle.render();
                }
                _ => {}
            }
            if round + 1 < rounds {
                continue;
            }
        }
        out.count(&format!("wild.finite_only={} buckets={}", finite_only, bounds.is_some()));
        out.nontrivial();
        let text = handle.render();
        let fams = match crate::expo::check_exposition(&text) {
            Ok(f) => f,
            Err(e) => {
                out.oracle_fail("render(): not well-formed exposition text", &format!("{} :: {:?}", e, text));
                continue;
            }
        };
        let samples: Vec<&(String, Vec<(String, String)>, String)> = fams.iter().flat_map(|f| f.samples.iter()).collect();
        let cnt = samples.iter().find(|s| s.0 == "w_count").map(|s| s.2.clone());
        if cnt != Some(vals.len().to_string()) {
            out.oracle_fail(
                "histogram _count is not the number of samples recorded",
                &format!("want {} got {:?}; samples {:?}", vals.len(), cnt, vals),
            );
        }
        let sum: f64 = samples.iter().find(|s| s.0 == "w_sum").and_then(|s| s.2.parse().ok()).unwrap_or(f64::NAN);
        let has_nan = vals.iter().any(|v| v.is_nan());
        let (pinf, ninf) = (vals.iter().any(|v| *v == f64::INFINITY), vals.iter().any(|v| *v == f64::NEG_INFINITY));
        let mine: f64 = vals.iter().sum();
        let abs: f64 = vals.iter().map(|v| v.abs()).sum();
        let sum_ok = if has_nan || (pinf && ninf) {
            sum.is_nan()
        } else if pinf {
            sum == f64::INFINITY
        } else if ninf {
            sum == f64::NEG_INFINITY
        } else if !abs.is_finite() {
            true // finite samples whose partial sums may overflow in one order and not in another: no sharp oracle
        } else {
            let bound = 2.0 * (vals.len().max(2) as f64) * f64::EPSILON * abs;
            (sum - mine).abs() <= bound
        };
        if !sum_ok {
            out.oracle_fail(
                "histogram _sum is not the sum of samples recorded",
                &format!("want {:e} (±fp summation bound) got {:e}; samples {:?}", mine, sum, vals),
            );
        }
        if let Some(bs) = &bounds {
            let mut got: Vec<(f64, u64)> = vec![];
            for s in samples.iter().filter(|s| s.0 == "w_bucket") {
                let le = &s.1.iter().find(|(k, _)| k == "le").unwrap().1;
                let c: u64 = s.2.parse().unwrap_or(u64::MAX);
                if le == "+Inf" {
                    if c != vals.len() as u64 {
                        out.oracle_fail("histogram bucket count is not the number of samples <= bound", &format!("le=+Inf want {} got {}", vals.len(), c));
                    }
                } else {
                    got.push((le.parse().unwrap_or(f64::NAN), c));
                }
            }
            let want: Vec<(f64, u64)> = bs.iter().map(|b| (*b, vals.iter().filter(|x| **x <= *b).count() as u64)).collect();
            let same = got.len() == want.len() && got.iter().zip(want.iter()).all(|(g, w)| g.0.to_bits() == w.0.to_bits() && g.1 == w.1);
            if !same {
                out.oracle_fail(
                    "histogram bucket count is not the number of samples <= bound",
                    &format!("(le must parse back to the configured bound) want {:?} got {:?}; samples {:?}", want, got, vals),
                );
            }
        }
    }
}

// ------------------------------------------------------------------------------------------------------------------
// Concurrent stream
// ------------------------------------------------------------------------------------------------------------------

/// what one managed thread does
#[derive(Clone, Debug)]
enum Role {
    /// `record()` / `record_many()` calls on the handle of key `key`: (value, count) — count 1 = `record`
    Recorder { key: usize, calls: Vec<(f64, usize)> },
    /// registers a key nobody has registered yet and records one sample — races the drains' walk over the registry
    Registrar { key: usize, value: f64 },
    /// `true` = render(), `false` = run_upkeep()
    Drainer { calls: Vec<bool> },
}

#[derive(Clone, Debug)]
struct Spec {
    buckets: bool,
    nkeys: usize, // keys 0..nkeys are registered (and prefilled) before the threads start; key `nkeys` is the registrar's
    prefill: Vec<usize>,
    roles: Vec<Role>,
}

const KEY_NAMES: [&str; 4] = ["lat", "io", "q", "late"];
const PREFILL_VALUE: f64 = 0.5;
/// yield point of the harness itself, right after a scheduled `render()` has returned
const RENDER_DONE: &str = "h.render.done";
/// yield point of the harness itself, right before a scheduled `render()` is called: together with `RENDER_DONE` it
/// delimits the grants of one render in the trace (which drain pass a failed detach CAS belongs to)
const RENDER_BEGIN: &str = "h.render.begin";
/// Failed detaches inside a render's drain pass (Lean: `C05.detach_cas_all_or_nothing`, `C07.conc_render_after_failed_detach_shows_all`;
/// before the fix "clear_with retries its detach when the tail moved under it" this was the defect K-C07-K2,
/// `C07.legacy_render_misses_completed_record`): per scheduled render — (thread, how many renders of that thread came
/// before it) — the keys whose bucket's detach CAS FAILED inside that render's drain pass. Read off the trace alone: a
/// `bkt.clear.cas` grant of the rendering thread, between its `h.render.begin` and `h.render.done` grants, after which the
/// thread's next point is not `bkt.clear.quiesced` (the CAS failed: `clear_with` goes back to `bkt.clear.load_tail` and
/// retries); the key is that of a recording thread whose hand-over CAS (`bkt.push.cas_new`, won: its next point is the
/// claim in the new block) was granted between that drain's tail load and its CAS — the only way the tail of a bucket can
/// change under a drain that holds the distributions lock. Used for the distribution table only: NOTHING is excused by it.
fn failed_detach_keys(spec: &Spec, tr: &[(usize, &'static str)]) -> std::collections::HashMap<(usize, usize), Vec<usize>> {
    let next_of = |gi: usize, t: usize| tr[gi + 1..].iter().find(|(t2, _)| *t2 == t).map(|x| x.1);
    let key_of = |t: usize| match spec.roles.get(t) {
        Some(Role::Recorder { key, .. }) | Some(Role::Registrar { key, .. }) => Some(*key),
        _ => None,
    };
    let mut res: std::collections::HashMap<(usize, usize), Vec<usize>> = Default::default();
    let mut nth = vec![0usize; spec.roles.len()];
    let mut inside = vec![false; spec.roles.len()];
    for (gi, (t, id)) in tr.iter().enumerate() {
        match *id {
            RENDER_BEGIN => inside[*t] = true,
            RENDER_DONE => {
                inside[*t] = false;
                nth[*t] += 1;
            }
            "bkt.clear.cas" if inside[*t] && next_of(gi, *t) != Some("bkt.clear.quiesced") => {
                // the drain's tail load is the rendering thread's previous grant
                let Some(l) = tr[..gi].iter().rposition(|(t2, _)| t2 == t) else { continue };
                for (gu, (u, idu)) in tr.iter().enumerate().take(gi).skip(l + 1) {
                    if *idu == "bkt.push.cas_new" && next_of(gu, *u) == Some("blk.push.claim") {
                        if let Some(k) = key_of(*u) {
                            res.entry((*t, nth[*t])).or_default().push(k);
                        }
                    }
                }
            }
            _ => {}
        }
    }
    res
}
/// block size of the bucket (Generated.bucket_block_size, C05.src_bucket_shape)
const BLOCK: usize = 64;
/// a scheduled run that makes no progress for this long is given up (ordinary runs take milliseconds)
const RUN_DEADLINE_S: u64 = 10;
/// after this many runs that did not complete the concurrent stream stops (see `run_concurrent`)
const MAX_INCOMPLETE: usize = 3;

fn is_bucket_point(id: &str) -> bool {
    id == "start" || id.starts_with("bkt.") || id.starts_with("blk.") || id.starts_with("spin:bkt.")
}

/// the scene is ONE histogram key touched only by recorder and drainer threads: the run is replayed on the Lean model
/// `Model/PromConc.lean` (theorems `Props/C07Conc.lean`)
fn tied(spec: &Spec) -> bool {
    spec.nkeys == 1 && spec.roles.iter().all(|r| matches!(r, Role::Recorder { key: 0, .. } | Role::Drainer { .. }))
}

/// Model tie for single-key scenes: `promconc run …` replays the executed grants on the bucket step machine and answers
/// the labels of the steps, the EXACT number of K1 steps (Lean `k1Step`), what every scheduled `render()` showed
/// (`_count:_sum` in units of 0.5) and what the render after the run shows. Returns the exact K1 count of the trace.
fn model_tie(out: &mut Out, spec: &Spec, sh: &Shared, run: &crate::sched::RunResult, fin: &[(u64, f64)]) -> Option<u64> {
    if !tied(spec) {
        return None;
    }
    let units = |v: f64| (v * 2.0) as u64;
    let recs: Vec<String> = spec
        .roles
        .iter()
        .filter_map(|r| match r {
            Role::Recorder { calls, .. } => {
                let vs: Vec<String> = calls.iter().flat_map(|(v, c)| std::iter::repeat(units(*v).to_string()).take(*c)).collect();
                Some(if vs.is_empty() { "-".to_string() } else { vs.join("+") })
            }
            _ => None,
        })
        .collect();
    let drains: Vec<String> = spec
        .roles
        .iter()
        .filter_map(|r| match r {
            Role::Drainer { calls } => Some(calls.len().to_string()),
            _ => None,
        })
        .collect();
    let toks: Vec<String> = run
        .trace
        .iter()
        .map(|(t, id)| {
            if *id == RENDER_DONE {
                format!("{}m", t)
            } else if is_bucket_point(id) {
                format!("{}", t)
            } else {
                format!("{}n", t)
            }
        })
        .collect();
    let labels: Vec<&str> = run.trace.iter().filter(|(_, id)| is_bucket_point(id)).map(|x| x.1).collect();
    let bucket_trace: Vec<(usize, &'static str)> = run.trace.iter().filter(|(_, id)| is_bucket_point(id)).cloned().collect();
    let k1 = crate::c05::signatures_of_trace(&bucket_trace).k1_exact as u64;
    // what the scheduled renders showed, in the order of their marker grants
    let all = sh.renders.lock().unwrap().clone();
    let mut per_thread: Vec<std::collections::VecDeque<String>> = vec![Default::default(); spec.roles.len()];
    for (t, _, _, text, _, _) in &all {
        let c = counts_of(text).map(|c| format!("{}:{}", c[0].0, units(c[0].1))).unwrap_or_else(|e| format!("unparseable({})", e.len()));
        per_thread[*t].push_back(c);
    }
    let mut shown = vec![];
    for (t, id) in &run.trace {
        if *id == RENDER_DONE {
            shown.push(per_thread[*t].pop_front().unwrap_or_else(|| "missing".into()));
        }
    }
    out.op(
        &format!(
            "promconc run {} {} {} {} {}",
            BLOCK,
            spec.prefill[0],
            if recs.is_empty() { ".".to_string() } else { recs.join(",") },
            if drains.is_empty() { ".".to_string() } else { drains.join(",") },
            if toks.is_empty() { "-".to_string() } else { toks.join(".") }
        ),
        &format!(
            "{} | k1={} | renders={} | final={}:{}",
            labels.join("."),
            k1,
            if shown.is_empty() { ".".to_string() } else { shown.join(",") },
            fin[0].0,
            units(fin[0].1)
        ),
    );
    out.count("concurrent.replayed-on-the-Lean-model");
    if k1 > 0 {
        out.count("concurrent.runs-with-a-K1-step(Lean k1Step)");
    }
    Some(k1)
}

// ------------------------------------------------------------------------------------------------------------------
// Per-key attribution of a multi-key run (round 7, audit item 1: the K-C07-K1 allowance used to be ONE coarse number — any
// claim with any `bkt.clear.cas` grant since the thread's last tail load, other keys' buckets and failed CASes included —
// applied to every key).  The buckets of different keys share nothing, so a run over several keys is, per key, a run of the
// one-series machine `Model/PromConc.lean`: the recording threads of that key plus, of every draining thread, the grants of
// the ONE `clear_with` per drain pass that works on that key's bucket (Lean: `C07.src_drain_every_key`).
// Which `clear_with` of a pass belongs to which key cannot be computed: `Registry::get_histogram_handles` collects the
// handles into a fresh std `HashMap` (RandomState), so the order of the keys differs from pass to pass.  It is REPORTED by
// the code: hook-C07 adds, under cfg(metrics_verif), `metrics::verif::note("prom.drain.key", key.name())` right before the
// `clear_with` of every key in `drain_histograms_to_distributions` (a note, not a yield point: nothing parks there, the
// schedules of every stream stay what they were); the hook below logs it per draining thread.
// ------------------------------------------------------------------------------------------------------------------
thread_local! {
    /// set by a draining thread's body: (its thread index, the scene)
    static DRAINER: std::cell::RefCell<Option<(usize, Arc<Shared>)>> = std::cell::RefCell::new(None);
}
fn note_hook(id: &'static str, what: &str) {
    if id == "prom.drain.key" {
        DRAINER.with(|d| {
            if let Some((t, sh)) = d.borrow().as_ref() {
                sh.visited.lock().unwrap().push((*t, what.to_string()));
            }
        });
    }
}

fn is_clear_point(id: &str) -> bool {
    id.starts_with("bkt.clear.") || id.starts_with("spin:bkt.clear.")
}

/// Per key `k`: the grant indices (into the trace) of the draining threads' steps inside a `clear_with` on key `k`'s
/// bucket.  A draining thread's `clear_with` calls are cut out of its grants (a call begins at a `bkt.clear.load_tail`
/// grant that does not follow a failed detach CAS of the same thread); the j-th call of a thread works on the key of the
/// thread's j-th `prom.drain.key` note.  `None` = the notes and the trace do not fit (then nothing is attributed and the
/// caller falls back to the coarse allowance, counting it; never seen on the unchanged tree).
fn attribute(spec: &Spec, sh: &Shared, tr: &[(usize, &'static str)]) -> Option<Vec<Vec<usize>>> {
    let visited = sh.visited.lock().unwrap().clone();
    let mut per_key: Vec<Vec<usize>> = vec![vec![]; KEY_NAMES.len()];
    for (t, role) in spec.roles.iter().enumerate() {
        if !matches!(role, Role::Drainer { .. }) {
            continue;
        }
        // the clear_with calls of thread t, each the list of its grant indices
        let mut cw: Vec<Vec<usize>> = vec![];
        let mut prev: &str = "";
        for (gi, (t2, id)) in tr.iter().enumerate() {
            if *t2 != t {
                continue;
            }
            if is_clear_point(id) {
                if *id == "bkt.clear.load_tail" && prev != "bkt.clear.cas" {
                    cw.push(vec![]);
                }
                cw.last_mut()?.push(gi);
            }
            prev = id;
        }
        let keys: Vec<usize> = visited.iter().filter(|(t2, _)| *t2 == t).map(|(_, name)| KEY_NAMES.iter().position(|n| n == name)).collect::<Option<_>>()?;
        if keys.len() != cw.len() {
            return None;
        }
        for (k, grants) in keys.into_iter().zip(cw) {
            per_key[k].extend(grants);
        }
    }
    // sanity: a detach CAS (reached only on a non-null tail) on a key nobody has pushed to yet contradicts the attribution
    for (k, grants) in per_key.iter().enumerate() {
        for gi in grants {
            if tr[*gi].1 == "bkt.clear.cas" && spec.prefill.get(k).copied().unwrap_or(0) == 0 {
                let pushed_before = tr[..*gi].iter().any(|(u, id)| {
                    matches!(*id, "bkt.push.cas_first")
                        && matches!(spec.roles.get(*u), Some(Role::Recorder { key, .. }) | Some(Role::Registrar { key, .. }) if *key == k)
                });
                if !pushed_before {
                    return None;
                }
            }
        }
    }
    Some(per_key)
}

/// The run projected on key `k`: the bucket-machine grants of the threads recording under `k` and the draining threads'
/// grants attributed to `k` (`attribute`), in trace order, with the ORIGINAL thread ids.
fn projection(spec: &Spec, tr: &[(usize, &'static str)], attributed: &[usize], k: usize) -> Vec<(usize, &'static str)> {
    let mut res = vec![];
    for (gi, (t, id)) in tr.iter().enumerate() {
        match spec.roles.get(*t) {
            Some(Role::Recorder { key, .. }) | Some(Role::Registrar { key, .. }) if *key == k && is_bucket_point(id) => res.push((*t, *id)),
            Some(Role::Drainer { .. }) if attributed.contains(&gi) => res.push((*t, *id)),
            _ => {}
        }
    }
    res
}

/// EXACT number of K1 steps (Lean `k1Step`) on key `k`'s bucket: `c05::signatures_of_trace(..).k1_exact` of the projection
fn k1_of_key(spec: &Spec, tr: &[(usize, &'static str)], attributed: &[usize], k: usize) -> u64 {
    crate::c05::signatures_of_trace(&projection(spec, tr, attributed, k)).k1_exact as u64
}

/// Model tie per key (round 7; before: single-key scenes only): for every key registered before the threads started, the
/// run projected on that key is replayed on the one-series machine (`promconc run`, Driver/PromConc.lean) and must give
/// the labels of the steps, the exact K1 count, what EVERY scheduled render showed for that key (`_count:_sum`) and what
/// the render after the run shows.  Threads are renumbered per key: the key's recorders first, then the draining threads.
fn model_tie_key(out: &mut Out, spec: &Spec, sh: &Shared, run: &crate::sched::RunResult, fin: &[(u64, f64)], attributed: &[usize], k: usize) -> u64 {
    let units = |v: f64| (v * 2.0) as u64;
    let mut ids: Vec<Option<usize>> = vec![None; spec.roles.len()];
    let mut recs: Vec<String> = vec![];
    for (t, r) in spec.roles.iter().enumerate() {
        if let Role::Recorder { key, calls } = r {
            if *key == k {
                ids[t] = Some(recs.len());
                let vs: Vec<String> = calls.iter().flat_map(|(v, c)| std::iter::repeat(units(*v).to_string()).take(*c)).collect();
                recs.push(if vs.is_empty() { "-".to_string() } else { vs.join("+") });
            }
        }
    }
    let mut drains: Vec<String> = vec![];
    for (t, r) in spec.roles.iter().enumerate() {
        if let Role::Drainer { calls } = r {
            ids[t] = Some(recs.len() + drains.len());
            drains.push(calls.len().to_string());
        }
    }
    let mut toks: Vec<String> = vec![];
    let mut labels: Vec<&str> = vec![];
    for (gi, (t, id)) in run.trace.iter().enumerate() {
        let Some(p) = ids[*t] else { continue };
        let is_drainer = matches!(spec.roles[*t], Role::Drainer { .. });
        if *id == RENDER_DONE {
            toks.push(format!("{}m", p));
        } else if (!is_drainer && is_bucket_point(id)) || (is_drainer && (*id == "start" || attributed.contains(&gi))) {
            toks.push(format!("{}", p));
            labels.push(id);
        } else {
            toks.push(format!("{}n", p));
        }
    }
    let k1 = k1_of_key(spec, &run.trace, attributed, k);
    let all = sh.renders.lock().unwrap().clone();
    let mut per_thread: Vec<std::collections::VecDeque<String>> = vec![Default::default(); spec.roles.len()];
    for (t, _, _, text, _, _) in &all {
        let c = counts_of(text).map(|c| format!("{}:{}", c[k].0, units(c[k].1))).unwrap_or_else(|e| format!("unparseable({})", e.len()));
        per_thread[*t].push_back(c);
    }
    let mut shown = vec![];
    for (t, id) in &run.trace {
        if *id == RENDER_DONE {
            shown.push(per_thread[*t].pop_front().unwrap_or_else(|| "missing".into()));
        }
    }
    out.op(
        &format!(
            "promconc run {} {} {} {} {}",
            BLOCK,
            spec.prefill[k],
            if recs.is_empty() { ".".to_string() } else { recs.join(",") },
            if drains.is_empty() { ".".to_string() } else { drains.join(",") },
            if toks.is_empty() { "-".to_string() } else { toks.join(".") }
        ),
        &format!(
            "{} | k1={} | renders={} | final={}:{}",
            labels.join("."),
            k1,
            if shown.is_empty() { ".".to_string() } else { shown.join(",") },
            fin[k].0,
            units(fin[k].1)
        ),
    );
    out.count(if tied(spec) { "concurrent.replayed-on-the-Lean-model" } else { "concurrent.replayed-on-the-Lean-model(per-key projection of a multi-key run)" });
    if k1 > 0 {
        out.count("concurrent.runs-with-a-K1-step(Lean k1Step)");
    }
    k1
}

struct Shared {
    handle: metrics_exporter_prometheus::PrometheusHandle,
    /// per key: record() calls begun / returned (a `record_many(v, c)` counts c at once on both sides)
    started: Vec<AtomicU64>,
    done: Vec<AtomicU64>,
    seq: AtomicU64,
    /// (thread, seq at start, done[] at start, text, started[] at end, seq at end)
    renders: Mutex<Vec<(usize, u64, Vec<u64>, String, Vec<u64>, u64)>>,
    /// (draining thread, key name) of every `prom.drain.key` note (hook-C07), in the order they were given
    visited: Mutex<Vec<(usize, String)>>,
}

fn build_scene(spec: &Spec) -> (Vec<Box<dyn FnOnce() + Send + 'static>>, Arc<Shared>) {
    use metrics::{Key, Recorder};
    use metrics_exporter_prometheus::PrometheusBuilder;
    static META: metrics::Metadata<'static> = metrics::Metadata::new("mv", metrics::Level::INFO, None);
    let mut b = PrometheusBuilder::new();
    if spec.buckets {
        b = b.set_buckets(&[0.75, 3.0]).unwrap();
    }
    let rec = Arc::new(b.build_recorder());
    let sh = Arc::new(Shared {
        handle: rec.handle(),
        started: (0..KEY_NAMES.len()).map(|_| AtomicU64::new(0)).collect(),
        done: (0..KEY_NAMES.len()).map(|_| AtomicU64::new(0)).collect(),
        seq: AtomicU64::new(0),
        renders: Mutex::new(vec![]),
        visited: Mutex::new(vec![]),
    });
    let mut handles = vec![];
    for k in 0..spec.nkeys {
        let h = rec.register_histogram(&Key::from_name(KEY_NAMES[k]), &META);
        for _ in 0..spec.prefill[k] {
            h.record(PREFILL_VALUE);
        }
        sh.started[k].fetch_add(spec.prefill[k] as u64, Ordering::SeqCst);
        sh.done[k].fetch_add(spec.prefill[k] as u64, Ordering::SeqCst);
        handles.push(h);
    }
    let mut bodies: Vec<Box<dyn FnOnce() + Send + 'static>> = vec![];
    for (t, role) in spec.roles.iter().cloned().enumerate() {
        let sh = sh.clone();
        match role {
            Role::Recorder { key, calls } => {
                let h = handles[key].clone();
                bodies.push(Box::new(move || {
                    for (v, c) in calls {
                        sh.started[key].fetch_add(c as u64, Ordering::SeqCst);
                        if c == 1 {
                            h.record(v);
                        } else {
                            h.record_many(v, c);
                        }
                        sh.done[key].fetch_add(c as u64, Ordering::SeqCst);
                    }
                }));
            }
            Role::Registrar { key, value } => {
                let rec = rec.clone();
                bodies.push(Box::new(move || {
                    sh.started[key].fetch_add(1, Ordering::SeqCst);
                    rec.register_histogram(&Key::from_name(KEY_NAMES[key]), &META).record(value);
                    sh.done[key].fetch_add(1, Ordering::SeqCst);
                }));
            }
            Role::Drainer { calls } => {
                bodies.push(Box::new(move || {
                    DRAINER.with(|d| *d.borrow_mut() = Some((t, sh.clone())));
                    for is_render in calls {
                        if is_render {
                            // marker grant: the grants of this render (its drain pass included) lie between this point and
                            // the RENDER_DONE point below (no model step: the driver takes non-bucket points as no-ops)
                            metrics::verif::point(RENDER_BEGIN);
                            let s0 = sh.seq.fetch_add(1, Ordering::SeqCst);
                            let lo: Vec<u64> = sh.done.iter().map(|a| a.load(Ordering::SeqCst)).collect();
                            let text = sh.handle.render();
                            // marker grant: the render read the distributions in this thread's PREVIOUS grant (model tie)
                            metrics::verif::point(RENDER_DONE);
                            let hi: Vec<u64> = sh.started.iter().map(|a| a.load(Ordering::SeqCst)).collect();
                            let s1 = sh.seq.fetch_add(1, Ordering::SeqCst);
                            sh.renders.lock().unwrap().push((t, s0, lo, text, hi, s1));
                        } else {
                            sh.handle.run_upkeep();
                        }
                    }
                    DRAINER.with(|d| *d.borrow_mut() = None);
                }));
            }
        }
    }
    (bodies, sh)
}

/// per key: (`_count`, `_sum`) of the series of that key in an exposition text (absent series = (0, 0))
fn counts_of(text: &str) -> Result<Vec<(u64, f64)>, String> {
    let fams = crate::expo::check_exposition(text)?;
    let mut res = vec![(0u64, 0.0f64); KEY_NAMES.len()];
    for (k, name) in KEY_NAMES.iter().enumerate() {
        for (n, _, v) in fams.iter().flat_map(|f| f.samples.iter()) {
            if *n == format!("{}_count", name) {
                res[k].0 = v.parse().map_err(|_| format!("count {:?}", v))?;
            }
            if *n == format!("{}_sum", name) {
                res[k].1 = v.parse().map_err(|_| format!("sum {:?}", v))?;
            }
        }
    }
    Ok(res)
}

/// Upper bound on the samples the known bucket finding (K-C05-K1) can lose in this trace: pushes whose slot claim comes
/// after a clear's detach step that lies after their own load of the tail. Each such push loses at most itself.
fn k1_stragglers(tr: &[(usize, &'static str)]) -> u64 {
    let n_threads = tr.iter().map(|(t, _)| *t).max().map_or(0, |m| m + 1);
    let mut loaded: Vec<Option<usize>> = vec![None; n_threads];
    let mut clears: Vec<usize> = vec![];
    let mut n = 0;
    for (gi, (t, id)) in tr.iter().enumerate() {
        match *id {
            "bkt.push.load_tail" => loaded[*t] = Some(gi),
            "bkt.clear.cas" => clears.push(gi),
            "blk.push.claim" => {
                if let Some(l) = loaded[*t] {
                    if clears.iter().any(|c| *c > l && *c < gi) {
                        n += 1;
                    }
                }
            }
            _ => {}
        }
    }
    n
}

/// returns false when the scheduled run did not complete (a thread blocked outside a yield point)
fn judge(out: &mut Out, spec: &Spec, sh: &Shared, run: &crate::sched::RunResult) -> bool {
    if run.timed_out && !run.deadlock && run.panicked.is_empty() {
        // Not a verdict about the property: the scheduler could not drive this run (some thread blocked where there is no
        // yield point, e.g. on a lock that a parked thread holds). Reported by `run_concurrent` as a broken correspondence.
        out.count("concurrent.run-did-not-complete");
        return false;
    }
    if run.deadlock || run.timed_out || !run.panicked.is_empty() {
        out.oracle_fail(
            "record racing render/upkeep: deadlock, timeout or panic",
            &format!("deadlock={} timeout={} panicked={:?} spec {:?} trace {:?}", run.deadlock, run.timed_out, run.panicked, spec, run.trace),
        );
        return true;
    }
    judge_completed(out, spec, sh, run);
    true
}

fn judge_completed(out: &mut Out, spec: &Spec, sh: &Shared, run: &crate::sched::RunResult) {
    // ---- FIRST, before anything else touches the recorder again: a scheduled render that shows more samples of a key than
    // record() calls had begun when it ended has counted a sample twice.  (Round 7, after seed C07-7: a double count that
    // comes from a retired block being reachable again is followed by that block being freed twice; the render after the
    // run — and every later drain — flushes the epoch collector and can crash the process, so the verdict on what the
    // scheduled renders showed is written down before the next call into the exporter.)
    {
        let renders = sh.renders.lock().unwrap().clone();
        for (t, _, _, text, hi, _) in &renders {
            if let Ok(c) = counts_of(text) {
                for k in 0..KEY_NAMES.len() {
                    if c[k].0 > hi[k] {
                        out.oracle_fail(
                            "a render() concurrent with record() shows more samples than record() calls begun (a sample counted twice) [no-known-signature]",
                            &format!("key {} thread {}: shows {} but only {} begun; spec {:?} trace {:?}", KEY_NAMES[k], t, c[k].0, hi[k], spec, run.trace),
                        );
                        return;
                    }
                }
            }
        }
    }
    // ---- the render after everything finished (taken first: the model tie needs it, and it is the same whenever taken)
    let text = sh.handle.render();
    let fin = match counts_of(&text) {
        Ok(c) => c,
        Err(e) => {
            out.oracle_fail("render(): not well-formed exposition text", &format!("{} :: {:?}", e, text));
            return;
        }
    };
    // K1 allowance PER KEY: the exact number of K1 steps (Lean `k1Step`) on that key's bucket, from the run projected on the
    // key (`attribute`, `projection`); every key registered before the threads started is also replayed on the Lean model.
    // Only when the trace cannot be attributed (counted; never seen on the unchanged tree) the old coarse number is used.
    let allowance: Vec<u64> = if tied(spec) {
        let k1 = model_tie(out, spec, sh, run, &fin).unwrap_or(0);
        let mut a = vec![0; KEY_NAMES.len()];
        a[0] = k1;
        a
    } else {
        match attribute(spec, sh, &run.trace) {
            Some(att) => {
                out.count("concurrent.multi-key-run-attributed-per-key");
                (0..KEY_NAMES.len())
                    .map(|k| if k < spec.nkeys { model_tie_key(out, spec, sh, run, &fin, &att[k], k) } else { k1_of_key(spec, &run.trace, &att[k], k) })
                    .collect()
            }
            None => {
                out.count("concurrent.multi-key-run-NOT-attributed(coarse K1 allowance)");
                vec![k1_stragglers(&run.trace); KEY_NAMES.len()]
            }
        }
    };
    let nk = KEY_NAMES.len();
    // what was recorded, per key
    let mut total = vec![0u64; nk];
    let mut total_sum = vec![0.0f64; nk];
    let (mut vmin, mut vmax) = (PREFILL_VALUE, PREFILL_VALUE);
    for k in 0..spec.nkeys {
        total[k] += spec.prefill[k] as u64;
        total_sum[k] += PREFILL_VALUE * spec.prefill[k] as f64;
    }
    for role in &spec.roles {
        match role {
            Role::Recorder { key, calls } => {
                for (v, c) in calls {
                    total[*key] += *c as u64;
                    total_sum[*key] += *v * *c as f64;
                    vmin = vmin.min(*v);
                    vmax = vmax.max(*v);
                }
            }
            Role::Registrar { key, value } => {
                total[*key] += 1;
                total_sum[*key] += *value;
                vmin = vmin.min(*value);
                vmax = vmax.max(*value);
            }
            _ => {}
        }
    }
    if run.trace.iter().any(|(_, id)| id.starts_with("bkt.clear")) && run.trace.iter().any(|(_, id)| *id == "blk.push.claim") {
        out.nontrivial();
    }
    if run.trace.iter().any(|(_, id)| *id == "spin:prom.dist.lock") {
        out.count("concurrent.drainer_waited_for_the_distributions_lock");
    }
    // ---- renders taken while the threads were running
    let mut renders = sh.renders.lock().unwrap().clone();
    renders.sort_by_key(|r| r.1);
    let mut parsed: Vec<(usize, u64, u64, Vec<(u64, f64)>)> = vec![];
    // renders whose drain pass had a failed (hence retried) detach CAS on a key's bucket (read off the trace): counted only
    let fd_keys = failed_detach_keys(spec, &run.trace);
    if !fd_keys.is_empty() {
        out.count("concurrent.runs-with-a-failed-detach-inside-a-render's-drain(retried)");
    }
    let mut nth_render = vec![0usize; spec.roles.len()];
    for (t, s0, lo, text, hi, s1) in &renders {
        let retried: Vec<usize> = fd_keys.get(&(*t, nth_render[*t])).cloned().unwrap_or_default();
        nth_render[*t] += 1;
        let c = match counts_of(text) {
            Ok(c) => c,
            Err(e) => {
                out.oracle_fail("render(): not well-formed exposition text", &format!("{} :: {:?}", e, text));
                return;
            }
        };
        for k in 0..nk {
            // every record() that had returned before this render began is in it (up to the known stragglers) — ALSO when
            // the detach CAS of this render's drain pass failed (it is retried: `C07.conc_render_shows_completed_partial`);
            // nothing is in it that had not at least begun when it ended
            if retried.contains(&k) && c[k].0 + allowance[k] >= lo[k] && lo[k] > 0 {
                out.count("concurrent.render-shows-completed-records-after-a-failed-detach-in-its-drain(retry)");
            }
            if c[k].0 + allowance[k] < lo[k] {
                out.oracle_fail(
                    "a render() concurrent with record()/render()/run_upkeep() misses samples whose record() had returned before it started [no-known-signature]",
                    &format!(
                        "key {} thread {}: shows {} but {} record() calls had returned (K1 steps on this key's bucket in the trace: {}; failed detach of this key inside this render's drain: {}); spec {:?} trace {:?}",
                        KEY_NAMES[k], t, c[k].0, lo[k], allowance[k], retried.contains(&k), spec, run.trace
                    ),
                );
                return;
            }
            if c[k].0 > hi[k] {
                out.oracle_fail(
                    "a render() concurrent with record() shows more samples than record() calls begun (a sample counted twice) [no-known-signature]",
                    &format!("key {} thread {}: shows {} but only {} begun; spec {:?} trace {:?}", KEY_NAMES[k], t, c[k].0, hi[k], spec, run.trace),
                );
                return;
            }
        }
        parsed.push((*t, *s0, *s1, c));
    }
    // (checked after the renders, so that a render that falls short is reported as such) since the fix a failed detach CAS of `clear_with` must be followed by another tail load of the same thread
    for (gi, (t, id)) in run.trace.iter().enumerate() {
        if *id == "bkt.clear.cas" {
            let next = run.trace[gi + 1..].iter().find(|(t2, _)| t2 == t).map(|x| x.1);
            if !matches!(next, Some("bkt.clear.quiesced") | Some("bkt.clear.load_tail") | None) {
                out.oracle_fail(
                    "a drain pass whose detach compare-exchange failed did not load the tail again (clear_with gave up without draining) [no-known-signature]",
                    &format!("thread {} grant {} next point {:?}; spec {:?} trace {:?}", t, gi, next, spec, run.trace),
                );
                return;
            }
        }
    }
    // _count never goes back: a render that began after another one ended shows at least as much
    for a in &parsed {
        for b in &parsed {
            if a.2 < b.1 {
                for k in 0..nk {
                    if b.3[k].0 < a.3[k].0 {
                        out.oracle_fail(
                            "histogram _count went down between two renders [no-known-signature]",
                            &format!("key {}: {} then {}; spec {:?} trace {:?}", KEY_NAMES[k], a.3[k].0, b.3[k].0, spec, run.trace),
                        );
                        return;
                    }
                }
            }
        }
    }
    // ---- after everything finished
    let mut lost_all = 0u64;
    let mut excused = true;
    for k in 0..nk {
        if fin[k].0 > total[k] {
            out.oracle_fail(
                "histogram _count after record() raced render()/run_upkeep() is more than the number of samples recorded (a sample counted twice) [no-known-signature]",
                &format!("key {} want {} got {}; spec {:?} trace {:?}", KEY_NAMES[k], total[k], fin[k].0, spec, run.trace),
            );
            return;
        }
        let lost = total[k] - fin[k].0;
        lost_all += lost;
        // the known bucket finding explains at most one lost sample per K1 step ON THIS KEY'S bucket
        excused &= lost <= allowance[k];
        let diff = total_sum[k] - fin[k].1;
        let sum_ok = if lost == 0 { diff == 0.0 } else { diff >= vmin * lost as f64 && diff <= vmax * lost as f64 };
        if !sum_ok {
            out.oracle_fail(
                "histogram _sum after record() raced render()/run_upkeep() is not the sum of the samples counted [no-known-signature]",
                &format!("key {} count {} of {}, sum {} of {}; spec {:?} trace {:?}", KEY_NAMES[k], fin[k].0, total[k], fin[k].1, total_sum[k], spec, run.trace),
            );
            return;
        }
    }
    if lost_all > 0 {
        // a larger shortfall on some key than K1 steps on that key's bucket (or one on a key without the shape) is not that finding
        let tag = if excused { "K1:straggler-push-on-detached-block" } else { "no-known-signature" };
        out.oracle_fail(
            &format!("histogram _count after record() raced render()/run_upkeep() is not the number of samples recorded [{}]", tag),
            &format!("lost {} (K1 steps per key in the trace: {:?}) want {:?} got {:?}; spec {:?} trace {:?}", lost_all, allowance, total, fin, spec, run.trace),
        );
    }
}

/// grants of draining thread `d` at `spin:bkt.clear.wait` while recording thread `w` is parked between its slot claim and
/// its publish (between the grant of its `blk.push.claim` and the grant of its `blk.push.publish`)
fn long_stall_rounds(tr: &[(usize, &'static str)], w: usize, d: usize) -> usize {
    let Some(a) = tr.iter().position(|(t, id)| *t == w && *id == "blk.push.claim") else { return 0 };
    let Some(b) = tr.iter().position(|(t, id)| *t == w && *id == "blk.push.publish") else { return 0 };
    tr[a..b].iter().filter(|(t, id)| *t == d && *id == "spin:bkt.clear.wait").count()
}

/// the shape of the hand-over scenes: recorder `w`'s hand-over CAS (`bkt.push.cas_new`) is followed by a tail load and a
/// first-block CAS (it lost to a detach), a successful detach of `d` lies between `w`'s failed claim and that CAS, and `d`
/// does another detach after `w`'s publish and before pinner `p` is granted for the second time (`p` still inside record())
fn hand_over_lost_to_drain(tr: &[(usize, &'static str)], w: usize, p: usize, d: usize) -> bool {
    let pos = |from: usize, t: usize, id: &str| tr[from..].iter().position(|(t2, id2)| *t2 == t && *id2 == id).map(|x| x + from);
    let Some(cas_new) = pos(0, w, "bkt.push.cas_new") else { return false };
    let Some(first) = pos(cas_new, w, "bkt.push.cas_first") else { return false };
    let Some(publish) = pos(first, w, "blk.push.publish") else { return false };
    let Some(d1) = pos(0, d, "bkt.clear.cas") else { return false };
    let Some(d2) = pos(publish, d, "bkt.clear.cas") else { return false };
    let Some(d2_end) = pos(d2, d, RENDER_DONE) else { return false };
    let pinner_grants: Vec<usize> = tr.iter().enumerate().filter(|(_, (t, _))| *t == p).map(|x| x.0).collect();
    d1 < cas_new && pinner_grants.len() >= 2 && pinner_grants[0] < d1 && pinner_grants[1] > d2_end
}

fn random_spec(r: &mut Rng) -> Spec {
    // half of the scenes have ONE key (those are replayed on the Lean model, see `tied`)
    let nkeys = if r.chance(1, 2) { 1 } else { r.range(2, 3) };
    let prefill: Vec<usize> = (0..nkeys).map(|_| *r.pick(&[0usize, 0, 1, 62, 63, 64, 65])).collect();
    let mut roles = vec![];
    for t in 0..r.range(1, 3) {
        let key = r.below(nkeys);
        let v = [1.0, 2.0, 4.0][t];
        let calls: Vec<(f64, usize)> = (0..r.range(1, 2)).map(|_| (v, if r.chance(1, 5) { 2 } else { 1 })).collect();
        roles.push(Role::Recorder { key, calls });
    }
    if r.chance(1, if nkeys == 1 { 5 } else { 3 }) {
        roles.push(Role::Registrar { key: nkeys, value: 8.0 });
    }
    for _ in 0..r.range(1, 2) {
        let calls: Vec<bool> = (0..r.range(1, 2)).map(|_| r.chance(3, 5)).collect();
        roles.push(Role::Drainer { calls });
    }
    Spec { buckets: r.chance(1, 2), nkeys, prefill, roles }
}

/// Concurrent stream: `record()` / `record_many()` / first registration of a key on several threads racing several
/// `render()` / `run_upkeep()` threads on a real recorder (one to three keys, summary and bucketed configurations) under
/// the deterministic scheduler (yield points of the bucket, the registry, and the exporter's distributions lock).
/// Oracles, per key: every render taken DURING the run shows at least the samples whose `record()` had returned before
/// it began and at most those begun before it ended; `_count` never goes down from one render to a later one; after
/// everything finished `_count` is the number of samples recorded and `_sum` their sum. The known bucket finding
/// (a push on a block that a drain detached meanwhile) excuses, PER KEY, at most one sample per K1 step on that key's bucket
/// (exact count, `attribute` / `k1_of_key`); every key registered before the threads start is replayed on the Lean model.
pub fn run_concurrent(cfg: &Cfg, out: &mut Out) {
    let root = Rng::new(cfg.seed ^ 0xC07C);
    let n = if cfg.thorough { 1500 } else { 300 };
    // Scheduled runs that do not complete (a thread blocked outside a yield point: the scheduler waits for it to park
    // until the run's deadline) say nothing about the property, and every one of them costs the deadline. After
    // MAX_INCOMPLETE of them the stream stops and says so in its last op (`promconc stream complete`), which the model
    // answers with `complete`: the check then reports a broken correspondence, not an oracle failure.
    // Before it stops it degrades once: after the first MAX_INCOMPLETE such runs only scenes with ONE draining thread are
    // generated (two drain passes are the only calls of the scenes that can contend on an exporter-side lock; recording is
    // lock-free) and the deadline shrinks, so that a change which makes concurrent drains unschedulable still gets its
    // record-vs-drain interleavings examined for a failing input.
    let mut incomplete: Vec<String> = vec![];
    metrics::verif::set_note_hook(Some(note_hook));
    for i in 0..n {
        if incomplete.len() >= 2 * MAX_INCOMPLETE {
            break;
        }
        let degraded = incomplete.len() >= MAX_INCOMPLETE;
        let mut r = root.fork(i as u64);
        out.case(&format!("concurrent seed={} i={}", cfg.seed, i));
        // the first cases are the targeted shape: the recorders' claims fill the block exactly, the first recorder is
        // held between its slot claim and its publish while the others finish and the drain runs
        let targeted = i < 6;
        // second targeted shape (cases 6..17): record() calls that run ENTIRELY inside a drain pass's walk over the chain it
        // has just detached (between the detach and the end of `clear_with`), with nothing recorded afterwards: the samples
        // land in a fresh block and must be shown by the next render — whatever the drain pass remembers about the key
        let inside = (6..18).contains(&i);
        let mut spec = if targeted {
            let nrec = 1 + i % 3;
            let mut roles: Vec<Role> = (0..nrec).map(|t| Role::Recorder { key: 0, calls: vec![([1.0, 2.0, 4.0][t], 1)] }).collect();
            roles.push(Role::Drainer { calls: (0..r.range(1, 2)).map(|_| r.chance(1, 2)).collect() });
            Spec { buckets: false, nkeys: 1, prefill: vec![64 - nrec], roles }
        } else if inside {
            let nrec = 1 + i % 2;
            let mut roles: Vec<Role> =
                (0..nrec).map(|t| Role::Recorder { key: 0, calls: vec![([1.0, 2.0][t], if i % 5 == 0 { 2 } else { 1 })] }).collect();
            roles.push(Role::Drainer { calls: if i % 3 == 0 { vec![i % 4 == 0, true] } else { vec![i % 4 == 0] } });
            Spec { buckets: i % 2 == 1, nkeys: 1, prefill: vec![[1usize, 2, 63, 64, 65, 1][(i - 6) % 6]], roles }
        } else if i == 18 {
            // corpus: the witness of `C07.conc_hist_exact_fails` (K-C07-K1) replayed on the real exporter, block size 64
            Spec {
                buckets: false,
                nkeys: 1,
                prefill: vec![0],
                roles: vec![
                    Role::Recorder { key: 0, calls: vec![(0.5, 1)] },
                    Role::Recorder { key: 0, calls: vec![(1.0, 1)] },
                    Role::Drainer { calls: vec![false] },
                ],
            }
        } else if i == 19 || i == 21 {
            // corpus: the schedule of `C07.legacy_render_misses_completed_record` / `C07.conc_render_after_failed_detach_shows_all`
            // (the repaired defect, formerly K-C07-K2) on the real exporter, block size 64: 64 samples recorded (their
            // record() calls have returned) fill the tail block; the drain pass of a render()/run_upkeep() loads the tail and
            // is parked at its detach CAS; a record() finds the block full, installs a new tail block and returns; the
            // drain's CAS fails — and `clear_with` loads the tail again, detaches and folds all 65.
            // i == 19: the pass belongs to a render(): it must show _count 65 (before the fix: 0 although 64 record() calls
            // had returned before it began). i == 21: the pass is a run_upkeep(), the render after it shows all 65.
            Spec {
                buckets: false,
                nkeys: 1,
                prefill: vec![64],
                roles: vec![Role::Recorder { key: 0, calls: vec![(1.0, 1)] }, Role::Drainer { calls: vec![i == 19, true] }],
            }
        } else if i == 20 {
            // the same through a scene with TWO keys (not replayed on the one-key model): no key may fall short
            Spec {
                buckets: true,
                nkeys: 2,
                prefill: vec![64, 64],
                roles: vec![
                    Role::Recorder { key: 0, calls: vec![(1.0, 1)] },
                    Role::Recorder { key: 1, calls: vec![(2.0, 1)] },
                    Role::Drainer { calls: vec![true, true] },
                ],
            }
        } else if (22..26).contains(&i) {
            // (round 4, after seed C07-8; made deterministic in round 7) LONG stall: a recorder of key 0 is held between its
            // slot claim and its publish while the drain pass of a render()/run_upkeep() has detached the chain and waits
            // for that block to quiesce; a second recorder (the "ticker", 12 records) is granted between any two rounds of
            // the wait, so that the waiting drain is granted again and again (a `spin:` point is runnable only after
            // another thread has moved) — 40 rounds, far more than any bounded back-off; the wait must last as long as
            // the writer is in flight — a drain that gives up after a bounded number of rounds reads a block with a
            // claimed, unpublished slot and the sample is lost.  The drainer runs ALONE up to its first wait (the ticker
            // starts only afterwards: none of its pushes straddles the detach, so no K1 step exists in these scenes) and
            // the shape is checked on the trace after the run (`long_stall_rounds`).
            //   22: two keys, ticker on the other key, render() first      23: the same, bucketed, run_upkeep() first
            //   24: ONE key (ticker on the same key; its samples land in fresh blocks)
            //   25: ONE key, the stalled writer sits in an OLDER block of the chain (slot 63; the ticker's first record hands
            //       over to a new tail block before the drain starts): the wait happens at the second block of the walk
            let one_key = i >= 24;
            Spec {
                buckets: i == 23,
                nkeys: if one_key { 1 } else { 2 },
                prefill: match i {
                    22 => vec![3, 0],
                    23 => vec![62, 0],
                    24 => vec![3],
                    _ => vec![63],
                },
                roles: vec![
                    Role::Recorder { key: 0, calls: vec![(1.0, 1)] },
                    Role::Recorder { key: if one_key { 0 } else { 1 }, calls: (0..12).map(|_| (2.0, 1)).collect() },
                    Role::Drainer { calls: vec![i != 23, true] },
                ],
            }
        } else if (26..30).contains(&i) {
            // (round 7, after seed C07-7) a record() whose HAND-OVER compare-exchange loses to a drain: the tail block is
            // exactly full, the recorder's claim fails and it is parked at `bkt.push.cas_new`; a whole drain pass detaches,
            // folds and retires the chain; the recorder's CAS fails, it loads the (null) tail again and installs a FIRST
            // block.  The next render must show the 64 old samples once and the new one.  A third thread (the "pinner") is
            // parked INSIDE `record()` (epoch guard pinned, before its tail load) from before the first drain until after
            // the second: while it is pinned the epoch collector cannot reclaim the retired block, so a block that became
            // reachable again is READ again (a double count the oracles see) instead of being freed twice first.
            //   26/27: one key (pinner on the same key), first drain run_upkeep() / render()   28/29: pinner on a second key
            let two = i >= 28;
            Spec {
                buckets: i == 29,
                nkeys: if two { 2 } else { 1 },
                prefill: if two { vec![64, 0] } else { vec![64] },
                roles: vec![
                    Role::Recorder { key: 0, calls: vec![(1.0, 1)] },
                    Role::Recorder { key: if two { 1 } else { 0 }, calls: vec![(2.0, 1)] },
                    Role::Drainer { calls: vec![i % 2 == 1, true] },
                ],
            }
        } else {
            random_spec(&mut r)
        };
        if degraded {
            // keep the first draining thread only
            let mut seen = false;
            spec.roles.retain(|x| match x {
                Role::Drainer { .. } => !std::mem::replace(&mut seen, true),
                _ => true,
            });
        }
        let nt = spec.roles.len();
        let mut sch = vec![];
        if inside {
            let nrec = nt - 1;
            // the drainer: start, (the render's begin marker,) tail load, detach CAS, (quiesced check, read)
            let first_is_render = matches!(spec.roles.last(), Some(Role::Drainer { calls }) if calls.first() == Some(&true));
            sch.extend(vec![nt - 1; 3 + (i % 3) + first_is_render as usize]);
            for t in 0..nrec {
                sch.extend(vec![t; 12]); // the recorders run to completion inside the drain pass
            }
            sch.extend(vec![nt - 1; 60]); // the drain pass (and the drainer's later passes) finish
        }
        if i == 18 && !degraded {
            // starts; recorder 0 completes (tail load, first-block CAS, claim, publish, generation bump); recorder 1 loads
            // the tail; the drain pass detaches, checks, reads, ends; recorder 1 claims and publishes in the detached block
            sch.extend([0, 1, 2, 0, 0, 0, 0, 0, 1, 2, 2, 2, 2, 2, 1, 1, 1]);
            out.count("concurrent.corpus:K-C07-K1-witness");
        }
        if (i == 19 || i == 21) && !degraded {
            // drainer: start, (render's begin marker,) tail load → parked at `bkt.clear.cas`; the recorder runs to completion
            // (start, tail load, claim on the full block, hand-over CAS, claim, publish, generation bump); then the drainer
            sch.extend(vec![1; if i == 19 { 3 } else { 2 }]);
            sch.extend(vec![0; 8]);
            sch.extend(vec![1; 60]);
            out.count("concurrent.corpus:failed-detach-is-retried(formerly K-C07-K2 witness)");
        }
        if i == 20 && !degraded {
            // the drain visits the two keys in registry order; park the drainer at the FIRST key's detach CAS and let both
            // recorders hand over: the first key's detach fails (whichever key that is) and is retried, the second key's
            // drain starts only afterwards and succeeds
            sch.extend(vec![2; 3]);
            sch.extend(vec![0; 8]);
            sch.extend(vec![1; 8]);
            sch.extend(vec![2; 80]);
            out.count("concurrent.corpus:failed-detach-is-retried-two-keys");
        }
        if (22..26).contains(&i) && !degraded {
            sch.extend(vec![0; 3]); // the writer: start, load tail, claim → parked before its publish
            if i == 25 {
                sch.extend(vec![1; 7]); // the ticker's first record: start, tail load, failed claim, hand-over CAS, claim, publish, gen
            }
            sch.extend(vec![2; 40]); // the drain pass runs alone up to its first wait on the writer's block (the rest is skipped)
            for _ in 0..40 {
                sch.push(1); // the ticker moves …
                sch.push(2); // … and the waiting drain is granted again
            }
            sch.extend(vec![1; 30]); // the ticker finishes
            sch.extend(vec![0; 6]); // the stalled writer publishes and finishes
            sch.extend(vec![2; 80]);
            out.count("concurrent.corpus:long-stalled-writer");
        }
        if (26..30).contains(&i) && !degraded {
            sch.push(1); // the pinner: start → inside record(), pinned, parked before its tail load
            sch.extend(vec![0; 3]); // start, tail load, claim on the full block fails → parked at its hand-over CAS
            // the first drain pass, whole: start, (render's begin marker,) tail load, detach, quiesced, read, next(, the
            // render's end marker) — and not yet the tail load of the second pass (its begin marker comes first)
            sch.extend(vec![2; if i % 2 == 1 { 8 } else { 6 }]);
            sch.extend(vec![0; 6]); // hand-over CAS fails, tail load (null), first-block CAS, claim, publish, generation
            sch.extend(vec![2; 60]); // the second drain pass (a render) while the pinner is still pinned
            sch.extend(vec![1; 8]);
            out.count("concurrent.corpus:hand-over-loses-to-a-drain(pinned)");
        }
        if targeted {
            let nrec = nt - 1;
            sch.extend(vec![0; 3]); // recorder 0: start, load tail, claim → parked before publish
            for t in 1..nrec {
                sch.extend(vec![t; 6]); // start, load tail, claim, publish, gen.applied, (done)
            }
            sch.extend(vec![nt - 1; 40]); // the drain
            sch.extend(vec![0; 5]);
        }
        let mut cur = r.below(nt);
        for _ in 0..240 {
            if r.chance(2, 5) {
                cur = r.below(nt);
            }
            sch.push(cur);
        }
        let (bodies, sh) = build_scene(&spec);
        let run = crate::sched::run_deadline(bodies, &sch, if degraded { 3 } else { RUN_DEADLINE_S });
        if (22..26).contains(&i) && !degraded && !run.timed_out && !run.deadlock {
            // the shape the scene is for: the drain was re-granted at its quiescence wait more than a dozen times while
            // the writer was parked between its claim and its publish
            let rounds = long_stall_rounds(&run.trace, 0, 2);
            out.count(if rounds > 12 { "concurrent.corpus:long-stalled-writer.shape-reached(>12 wait rounds while the writer is in flight)" } else { "concurrent.corpus:long-stalled-writer.SHAPE-NOT-REACHED" });
        }
        if (26..30).contains(&i) && !degraded && !run.timed_out && !run.deadlock {
            out.count(if hand_over_lost_to_drain(&run.trace, 0, 1, 2) { "concurrent.corpus:hand-over-loses-to-a-drain.shape-reached(second drain while pinned)" } else { "concurrent.corpus:hand-over-loses-to-a-drain.SHAPE-NOT-REACHED" });
        }
        if inside {
            out.count("concurrent.targeted:records-entirely-inside-a-drain-pass");
        }
        if degraded {
            out.count("concurrent.degraded:one-draining-thread-only");
        }
        out.count(&format!(
            "concurrent.keys={} recorders={} drainers={} registrar={} buckets={}",
            spec.nkeys,
            spec.roles.iter().filter(|x| matches!(x, Role::Recorder { .. })).count(),
            spec.roles.iter().filter(|x| matches!(x, Role::Drainer { .. })).count(),
            spec.roles.iter().any(|x| matches!(x, Role::Registrar { .. })),
            spec.buckets
        ));
        if !judge(out, &spec, &sh, &run) {
            incomplete.push(format!("i={} spec {:?} granted so far {:?}", i, spec, run.trace));
        }
    }
    if cfg.thorough && incomplete.is_empty() {
        // exhaustive schedules of small scenes (every interleaving at yield-point granularity, up to a cap)
        let scenes = vec![
            Spec { buckets: false, nkeys: 1, prefill: vec![0], roles: vec![Role::Recorder { key: 0, calls: vec![(1.0, 1)] }, Role::Drainer { calls: vec![true] }] },
            Spec { buckets: true, nkeys: 1, prefill: vec![1], roles: vec![Role::Recorder { key: 0, calls: vec![(1.0, 1)] }, Role::Drainer { calls: vec![true] }, Role::Drainer { calls: vec![false] }] },
            Spec { buckets: false, nkeys: 1, prefill: vec![63], roles: vec![Role::Recorder { key: 0, calls: vec![(1.0, 2)] }, Role::Drainer { calls: vec![true, true] }] },
            Spec { buckets: false, nkeys: 1, prefill: vec![1], roles: vec![Role::Registrar { key: 1, value: 8.0 }, Role::Drainer { calls: vec![true] }, Role::Drainer { calls: vec![true] }] },
        ];
        for (si, spec) in scenes.iter().enumerate() {
            out.case(&format!("concurrent exhaustive scene={}", si));
            let cell: std::rc::Rc<std::cell::RefCell<Option<Arc<Shared>>>> = Default::default();
            let c2 = cell.clone();
            // `judge` needs `out`; collect the runs' verdict inputs first
            let results: std::rc::Rc<std::cell::RefCell<Vec<(Arc<Shared>, crate::sched::RunResult)>>> = Default::default();
            let res2 = results.clone();
            let (runs, exhausted) = crate::sched::enumerate(
                || {
                    let (b, sh) = build_scene(spec);
                    *c2.borrow_mut() = Some(sh);
                    b
                },
                |_, run| {
                    let sh = cell.borrow_mut().take().unwrap();
                    res2.borrow_mut().push((sh, run.clone()));
                },
                1500,
            );
            out.count_n(&format!("concurrent.exhaustive.scene{}.exhausted={}", si, exhausted), runs as u64);
            for (sh, run) in results.borrow().iter() {
                if !judge(out, spec, sh, run) {
                    incomplete.push(format!("exhaustive scene {} granted so far {:?}", si, run.trace));
                }
            }
        }
    }
    metrics::verif::set_note_hook(None);
    out.case("concurrent stream end");
    if incomplete.is_empty() {
        out.op("promconc stream complete", "complete");
    } else {
        let mut d = incomplete[0].clone();
        d.truncate(1500);
        out.op(
            "promconc stream complete",
            &format!(
                "incomplete: {} scheduled run(s) did not complete: a thread blocked outside a yield point (one draining thread only after {}, stream stopped after {}); first: {}",
                incomplete.len(),
                MAX_INCOMPLETE,
                2 * MAX_INCOMPLETE,
                d.replace('\n', " ")
            ),
        );
    }
}
