//! C07 — Prometheus output reports exactly what was recorded, each sample once.
use crate::prom::{session, Flavour};
use crate::util::*;
use std::sync::atomic::{AtomicU64, Ordering};
use std::sync::{Arc, Mutex};

pub fn run(cfg: &Cfg, out: &mut Out) {
    let root = Rng::new(cfg.seed);
    for i in 0..cfg.cases {
        let mut r = root.fork(i as u64);
        out.case(&format!("seed={} i={}", cfg.seed, i));
        session(&mut r, out, Flavour::Values);
    }
    run_wild(cfg, out);
}

// ------------------------------------------------------------------------------------------------------------------
// Stream "wild": histogram samples over the whole f64 domain (non-dyadic, subnormal, huge, NaN, ±inf), fractional
// bucket bounds. IEEE rounding is outside the Lean model, so this stream is judged by implementation-side oracles only:
//   _count  = number of samples (exact);
//   _sum    = the real sum of the samples up to the classical bound for ANY order of floating-point summation,
//             |err| <= (n-1)·2^-53·Σ|x| (doubled here) — the exporter adds per drained block and per batch, so the
//             order is its own business, but a detour through f32 (relative error 2^-24) or a fixed-precision text
//             (`{:.10}`) is far outside it; NaN / ±inf propagate as IEEE says;
//   le="b"  parses back to the configured bound bit for bit, its count = #{x <= b} (NaN compares false).
// ------------------------------------------------------------------------------------------------------------------
const WILD: [f64; 22] = [
    0.1,
    0.2,
    0.3,
    1.0 / 3.0,
    -0.7,
    1e-7,
    -1e-7,
    2.5e-11,
    5e-324,
    f64::MIN_POSITIVE,
    1e21,
    -1e21,
    123456789.123456789,
    16777217.0,
    1e15 + 0.3,
    0.0009765624,
    std::f64::consts::PI,
    -0.0,
    f64::MAX,
    f64::NAN,
    f64::INFINITY,
    f64::NEG_INFINITY,
];

fn run_wild(cfg: &Cfg, out: &mut Out) {
    use metrics::{Key, Recorder};
    use metrics_exporter_prometheus::PrometheusBuilder;
    static META: metrics::Metadata<'static> = metrics::Metadata::new("mv", metrics::Level::INFO, None);
    let root = Rng::new(cfg.seed ^ 0x771D);
    let n = if cfg.thorough { 1500 } else { 200 };
    for i in 0..n {
        let mut r = root.fork(i as u64);
        out.case(&format!("wild seed={} i={}", cfg.seed, i));
        // finite-only sessions are the ones with a sharp `_sum` oracle; the others check propagation
        let finite_only = r.chance(2, 3);
        let no_huge = r.chance(1, 2);
        let bounds: Option<Vec<f64>> = if r.chance(1, 2) {
            let mut b: Vec<f64> = (0..r.range(1, 4)).map(|_| *r.pick(&[0.1, 1e-7, 0.3, 1.0 / 3.0, 2.5, 1e21, -0.7, 16777217.0])).collect();
            b.sort_by(|a, c| a.partial_cmp(c).unwrap());
            b.dedup();
            Some(b)
        } else {
            None
        };
        let mut b = PrometheusBuilder::new();
        if let Some(bs) = &bounds {
            b = b.set_buckets(bs).unwrap();
        }
        let rec = b.build_recorder();
        let handle = rec.handle();
        let h = rec.register_histogram(&Key::from_name("w"), &META);
        let mut vals: Vec<f64> = vec![];
        let rounds = r.range(1, 4);
        for round in 0..rounds {
            let reps = if r.chance(1, 5) { r.range(60, 140) } else { r.range(1, 6) };
            for _ in 0..reps {
                let v = loop {
                    let v = if r.chance(1, 3) {
                        // a random non-dyadic value with a full mantissa
                        (r.range(1, 1 << 52) as f64) * 1e-9 * if r.chance(1, 2) { 1.0 } else { -1.0 }
                    } else {
                        *r.pick(&WILD)
                    };
                    if finite_only && !v.is_finite() {
                        continue;
                    }
                    if (finite_only || no_huge) && v.abs() > 1e300 {
                        continue;
                    }
                    break v;
                };
                if r.chance(1, 8) {
                    let c = r.range(0, 3);
                    h.record_many(v, c);
                    vals.extend(std::iter::repeat(v).take(c));
                } else {
                    h.record(v);
                    vals.push(v);
                }
            }
            match r.below(3) {
                0 => handle.run_upkeep(),
                1 => {
                    let _ = handle.render();
                }
                _ => {}
            }
            if round + 1 < rounds {
                continue;
            }
        }
        out.count(&format!("wild.finite_only={} buckets={}", finite_only, bounds.is_some()));
        out.nontrivial();
        let text = handle.render();
        let fams = match crate::expo::check_exposition(&text) {
            Ok(f) => f,
            Err(e) => {
                out.oracle_fail("render(): not well-formed exposition text", &format!("{} :: {:?}", e, text));
                continue;
            }
        };
        let samples: Vec<&(String, Vec<(String, String)>, String)> = fams.iter().flat_map(|f| f.samples.iter()).collect();
        let cnt = samples.iter().find(|s| s.0 == "w_count").map(|s| s.2.clone());
        if cnt != Some(vals.len().to_string()) {
            out.oracle_fail(
                "histogram _count is not the number of samples recorded",
                &format!("want {} got {:?}; samples {:?}", vals.len(), cnt, vals),
            );
        }
        let sum: f64 = samples.iter().find(|s| s.0 == "w_sum").and_then(|s| s.2.parse().ok()).unwrap_or(f64::NAN);
        let has_nan = vals.iter().any(|v| v.is_nan());
        let (pinf, ninf) = (vals.iter().any(|v| *v == f64::INFINITY), vals.iter().any(|v| *v == f64::NEG_INFINITY));
        let mine: f64 = vals.iter().sum();
        let abs: f64 = vals.iter().map(|v| v.abs()).sum();
        let sum_ok = if has_nan || (pinf && ninf) {
            sum.is_nan()
        } else if pinf {
            sum == f64::INFINITY
        } else if ninf {
            sum == f64::NEG_INFINITY
        } else if !abs.is_finite() {
            true // finite samples whose partial sums may overflow in one order and not in another: no sharp oracle
        } else {
            let bound = 2.0 * (vals.len().max(2) as f64) * f64::EPSILON * abs;
            (sum - mine).abs() <= bound
        };
        if !sum_ok {
            out.oracle_fail(
                "histogram _sum is not the sum of samples recorded",
                &format!("want {:e} (±fp summation bound) got {:e}; samples {:?}", mine, sum, vals),
            );
        }
        if let Some(bs) = &bounds {
            let mut got: Vec<(f64, u64)> = vec![];
            for s in samples.iter().filter(|s| s.0 == "w_bucket") {
                let le = &s.1.iter().find(|(k, _)| k == "le").unwrap().1;
                let c: u64 = s.2.parse().unwrap_or(u64::MAX);
                if le == "+Inf" {
                    if c != vals.len() as u64 {
                        out.oracle_fail("histogram bucket count is not the number of samples <= bound", &format!("le=+Inf want {} got {}", vals.len(), c));
                    }
                } else {
                    got.push((le.parse().unwrap_or(f64::NAN), c));
                }
            }
            let want: Vec<(f64, u64)> = bs.iter().map(|b| (*b, vals.iter().filter(|x| **x <= *b).count() as u64)).collect();
            let same = got.len() == want.len() && got.iter().zip(want.iter()).all(|(g, w)| g.0.to_bits() == w.0.to_bits() && g.1 == w.1);
            if !same {
                out.oracle_fail(
                    "histogram bucket count is not the number of samples <= bound",
                    &format!("(le must parse back to the configured bound) want {:?} got {:?}; samples {:?}", want, got, vals),
                );
            }
        }
    }
}

// ------------------------------------------------------------------------------------------------------------------
// Concurrent stream
// ------------------------------------------------------------------------------------------------------------------

/// what one managed thread does
#[derive(Clone, Debug)]
enum Role {
    /// `record()` / `record_many()` calls on the handle of key `key`: (value, count) — count 1 = `record`
    Recorder { key: usize, calls: Vec<(f64, usize)> },
    /// registers a key nobody has registered yet and records one sample — races the drains' walk over the registry
    Registrar { key: usize, value: f64 },
    /// `true` = render(), `false` = run_upkeep()
    Drainer { calls: Vec<bool> },
}

#[derive(Clone, Debug)]
struct Spec {
    buckets: bool,
    nkeys: usize, // keys 0..nkeys are registered (and prefilled) before the threads start; key `nkeys` is the registrar's
    prefill: Vec<usize>,
    roles: Vec<Role>,
}

const KEY_NAMES: [&str; 4] = ["lat", "io", "q", "late"];
const PREFILL_VALUE: f64 = 0.5;

struct Shared {
    handle: metrics_exporter_prometheus::PrometheusHandle,
    /// per key: record() calls begun / returned (a `record_many(v, c)` counts c at once on both sides)
    started: Vec<AtomicU64>,
    done: Vec<AtomicU64>,
    seq: AtomicU64,
    /// (thread, seq at start, done[] at start, text, started[] at end, seq at end)
    renders: Mutex<Vec<(usize, u64, Vec<u64>, String, Vec<u64>, u64)>>,
}

fn build_scene(spec: &Spec) -> (Vec<Box<dyn FnOnce() + Send + 'static>>, Arc<Shared>) {
    use metrics::{Key, Recorder};
    use metrics_exporter_prometheus::PrometheusBuilder;
    static META: metrics::Metadata<'static> = metrics::Metadata::new("mv", metrics::Level::INFO, None);
    let mut b = PrometheusBuilder::new();
    if spec.buckets {
        b = b.set_buckets(&[0.75, 3.0]).unwrap();
    }
    let rec = Arc::new(b.build_recorder());
    let sh = Arc::new(Shared {
        handle: rec.handle(),
        started: (0..KEY_NAMES.len()).map(|_| AtomicU64::new(0)).collect(),
        done: (0..KEY_NAMES.len()).map(|_| AtomicU64::new(0)).collect(),
        seq: AtomicU64::new(0),
        renders: Mutex::new(vec![]),
    });
    let mut handles = vec![];
    for k in 0..spec.nkeys {
        let h = rec.register_histogram(&Key::from_name(KEY_NAMES[k]), &META);
        for _ in 0..spec.prefill[k] {
            h.record(PREFILL_VALUE);
        }
        sh.started[k].fetch_add(spec.prefill[k] as u64, Ordering::SeqCst);
        sh.done[k].fetch_add(spec.prefill[k] as u64, Ordering::SeqCst);
        handles.push(h);
    }
    let mut bodies: Vec<Box<dyn FnOnce() + Send + 'static>> = vec![];
    for (t, role) in spec.roles.iter().cloned().enumerate() {
        let sh = sh.clone();
        match role {
            Role::Recorder { key, calls } => {
                let h = handles[key].clone();
                bodies.push(Box::new(move || {
                    for (v, c) in calls {
                        sh.started[key].fetch_add(c as u64, Ordering::SeqCst);
                        if c == 1 {
                            h.record(v);
                        } else {
                            h.record_many(v, c);
                        }
                        sh.done[key].fetch_add(c as u64, Ordering::SeqCst);
                    }
                }));
            }
            Role::Registrar { key, value } => {
                let rec = rec.clone();
                bodies.push(Box::new(move || {
                    sh.started[key].fetch_add(1, Ordering::SeqCst);
                    rec.register_histogram(&Key::from_name(KEY_NAMES[key]), &META).record(value);
                    sh.done[key].fetch_add(1, Ordering::SeqCst);
                }));
            }
            Role::Drainer { calls } => {
                bodies.push(Box::new(move || {
                    for is_render in calls {
                        if is_render {
                            let s0 = sh.seq.fetch_add(1, Ordering::SeqCst);
                            let lo: Vec<u64> = sh.done.iter().map(|a| a.load(Ordering::SeqCst)).collect();
                            let text = sh.handle.render();
                            let hi: Vec<u64> = sh.started.iter().map(|a| a.load(Ordering::SeqCst)).collect();
                            let s1 = sh.seq.fetch_add(1, Ordering::SeqCst);
                            sh.renders.lock().unwrap().push((t, s0, lo, text, hi, s1));
                        } else {
                            sh.handle.run_upkeep();
                        }
                    }
                }));
            }
        }
    }
    (bodies, sh)
}

/// per key: (`_count`, `_sum`) of the series of that key in an exposition text (absent series = (0, 0))
fn counts_of(text: &str) -> Result<Vec<(u64, f64)>, String> {
    let fams = crate::expo::check_exposition(text)?;
    let mut res = vec![(0u64, 0.0f64); KEY_NAMES.len()];
    for (k, name) in KEY_NAMES.iter().enumerate() {
        for (n, _, v) in fams.iter().flat_map(|f| f.samples.iter()) {
            if *n == format!("{}_count", name) {
                res[k].0 = v.parse().map_err(|_| format!("count {:?}", v))?;
            }
            if *n == format!("{}_sum", name) {
                res[k].1 = v.parse().map_err(|_| format!("sum {:?}", v))?;
            }
        }
    }
    Ok(res)
}

/// Upper bound on the samples the known bucket finding (K-C05-K1) can lose in this trace: pushes whose slot claim comes
/// after a clear's detach step that lies after their own load of the tail. Each such push loses at most itself.
fn k1_stragglers(tr: &[(usize, &'static str)]) -> u64 {
    let n_threads = tr.iter().map(|(t, _)| *t).max().map_or(0, |m| m + 1);
    let mut loaded: Vec<Option<usize>> = vec![None; n_threads];
    let mut clears: Vec<usize> = vec![];
    let mut n = 0;
    for (gi, (t, id)) in tr.iter().enumerate() {
        match *id {
            "bkt.push.load_tail" => loaded[*t] = Some(gi),
            "bkt.clear.load_tail" => clears.push(gi),
            "blk.push.claim" => {
                if let Some(l) = loaded[*t] {
                    if clears.iter().any(|c| *c > l && *c < gi) {
                        n += 1;
                    }
                }
            }
            _ => {}
        }
    }
    n
}

fn judge(out: &mut Out, spec: &Spec, sh: &Shared, run: &crate::sched::RunResult) {
    if run.deadlock || run.timed_out || !run.panicked.is_empty() {
        out.oracle_fail(
            "record racing render/upkeep: deadlock, timeout or panic",
            &format!("deadlock={} timeout={} panicked={:?} spec {:?} trace {:?}", run.deadlock, run.timed_out, run.panicked, spec, run.trace),
        );
        return;
    }
    let allowance = k1_stragglers(&run.trace);
    let nk = KEY_NAMES.len();
    // what was recorded, per key
    let mut total = vec![0u64; nk];
    let mut total_sum = vec![0.0f64; nk];
    let (mut vmin, mut vmax) = (PREFILL_VALUE, PREFILL_VALUE);
    for k in 0..spec.nkeys {
        total[k] += spec.prefill[k] as u64;
        total_sum[k] += PREFILL_VALUE * spec.prefill[k] as f64;
    }
    for role in &spec.roles {
        match role {
            Role::Recorder { key, calls } => {
                for (v, c) in calls {
                    total[*key] += *c as u64;
                    total_sum[*key] += *v * *c as f64;
                    vmin = vmin.min(*v);
                    vmax = vmax.max(*v);
                }
            }
            Role::Registrar { key, value } => {
                total[*key] += 1;
                total_sum[*key] += *value;
                vmin = vmin.min(*value);
                vmax = vmax.max(*value);
            }
            _ => {}
        }
    }
    if run.trace.iter().any(|(_, id)| id.starts_with("bkt.clear")) && run.trace.iter().any(|(_, id)| *id == "blk.push.claim") {
        out.nontrivial();
    }
    if run.trace.iter().any(|(_, id)| *id == "spin:prom.dist.lock") {
        out.count("concurrent.drainer_waited_for_the_distributions_lock");
    }
    // ---- renders taken while the threads were running
    let mut renders = sh.renders.lock().unwrap().clone();
    renders.sort_by_key(|r| r.1);
    let mut parsed: Vec<(usize, u64, u64, Vec<(u64, f64)>)> = vec![];
    for (t, s0, lo, text, hi, s1) in &renders {
        let c = match counts_of(text) {
            Ok(c) => c,
            Err(e) => {
                out.oracle_fail("render(): not well-formed exposition text", &format!("{} :: {:?}", e, text));
                return;
            }
        };
        for k in 0..nk {
            // every record() that had returned before this render began is in it (up to the known stragglers);
            // nothing is in it that had not at least begun when it ended
            if c[k].0 + allowance < lo[k] {
                out.oracle_fail(
                    "a render() concurrent with record()/render()/run_upkeep() misses samples whose record() had returned before it started [no-known-signature]",
                    &format!(
                        "key {} thread {}: shows {} but {} record() calls had returned (K1 stragglers in the trace: {}); spec {:?} trace {:?}",
                        KEY_NAMES[k], t, c[k].0, lo[k], allowance, spec, run.trace
                    ),
                );
                return;
            }
            if c[k].0 > hi[k] {
                out.oracle_fail(
                    "a render() concurrent with record() shows more samples than record() calls begun (a sample counted twice) [no-known-signature]",
                    &format!("key {} thread {}: shows {} but only {} begun; spec {:?} trace {:?}", KEY_NAMES[k], t, c[k].0, hi[k], spec, run.trace),
                );
                return;
            }
        }
        parsed.push((*t, *s0, *s1, c));
    }
    // _count never goes back: a render that began after another one ended shows at least as much
    for a in &parsed {
        for b in &parsed {
            if a.2 < b.1 {
                for k in 0..nk {
                    if b.3[k].0 < a.3[k].0 {
                        out.oracle_fail(
                            "histogram _count went down between two renders [no-known-signature]",
                            &format!("key {}: {} then {}; spec {:?} trace {:?}", KEY_NAMES[k], a.3[k].0, b.3[k].0, spec, run.trace),
                        );
                        return;
                    }
                }
            }
        }
    }
    // ---- after everything finished
    let text = sh.handle.render();
    let fin = match counts_of(&text) {
        Ok(c) => c,
        Err(e) => {
            out.oracle_fail("render(): not well-formed exposition text", &format!("{} :: {:?}", e, text));
            return;
        }
    };
    let mut lost_all = 0u64;
    for k in 0..nk {
        if fin[k].0 > total[k] {
            out.oracle_fail(
                "histogram _count after record() raced render()/run_upkeep() is more than the number of samples recorded (a sample counted twice) [no-known-signature]",
                &format!("key {} want {} got {}; spec {:?} trace {:?}", KEY_NAMES[k], total[k], fin[k].0, spec, run.trace),
            );
            return;
        }
        let lost = total[k] - fin[k].0;
        lost_all += lost;
        let diff = total_sum[k] - fin[k].1;
        let sum_ok = if lost == 0 { diff == 0.0 } else { diff >= vmin * lost as f64 && diff <= vmax * lost as f64 };
        if !sum_ok {
            out.oracle_fail(
                "histogram _sum after record() raced render()/run_upkeep() is not the sum of the samples counted [no-known-signature]",
                &format!("key {} count {} of {}, sum {} of {}; spec {:?} trace {:?}", KEY_NAMES[k], fin[k].0, total[k], fin[k].1, total_sum[k], spec, run.trace),
            );
            return;
        }
    }
    if lost_all > 0 {
        // the known bucket finding explains at most one lost sample per straggler push of the trace — a larger
        // shortfall (or one in a trace without the shape) is not that finding
        let tag = if lost_all <= allowance { "K1:straggler-push-on-detached-block" } else { "no-known-signature" };
        out.oracle_fail(
            &format!("histogram _count after record() raced render()/run_upkeep() is not the number of samples recorded [{}]", tag),
            &format!("lost {} (K1 stragglers in the trace: {}) want {:?} got {:?}; spec {:?} trace {:?}", lost_all, allowance, total, fin, spec, run.trace),
        );
    }
}

fn random_spec(r: &mut Rng) -> Spec {
    let nkeys = r.range(1, 3);
    let prefill: Vec<usize> = (0..nkeys).map(|_| *r.pick(&[0usize, 0, 1, 62, 63, 64, 65])).collect();
    let mut roles = vec![];
    for t in 0..r.range(1, 3) {
        let key = r.below(nkeys);
        let v = [1.0, 2.0, 4.0][t];
        let calls: Vec<(f64, usize)> = (0..r.range(1, 2)).map(|_| (v, if r.chance(1, 5) { 2 } else { 1 })).collect();
        roles.push(Role::Recorder { key, calls });
    }
    if r.chance(1, 3) {
        roles.push(Role::Registrar { key: nkeys, value: 8.0 });
    }
    for _ in 0..r.range(1, 2) {
        let calls: Vec<bool> = (0..r.range(1, 2)).map(|_| r.chance(3, 5)).collect();
        roles.push(Role::Drainer { calls });
    }
    Spec { buckets: r.chance(1, 2), nkeys, prefill, roles }
}

/// Concurrent stream: `record()` / `record_many()` / first registration of a key on several threads racing several
/// `render()` / `run_upkeep()` threads on a real recorder (one to three keys, summary and bucketed configurations) under
/// the deterministic scheduler (yield points of the bucket, the registry, and the exporter's distributions lock).
/// Oracles, per key: every render taken DURING the run shows at least the samples whose `record()` had returned before
/// it began and at most those begun before it ended; `_count` never goes down from one render to a later one; after
/// everything finished `_count` is the number of samples recorded and `_sum` their sum. The known bucket finding
/// (a push on a block that a drain detached meanwhile) excuses at most one sample per straggler push of the trace.
pub fn run_concurrent(cfg: &Cfg, out: &mut Out) {
    let root = Rng::new(cfg.seed ^ 0xC07C);
    let n = if cfg.thorough { 1500 } else { 300 };
    for i in 0..n {
        let mut r = root.fork(i as u64);
        out.case(&format!("concurrent seed={} i={}", cfg.seed, i));
        // the first cases are the targeted shape: the recorders' claims fill the block exactly, the first recorder is
        // held between its slot claim and its publish while the others finish and the drain runs
        let targeted = i < 6;
        let spec = if targeted {
            let nrec = 1 + i % 3;
            let mut roles: Vec<Role> = (0..nrec).map(|t| Role::Recorder { key: 0, calls: vec![([1.0, 2.0, 4.0][t], 1)] }).collect();
            roles.push(Role::Drainer { calls: (0..r.range(1, 2)).map(|_| r.chance(1, 2)).collect() });
            Spec { buckets: false, nkeys: 1, prefill: vec![64 - nrec], roles }
        } else {
            random_spec(&mut r)
        };
        let nt = spec.roles.len();
        let mut sch = vec![];
        if targeted {
            let nrec = nt - 1;
            sch.extend(vec![0; 3]); // recorder 0: start, load tail, claim → parked before publish
            for t in 1..nrec {
                sch.extend(vec![t; 6]); // start, load tail, claim, publish, gen.applied, (done)
            }
            sch.extend(vec![nt - 1; 40]); // the drain
            sch.extend(vec![0; 5]);
        }
        let mut cur = r.below(nt);
        for _ in 0..240 {
            if r.chance(2, 5) {
                cur = r.below(nt);
            }
            sch.push(cur);
        }
        let (bodies, sh) = build_scene(&spec);
        let run = crate::sched::run(bodies, &sch);
        out.count(&format!(
            "concurrent.keys={} recorders={} drainers={} registrar={} buckets={}",
            spec.nkeys,
            spec.roles.iter().filter(|x| matches!(x, Role::Recorder { .. })).count(),
            spec.roles.iter().filter(|x| matches!(x, Role::Drainer { .. })).count(),
            spec.roles.iter().any(|x| matches!(x, Role::Registrar { .. })),
            spec.buckets
        ));
        judge(out, &spec, &sh, &run);
    }
    if cfg.thorough {
        // exhaustive schedules of small scenes (every interleaving at yield-point granularity, up to a cap)
        let scenes = vec![
            Spec { buckets: false, nkeys: 1, prefill: vec![0], roles: vec![Role::Recorder { key: 0, calls: vec![(1.0, 1)] }, Role::Drainer { calls: vec![true] }] },
            Spec { buckets: true, nkeys: 1, prefill: vec![1], roles: vec![Role::Recorder { key: 0, calls: vec![(1.0, 1)] }, Role::Drainer { calls: vec![true] }, Role::Drainer { calls: vec![false] }] },
            Spec { buckets: false, nkeys: 1, prefill: vec![63], roles: vec![Role::Recorder { key: 0, calls: vec![(1.0, 2)] }, Role::Drainer { calls: vec![true, true] }] },
            Spec { buckets: false, nkeys: 1, prefill: vec![1], roles: vec![Role::Registrar { key: 1, value: 8.0 }, Role::Drainer { calls: vec![true] }, Role::Drainer { calls: vec![true] }] },
        ];
        for (si, spec) in scenes.iter().enumerate() {
            out.case(&format!("concurrent exhaustive scene={}", si));
            let cell: std::rc::Rc<std::cell::RefCell<Option<Arc<Shared>>>> = Default::default();
            let c2 = cell.clone();
            // `judge` needs `out`; collect the runs' verdict inputs first
            let results: std::rc::Rc<std::cell::RefCell<Vec<(Arc<Shared>, crate::sched::RunResult)>>> = Default::default();
            let res2 = results.clone();
            let (runs, exhausted) = crate::sched::enumerate(
                || {
                    let (b, sh) = build_scene(spec);
                    *c2.borrow_mut() = Some(sh);
                    b
                },
                |_, run| {
                    let sh = cell.borrow_mut().take().unwrap();
                    res2.borrow_mut().push((sh, run.clone()));
                },
                1500,
            );
            out.count_n(&format!("concurrent.exhaustive.scene{}.exhausted={}", si, exhausted), runs as u64);
            for (sh, run) in results.borrow().iter() {
                judge(out, spec, sh, run);
            }
        }
    }
}
