//! C10 — DogStatsD aggregation conserves counts across flushes under any interleaving.
//!
//! Stream A: one real aggregated counter (through `StateDriver` = the exporter's `State` + `FlushState` + the
//!   real `PayloadWriter`, exposed by the cfg(metrics_verif) `verif` module) driven by incrementer threads and one
//!   flusher thread under the deterministic scheduler; the drained payloads of every flush are parsed back; the
//!   executed schedule is replayed on the Lean step machine (`agg run …`).
//! Stream B: sequential histories over several keys and kinds (counters incl. absolute-only ones, gauges,
//!   histograms with sampling off) with all configuration switches; oracles on the parsed payloads: deltas add up,
//!   zero sent once, every gauge's latest value in every flush, every histogram value in exactly one flush,
//!   timestamp present exactly in the mode documented to send one.
//! Stream C: end to end — a built exporter flushing every few milliseconds into a UDP / unixgram socket of the
//!   harness; datagrams re-parsed and summed.

use crate::sched;
use crate::util::*;
use metrics::{Key, Label, Recorder};
use metrics_exporter_dogstatsd::verif::{StateDriver, Writer};
use std::sync::{Arc, Mutex};

static META: metrics::Metadata<'static> = metrics::Metadata::new("mv", metrics::Level::INFO, None);

#[derive(Clone, Copy, Debug, PartialEq)]
enum Call {
    Inc(u64),
    Abs(u64),
    Flush,
}

fn prog_tok(p: &[Call]) -> String {
    if p.is_empty() {
        return "-".into();
    }
    p.iter()
        .map(|c| match c {
            Call::Inc(n) => format!("i{}", n),
            Call::Abs(v) => format!("a{}", v),
            Call::Flush => "f".into(),
        })
        .collect::<Vec<_>>()
        .join("+")
}

#[derive(Debug, Clone, PartialEq)]
pub struct Msg {
    pub name: String,
    pub values: Vec<String>,
    pub ty: String,
    pub rate: Option<String>,
    pub tags: Vec<String>,
    pub ts: Option<String>,
}

/// strict reader of one DogStatsD datagram line `name:v1:v2|type[|@rate][|#t1,t2][|T<ts>]`
pub fn parse_msg(line: &str) -> Result<Msg, String> {
    let mut parts = line.split('|');
    let head = parts.next().ok_or("empty")?;
    let (name, vals) = head.split_once(':').ok_or("no value separator")?;
    if name.is_empty() {
        return Err("empty name".into());
    }
    let values: Vec<String> = vals.split(':').map(|s| s.to_string()).collect();
    if values.iter().any(|v| v.is_empty()) {
        return Err("empty value".into());
    }
    let ty = parts.next().ok_or("no type")?.to_string();
    if !matches!(ty.as_str(), "c" | "g" | "h" | "d") {
        return Err(format!("bad type {}", ty));
    }
    let (mut rate, mut tags, mut ts) = (None, vec![], None);
    for p in parts {
        if let Some(r) = p.strip_prefix('@') {
            rate = Some(r.to_string());
        } else if let Some(t) = p.strip_prefix('#') {
            tags = t.split(',').map(|s| s.to_string()).collect();
        } else if let Some(t) = p.strip_prefix('T') {
            ts = Some(t.to_string());
        } else {
            return Err(format!("unknown section {:?}", p));
        }
    }
    Ok(Msg { name: name.to_string(), values, ty, rate, tags, ts })
}

pub fn parse_payloads(payloads: &[Vec<u8>]) -> Result<Vec<Msg>, String> {
    let mut out = vec![];
    for p in payloads {
        let s = std::str::from_utf8(p).map_err(|e| e.to_string())?;
        if !s.ends_with('\n') {
            return Err(format!("payload does not end with a newline: {:?}", s));
        }
        for line in s[..s.len() - 1].split('\n') {
            out.push(parse_msg(line).map_err(|e| format!("{} :: {:?}", e, line))?);
        }
    }
    Ok(out)
}

// ------------------------------------------------------------------------------------------------ stream A

struct OutcomeA {
    flushes: Vec<Option<u64>>, // per flush: the delta sent for the key, or None when nothing was sent
    run: sched::RunResult,
    bad: Option<String>,
    /// two more flushes made after all threads have finished (nothing races them)
    final_flushes: Vec<Option<u64>>,
}

fn execute_a(progs: &[Vec<Call>], schedule: &[usize]) -> OutcomeA {
    let driver = StateDriver::new(true, false, 16, false, vec![], None);
    let rec = driver.recorder();
    let key = Key::from_name("c");
    let counter = rec.register_counter(&key, &META);
    let driver = Arc::new(Mutex::new(driver));
    let flushes: Arc<Mutex<Vec<Option<u64>>>> = Arc::new(Mutex::new(vec![]));
    let bad: Arc<Mutex<Option<String>>> = Arc::new(Mutex::new(None));
    let mut bodies: Vec<Box<dyn FnOnce() + Send + 'static>> = vec![];
    for prog in progs {
        let prog = prog.clone();
        let counter = counter.clone();
        let driver = driver.clone();
        let flushes = flushes.clone();
        let bad = bad.clone();
        bodies.push(Box::new(move || {
            let mut writer = Writer::new(8192, false);
            for c in prog {
                match c {
                    Call::Inc(n) => counter.increment(n),
                    Call::Abs(v) => counter.absolute(v),
                    Call::Flush => {
                        // only one thread flushes, so the lock is never contended
                        driver.lock().unwrap().flush(&mut writer);
                        let payloads = writer.drain();
                        match parse_payloads(&payloads) {
                            Ok(msgs) => {
                                let mine: Vec<&Msg> = msgs.iter().filter(|m| m.name == "c").collect();
                                let r = match mine.len() {
                                    0 => None,
                                    1 => mine[0].values[0].parse::<u64>().ok(),
                                    _ => {
                                        *bad.lock().unwrap() = Some(format!("two messages for one key in one flush: {:?}", msgs));
                                        None
                                    }
                                };
                                flushes.lock().unwrap().push(r);
                            }
                            Err(e) => *bad.lock().unwrap() = Some(e),
                        }
                    }
                }
            }
        }));
    }
    let run = sched::run(bodies, schedule);
    let f = flushes.lock().unwrap().clone();
    let mut final_flushes = vec![];
    if !run.deadlock && !run.timed_out && run.panicked.is_empty() {
        let mut writer = Writer::new(8192, false);
        for _ in 0..2 {
            driver.lock().unwrap().flush(&mut writer);
            let payloads = writer.drain();
            if let Ok(msgs) = parse_payloads(&payloads) {
                let mine: Vec<&Msg> = msgs.iter().filter(|m| m.name == "c").collect();
                final_flushes.push(mine.first().and_then(|m| m.values[0].parse::<u64>().ok()));
            }
        }
    }
    let b = bad.lock().unwrap().clone();
    OutcomeA { flushes: f, run, bad: b, final_flushes }
}

fn answer_a(o: &OutcomeA) -> String {
    let labels: Vec<&str> = o.run.trace.iter().map(|(_, id)| *id).collect();
    let outs = list(o.flushes.iter().map(|f| match f {
        Some(d) => format!("d{}", d),
        None => "skip".into(),
    }));
    format!("{} | {}", labels.join("."), outs)
}

fn oracle_a(out: &mut Out, progs: &[Vec<Call>], o: &OutcomeA) {
    if o.run.deadlock || o.run.timed_out || !o.run.panicked.is_empty() {
        out.oracle_fail("aggregation: deadlock, timeout or panic", &format!("{:?}", o.run.trace));
        return;
    }
    if let Some(b) = &o.bad {
        out.oracle_fail("flush produced malformed or duplicated messages", b);
    }
    let incr_only = progs.iter().flatten().all(|c| !matches!(c, Call::Abs(_)));
    if !incr_only {
        // absolute-only programs (non-decreasing values): no single delta may exceed what was actually added
        let maxv = progs.iter().flatten().filter_map(|c| if let Call::Abs(v) = c { Some(*v) } else { None }).max().unwrap_or(0);
        // trace signature of the known window: a flush step granted between the `last` store and the `current`
        // store of an absolute() that switches the counter into absolute mode
        // a flush whose (load current, swap last) pair is neither entirely before the `last` store nor entirely
        // after the `current` store of that absolute()
        let tr = &o.run.trace;
        let a = tr.iter().position(|(_, id)| *id == "agg.cabs.store_last");
        let b = a.and_then(|a| tr[a..].iter().position(|(_, id)| *id == "agg.cabs.store_current").map(|x| x + a));
        let mut sig = false;
        if let (Some(a), Some(b)) = (a, b) {
            let loads: Vec<usize> = tr.iter().enumerate().filter(|(_, (_, id))| *id == "agg.cflush.load_current").map(|x| x.0).collect();
            let swaps: Vec<usize> = tr.iter().enumerate().filter(|(_, (_, id))| *id == "agg.cflush.swap_last").map(|x| x.0).collect();
            for (l, w) in loads.iter().zip(swaps.iter()) {
                if !(*w < a) && !(*l > b) {
                    sig = true;
                }
            }
        }
        for (i, f) in o.flushes.iter().enumerate() {
            if let Some(d) = f {
                if *d > maxv {
                    out.oracle_fail(
                        &format!(
                            "absolute-only counter: a flush sent a delta larger than anything that was added (wrapped delta) [{}]",
                            if sig { "K-abs-race:flush-between-last-and-current-store-of-first-absolute" } else { "no-known-signature" }
                        ),
                        &format!("flush {} sent {} max value {} trace {:?}", i, d, maxv, o.run.trace),
                    );
                }
            }
        }
        return; // sums for absolute runs are judged by stream B (sequential)
    }
    // conservation, independent of the trace: once everything is quiet, all deltas ever sent add up to the increments
    {
        let total: u64 = progs.iter().flatten().filter_map(|c| if let Call::Inc(n) = c { Some(*n) } else { None }).fold(0u64, |a, b| a.wrapping_add(b));
        let sent: u64 = o.flushes.iter().chain(o.final_flushes.iter()).flatten().fold(0u64, |a, b| a.wrapping_add(*b));
        if sent != total {
            out.oracle_fail(
                "the deltas sent by all flushes (two more after the threads finished included) do not add up to the increments made",
                &format!("increments total {} deltas sent {} (during the run {:?}, afterwards {:?}) trace {:?}", total, sent, o.flushes, o.final_flushes, o.run.trace),
            );
        }
    }
    // what had reached `current` when each flush loaded it: walk the trace
    let mut applied: u64 = 0;
    let mut k = vec![0usize; progs.len()];
    let mut marks: Vec<u64> = vec![];
    for (t, id) in &o.run.trace {
        match *id {
            "agg.cinc.add_current" => {
                let n = progs[*t].iter().filter_map(|c| if let Call::Inc(n) = c { Some(*n) } else { None }).nth(k[*t]).unwrap_or(0);
                k[*t] += 1;
                applied = applied.wrapping_add(n);
            }
            "agg.cflush.load_current" => marks.push(applied),
            _ => {}
        }
    }
    let detail = format!("trace {:?} flushes {:?}", o.run.trace, o.flushes);
    let mut prev_mark = 0u64;
    let mut zero_since_change = false;
    for (i, f) in o.flushes.iter().enumerate() {
        let Some(m) = marks.get(i) else { break };
        let want = m.wrapping_sub(prev_mark);
        prev_mark = *m;
        match f {
            Some(d) => {
                if *d != want {
                    out.oracle_fail("a flush sent a delta different from the increments made since the previous flush", &format!("flush {} sent {} want {} :: {}", i, d, want, detail));
                }
                if *d == 0 {
                    if zero_since_change {
                        out.oracle_fail("a counter that stopped changing was sent as zero more than once", &format!("flush {} :: {}", i, detail));
                    }
                    zero_since_change = true;
                } else {
                    zero_since_change = false;
                }
            }
            None => {
                if want != 0 {
                    out.oracle_fail("increments were made since the previous flush but the flush sent nothing for the counter (delta lost)", &format!("flush {} lost {} :: {}", i, want, detail));
                } else if !zero_since_change {
                    out.oracle_fail("a counter that stopped changing was never sent as zero", &format!("flush {} :: {}", i, detail));
                }
            }
        }
    }
}

fn one_a(out: &mut Out, progs: &[Vec<Call>], sch: &[usize], legacy: bool) {
    let o = execute_a(progs, sch);
    let taken: Vec<usize> = o.run.trace.iter().map(|(t, _)| *t).collect();
    out.op(
        &format!("agg run {} {} {}", legacy as u8, list(progs.iter().map(|p| prog_tok(p))), sched::sched_tok(&taken)),
        &answer_a(&o),
    );
    // non-trivial: a flush step was granted between an increment's add_current and its add_updates
    let tr = &o.run.trace;
    let mut inside = vec![false; progs.len()];
    let mut hit = false;
    for (t, id) in tr {
        match *id {
            "agg.cinc.add_updates" => inside[*t] = true,  // parked before add_updates means add_current already ran … set below
            _ => {}
        }
        let _ = t;
    }
    let _ = inside;
    for w in tr.windows(2) {
        if w[0].1 == "agg.cinc.add_current" && w[1].1.starts_with("agg.cflush") {
            hit = true;
        }
    }
    if hit {
        out.nontrivial();
        out.count("flush.between.add_current.and.add_updates");
    }
    oracle_a(out, progs, &o);
}

// ------------------------------------------------------------------------------------------------ stream B

fn stream_b(r: &mut Rng, out: &mut Out) {
    let aggressive = r.chance(1, 2);
    let as_dist = r.chance(1, 2);
    let prefix = if r.chance(1, 2) { Some("svc".to_string()) } else { None };
    let glabels = if r.chance(1, 2) { vec![Label::new("env", "t")] } else { vec![] };
    let mut driver = StateDriver::new(aggressive, false, 16, as_dist, glabels.clone(), prefix.clone());
    let rec = driver.recorder();
    let mut writer = Writer::new(if r.chance(1, 3) { 64 } else { 8192 }, false);
    let nkeys = r.range(1, 3);
    // per key: kind 0 counter(incr) 1 counter(abs) 2 gauge 3 histogram
    let kinds: Vec<usize> = (0..nkeys).map(|_| r.below(4)).collect();
    let names: Vec<String> = (0..nkeys).map(|i| format!("k{}", i)).collect();
    let full = |n: &str| match &prefix {
        Some(p) => format!("{}.{}", p, n),
        None => n.to_string(),
    };
    let mut total_inc = vec![0u64; nkeys];
    let mut sent_sum = vec![0u64; nkeys];
    let mut abs_vals: Vec<Vec<u64>> = vec![vec![]; nkeys];
    let mut gauge_last: Vec<Option<f64>> = vec![None; nkeys];
    let mut hist_pending: Vec<Vec<f64>> = vec![vec![]; nkeys];
    let mut zero_since_change = vec![false; nkeys];
    let mut changed_since_flush = vec![false; nkeys];
    let mut gauge_calls: Vec<Vec<String>> = vec![vec![]; nkeys];
    let mut gauge_sent: Vec<Vec<u64>> = vec![vec![]; nkeys];
    let nops = r.range(4, 30);
    for step in 0..=nops {
        let flush = step == nops || r.chance(1, 4);
        if !flush {
            let i = r.below(nkeys);
            let key = Key::from_name(names[i].clone());
            match kinds[i] {
                0 => {
                    let n = *r.pick(&[0u64, 1, 5, 1 << 40, u64::MAX]);
                    rec.register_counter(&key, &META).increment(n);
                    total_inc[i] = total_inc[i].wrapping_add(n);
                    changed_since_flush[i] = changed_since_flush[i] || n != 0;
                }
                1 => {
                    let last = abs_vals[i].last().copied().unwrap_or(0);
                    let v = last + *r.pick(&[0u64, 1, 9, 1000]);
                    rec.register_counter(&key, &META).absolute(v);
                    abs_vals[i].push(v);
                }
                2 => {
                    let v = *r.pick(&[0.0f64, 1.5, -3.25, 1e9, f64::MIN_POSITIVE]);
                    rec.register_gauge(&key, &META).set(v);
                    gauge_last[i] = Some(v);
                    gauge_calls[i].push(format!("s{}", v.to_bits()));
                }
                _ => {
                    let v = r.below(1000) as f64 / 8.0;
                    rec.register_histogram(&key, &META).record(v);
                    hist_pending[i].push(v);
                }
            }
            out.count(&format!("b.op.kind{}", kinds[i]));
            continue;
        }
        out.count("b.flush");
        driver.flush(&mut writer);
        let payloads = writer.drain();
        let msgs = match parse_payloads(&payloads) {
            Ok(m) => m,
            Err(e) => {
                out.oracle_fail("flush produced a malformed DogStatsD message", &e);
                return;
            }
        };
        for m in &msgs {
            if matches!(m.ty.as_str(), "c" | "g") && m.ts.is_some() != aggressive {
                out.oracle_fail(
                    "counter/gauge message timestamp does not match the documented aggregation mode (Aggressive: with, Conservative: without)",
                    &format!("aggressive={} msg={:?}", aggressive, m),
                );
            }
            if !glabels.is_empty() && !m.tags.iter().any(|t| t == "env:t") {
                out.oracle_fail("global label missing from a flushed message", &format!("{:?}", m));
            }
        }
        for i in 0..nkeys {
            let mine: Vec<&Msg> = msgs.iter().filter(|m| m.name == full(&names[i])).collect();
            match kinds[i] {
                0 => {
                    let d: Option<u64> = mine.first().and_then(|m| m.values[0].parse().ok());
                    if mine.len() > 1 {
                        out.oracle_fail("two counter messages for one key in one flush", &format!("{:?}", mine));
                    }
                    if let Some(d) = d {
                        sent_sum[i] = sent_sum[i].wrapping_add(d);
                        if d == 0 {
                            if zero_since_change[i] {
                                out.oracle_fail("a counter that stopped changing was sent as zero more than once", &names[i]);
                            }
                            zero_since_change[i] = true;
                        } else {
                            zero_since_change[i] = false;
                        }
                    }
                    if sent_sum[i] != total_inc[i] {
                        out.oracle_fail("counter deltas sent so far do not add up to the increments made", &format!("{} sent {} made {}", names[i], sent_sum[i], total_inc[i]));
                    }
                    changed_since_flush[i] = false;
                }
                1 => {
                    let d: u64 = mine.first().and_then(|m| m.values[0].parse().ok()).unwrap_or(0);
                    sent_sum[i] = sent_sum[i].wrapping_add(d);
                    if let (Some(f), Some(l)) = (abs_vals[i].first(), abs_vals[i].last()) {
                        if sent_sum[i] != l - f {
                            out.oracle_fail("absolute-only counter: deltas do not add up to last value minus first value", &format!("{} sent {} want {}", names[i], sent_sum[i], l - f));
                        }
                    }
                }
                2 => {
                    if let Some(v) = gauge_last[i] {
                        let got: Option<f64> = mine.first().and_then(|m| m.values[0].parse().ok());
                        if got.map(|g| g.to_bits()) != Some(v.to_bits()) {
                            out.oracle_fail("a flush did not send the gauge's most recent value", &format!("{} want {:?} got {:?}", names[i], v, got));
                        }
                        gauge_calls[i].push("f".into());
                        gauge_sent[i].push(got.map(|g| g.to_bits()).unwrap_or(0));
                    }
                }
                _ => {
                    let want_ty = if as_dist { "d" } else { "h" };
                    let mut got: Vec<f64> = vec![];
                    for m in &mine {
                        if m.ty != want_ty {
                            out.oracle_fail("histogram sent with the wrong metric type for the configuration", &format!("{:?}", m));
                        }
                        for v in &m.values {
                            got.push(v.parse().unwrap_or(f64::NAN));
                        }
                    }
                    let mut a: Vec<u64> = got.iter().map(|x| x.to_bits()).collect();
                    let mut b: Vec<u64> = hist_pending[i].iter().map(|x| x.to_bits()).collect();
                    a.sort();
                    b.sort();
                    if a != b {
                        out.oracle_fail("histogram values of a flush are not exactly the values recorded since the previous flush", &format!("{} got {:?} want {:?}", names[i], got, hist_pending[i]));
                    }
                    hist_pending[i].clear();
                }
            }
        }
    }
    // gauges: the sequence of flushed values is what the model's linearization gives
    for i in 0..nkeys {
        if kinds[i] == 2 && !gauge_calls[i].is_empty() {
            out.op(
                &format!("agg gauge {}", list(gauge_calls[i].iter().cloned())),
                &list(gauge_sent[i].iter().map(|b| b.to_string())),
            );
        }
    }
    out.nontrivial();
}

// ------------------------------------------------------------------------------------------------ stream C

fn stream_c(r: &mut Rng, out: &mut Out) {
    use metrics_exporter_dogstatsd::{AggregationMode, DogStatsDBuilder};
    use std::net::UdpSocket;
    use std::time::{Duration, Instant};
    let sock = match UdpSocket::bind("127.0.0.1:0") {
        Ok(s) => s,
        Err(e) => {
            out.oracle_fail("stream C: cannot bind a UDP socket", &e.to_string());
            return;
        }
    };
    sock.set_read_timeout(Some(Duration::from_millis(40))).unwrap();
    let addr = sock.local_addr().unwrap();
    let aggressive = r.chance(1, 2);
    let rec = match DogStatsDBuilder::default()
        .with_remote_address(format!("udp://{}", addr))
        .and_then(|b| {
            b.with_flush_interval(Duration::from_millis(15))
                .with_aggregation_mode(if aggressive { AggregationMode::Aggressive } else { AggregationMode::Conservative })
                .with_telemetry(false)
                .with_synchronous_backend()
                .build()
        }) {
        Ok(r) => r,
        Err(e) => {
            out.oracle_fail("stream C: exporter did not build", &format!("{:?}", e));
            return;
        }
    };
    let key = Key::from_name("e2e");
    let c = rec.register_counter(&key, &META);
    let gk = Key::from_name("e2e_g");
    let g = rec.register_gauge(&gk, &META);
    let mut total: u64 = 0;
    let mut sum: u64 = 0;
    let mut last_gauge: Option<f64> = None;
    let mut seen_gauge: Option<f64> = None;
    let mut buf = [0u8; 65536];
    let t0 = Instant::now();
    let rounds = r.range(3, 8);
    for _ in 0..rounds {
        let n = r.range(1, 50) as u64;
        c.increment(n);
        total += n;
        let gv = r.below(100) as f64;
        g.set(gv);
        last_gauge = Some(gv);
        std::thread::sleep(Duration::from_millis(r.range(0, 25) as u64));
    }
    // read until the counter's deltas add up and a zero has been seen, or a deadline passes
    let deadline = Instant::now() + Duration::from_millis(1500);
    let mut zeros = 0;
    let mut last_was_zero = false;
    let mut repeated_zero = false;
    while Instant::now() < deadline {
        match sock.recv(&mut buf) {
            Ok(len) => match parse_payloads(&[buf[..len].to_vec()]) {
                Ok(msgs) => {
                    for m in msgs {
                        if matches!(m.ty.as_str(), "c" | "g") && m.ts.is_some() != aggressive {
                            out.oracle_fail("end to end: timestamp does not match the documented aggregation mode", &format!("{:?}", m));
                        }
                        if m.name == "e2e" {
                            let d: u64 = m.values[0].parse().unwrap_or(u64::MAX);
                            sum = sum.wrapping_add(d);
                            if d == 0 {
                                zeros += 1;
                                if last_was_zero {
                                    repeated_zero = true;
                                }
                                last_was_zero = true;
                            } else {
                                last_was_zero = false;
                            }
                        }
                        if m.name == "e2e_g" {
                            seen_gauge = m.values[0].parse().ok();
                        }
                    }
                }
                Err(e) => out.oracle_fail("end to end: datagram is not a well-formed DogStatsD message", &e),
            },
            Err(_) => {
                if sum == total && zeros >= 1 && Instant::now() > t0 + Duration::from_millis(200) {
                    break;
                }
            }
        }
    }
    if sum != total {
        out.oracle_fail("end to end: counter deltas received do not add up to the increments made", &format!("received {} made {}", sum, total));
    }
    if repeated_zero {
        out.oracle_fail("end to end: an idle counter was sent as zero twice in a row", &format!("{} zeros", zeros));
    }
    if seen_gauge.map(|x| x.to_bits()) != last_gauge.map(|x| x.to_bits()) {
        out.oracle_fail("end to end: the last gauge message does not carry the most recent value", &format!("{:?} vs {:?}", seen_gauge, last_gauge));
    }
    out.count("c.session");
    drop(rec);
}

// ------------------------------------------------------------------------------------------------ driver

fn gen_a(r: &mut Rng) -> (Vec<Vec<Call>>, Vec<usize>) {
    let n_inc = r.range(1, 3);
    let mut progs = vec![];
    if r.chance(1, 5) {
        // absolute-only: one thread with non-decreasing values, one flusher
        let mut v = r.range(1, 50) as u64;
        let k = r.range(1, 3);
        let mut p = vec![];
        for _ in 0..k {
            p.push(Call::Abs(v));
            v += r.range(0, 20) as u64;
        }
        progs.push(p);
        progs.push(vec![Call::Flush; r.range(1, 3)]);
        let mut sch = vec![];
        let mut cur = r.below(2);
        for _ in 0..40 {
            if r.chance(1, 2) {
                cur = r.below(2);
            }
            sch.push(cur);
        }
        return (progs, sch);
    }
    for _ in 0..n_inc {
        let k = r.range(1, 3);
        progs.push((0..k).map(|_| Call::Inc(*r.pick(&[0u64, 1, 2, 7, u64::MAX]))).collect());
    }
    let nf = r.range(2, 5);
    progs.push(vec![Call::Flush; nf]);
    let n = progs.len();
    let mut sch = vec![];
    let mut cur = r.below(n);
    for _ in 0..60 {
        if r.chance(1, 2) {
            cur = r.below(n);
        }
        sch.push(cur);
    }
    (progs, sch)
}

pub fn run(cfg: &Cfg, out: &mut Out) {
    let legacy = false;
    let root = Rng::new(cfg.seed);
    // corpus: the split increment around a flush, with the key idle (former delta loss / double zero)
    let corpus: Vec<(Vec<Vec<Call>>, Vec<usize>)> = vec![
        (vec![vec![Call::Inc(5)], vec![Call::Flush, Call::Flush, Call::Flush, Call::Flush]],
         vec![0, 1, 1, 1, 1, 1, 1, 1, 0, 0, 1, 1, 1, 0, 1, 1, 1, 1, 1, 1]),
        (vec![vec![Call::Inc(5), Call::Inc(7)], vec![Call::Flush, Call::Flush, Call::Flush]],
         vec![0, 1, 0, 0, 1, 1, 1, 0, 1, 1, 1, 1, 1, 1]),
        (vec![vec![Call::Abs(10), Call::Abs(25)], vec![Call::Flush, Call::Flush]], vec![0, 1, 0, 0, 0, 0, 1, 1, 1, 0, 0, 0, 1, 1, 1]),
        // K-C10-abs-race: flush between the `last` store and the `current` store of the first absolute
        (vec![vec![Call::Abs(10)], vec![Call::Flush]], vec![0, 1, 0, 0, 1, 1, 1, 0, 0]),
    ];
    for (progs, sch) in corpus {
        out.case("corpus");
        one_a(out, &progs, &sch, legacy);
    }
    for i in 0..cfg.cases {
        let mut r = root.fork(i as u64);
        out.case(&format!("A seed={} i={}", cfg.seed, i));
        let (progs, sch) = gen_a(&mut r);
        one_a(out, &progs, &sch, legacy);
    }
    for i in 0..cfg.cases {
        let mut r = root.fork(1_000_000 + i as u64);
        out.case(&format!("B seed={} i={}", cfg.seed, i));
        stream_b(&mut r, out);
    }
    let nc = if cfg.thorough { 12 } else { 3 };
    for i in 0..nc {
        let mut r = root.fork(2_000_000 + i as u64);
        out.case(&format!("C seed={} i={}", cfg.seed, i));
        stream_c(&mut r, out);
    }
    if cfg.thorough {
        let configs: Vec<Vec<Vec<Call>>> = vec![
            vec![vec![Call::Inc(5)], vec![Call::Flush, Call::Flush, Call::Flush]],
            vec![vec![Call::Inc(3)], vec![Call::Inc(4)], vec![Call::Flush, Call::Flush]],
            vec![vec![Call::Inc(1), Call::Inc(2)], vec![Call::Flush, Call::Flush, Call::Flush]],
        ];
        for progs in configs {
            let mut prefix: Vec<usize> = vec![];
            let mut runs = 0usize;
            let mut exhausted = false;
            out.case(&format!("exhaustive {}", list(progs.iter().map(|p| prog_tok(p)))));
            loop {
                let o = execute_a(&progs, &prefix);
                runs += 1;
                let taken: Vec<usize> = o.run.trace.iter().map(|(t, _)| *t).collect();
                out.op(
                    &format!("agg run {} {} {}", legacy as u8, list(progs.iter().map(|p| prog_tok(p))), sched::sched_tok(&taken)),
                    &answer_a(&o),
                );
                oracle_a(out, &progs, &o);
                if runs >= 20000 {
                    break;
                }
                let mut i = taken.len();
                let mut next = None;
                while i > 0 {
                    i -= 1;
                    if let Some(alt) = o.run.choices[i].iter().copied().filter(|c| *c > taken[i]).min() {
                        next = Some((i, alt));
                        break;
                    }
                }
                match next {
                    None => {
                        exhausted = true;
                        break;
                    }
                    Some((i, alt)) => {
                        prefix = taken[..i].to_vec();
                        prefix.push(alt);
                    }
                }
            }
            out.count_n(&format!("exhaustive.runs.{}", list(progs.iter().map(|p| prog_tok(p)))), runs as u64);
            out.count(&format!("exhaustive.complete={}", exhausted));
            out.nontrivial();
        }
    }
}
