//! C10 — DogStatsD aggregation conserves counts across flushes under any interleaving.
//!
//! Stream A: one real aggregated counter (through `StateDriver` = the exporter's `State` + `FlushState` + the
//!   real `PayloadWriter`, exposed by the cfg(metrics_verif) `verif` module) driven by incrementer threads and one
//!   flusher thread under the deterministic scheduler; the drained payloads of every flush are parsed back; the
//!   executed schedule is replayed on the Lean step machine (`agg run …`).
//! Stream B: sequential histories over several keys and kinds (counters incl. absolute-only ones, gauges,
//!   histograms with sampling off) with all configuration switches; oracles on the parsed payloads: deltas add up,
//!   zero sent once, every gauge's latest value in every flush, every histogram value in exactly one flush,
//!   timestamp present exactly in the mode documented to send one.
//! Stream C: end to end — a built exporter flushing every few milliseconds into a UDP / unixgram socket of the
//!   harness; datagrams re-parsed and summed.

use crate::sched;
use crate::util::*;
use metrics::{Key, Label, Recorder};
use metrics_exporter_dogstatsd::verif::{StateDriver, Writer};
use std::sync::{Arc, Mutex};

static META: metrics::Metadata<'static> = metrics::Metadata::new("mv", metrics::Level::INFO, None);

#[derive(Clone, Copy, Debug, PartialEq)]
enum Call {
    Inc(u64),
    Abs(u64),
    Flush,
}

fn prog_tok(p: &[Call]) -> String {
    if p.is_empty() {
        return "-".into();
    }
    p.iter()
        .map(|c| match c {
            Call::Inc(n) => format!("i{}", n),
            Call::Abs(v) => format!("a{}", v),
            Call::Flush => "f".into(),
        })
        .collect::<Vec<_>>()
        .join("+")
}

#[derive(Debug, Clone, PartialEq)]
pub struct Msg {
    pub name: String,
    pub values: Vec<String>,
    pub ty: String,
    pub rate: Option<String>,
    pub tags: Vec<String>,
    pub ts: Option<String>,
}

/// strict reader of one DogStatsD datagram line `name:v1:v2|type[|@rate][|#t1,t2][|T<ts>]`
pub fn parse_msg(line: &str) -> Result<Msg, String> {
    let mut parts = line.split('|');
    let head = parts.next().ok_or("empty")?;
    let (name, vals) = head.split_once(':').ok_or("no value separator")?;
    if name.is_empty() {
        return Err("empty name".into());
    }
    let values: Vec<String> = vals.split(':').map(|s| s.to_string()).collect();
    if values.iter().any(|v| v.is_empty()) {
        return Err("empty value".into());
    }
    let ty = parts.next().ok_or("no type")?.to_string();
    if !matches!(ty.as_str(), "c" | "g" | "h" | "d") {
        return Err(format!("bad type {}", ty));
    }
    let (mut rate, mut tags, mut ts) = (None, vec![], None);
    for p in parts {
        if let Some(r) = p.strip_prefix('@') {
            rate = Some(r.to_string());
        } else if let Some(t) = p.strip_prefix('#') {
            tags = t.split(',').map(|s| s.to_string()).collect();
        } else if let Some(t) = p.strip_prefix('T') {
            ts = Some(t.to_string());
        } else {
            return Err(format!("unknown section {:?}", p));
        }
    }
    Ok(Msg { name: name.to_string(), values, ty, rate, tags, ts })
}

pub fn parse_payloads(payloads: &[Vec<u8>]) -> Result<Vec<Msg>, String> {
    let mut out = vec![];
    for p in payloads {
        let s = std::str::from_utf8(p).map_err(|e| e.to_string())?;
        if !s.ends_with('\n') {
            return Err(format!("payload does not end with a newline: {:?}", s));
        }
        for line in s[..s.len() - 1].split('\n') {
            out.push(parse_msg(line).map_err(|e| format!("{} :: {:?}", e, line))?);
        }
    }
    Ok(out)
}

/// the `|T` field of an aggregated counter/gauge is the flush time in whole SECONDS since the Unix epoch; the margin
/// (10 minutes either way) only has to separate seconds from milliseconds / zero / garbage, not to time anything
fn check_ts(out: &mut Out, m: &Msg, wher: &str) {
    if let Some(t) = &m.ts {
        let now = std::time::SystemTime::now().duration_since(std::time::UNIX_EPOCH).map(|d| d.as_secs()).unwrap_or(0);
        match t.parse::<u64>() {
            Ok(v) if v + 600 >= now && v <= now + 600 => {}
            _ => out.oracle_fail(
                "counter/gauge timestamp is not the flush time in seconds since the Unix epoch",
                &format!("{}: now {} msg {:?}", wher, now, m),
            ),
        }
    }
}

// ------------------------------------------------------------------------------------------------ stream A

struct OutcomeA {
    flushes: Vec<Option<u64>>, // per flush: the delta sent for the key, or None when nothing was sent
    run: sched::RunResult,
    bad: Option<String>,
    /// two more flushes made after all threads have finished (nothing races them)
    final_flushes: Vec<Option<u64>>,
}

fn execute_a(progs: &[Vec<Call>], schedule: &[usize]) -> OutcomeA {
    let driver = StateDriver::new(true, false, 16, false, vec![], None);
    let rec = driver.recorder();
    let key = Key::from_name("c");
    let counter = rec.register_counter(&key, &META);
    let driver = Arc::new(Mutex::new(driver));
    let flushes: Arc<Mutex<Vec<Option<u64>>>> = Arc::new(Mutex::new(vec![]));
    let bad: Arc<Mutex<Option<String>>> = Arc::new(Mutex::new(None));
    let mut bodies: Vec<Box<dyn FnOnce() + Send + 'static>> = vec![];
    for prog in progs {
        let prog = prog.clone();
        let counter = counter.clone();
        let driver = driver.clone();
        let flushes = flushes.clone();
        let bad = bad.clone();
        bodies.push(Box::new(move || {
            let mut writer = Writer::new(8192, false);
            for c in prog {
                match c {
                    Call::Inc(n) => counter.increment(n),
                    Call::Abs(v) => counter.absolute(v),
                    Call::Flush => {
                        // only one thread flushes, so the lock is never contended
                        driver.lock().unwrap().flush(&mut writer);
                        let payloads = writer.drain();
                        match parse_payloads(&payloads) {
                            Ok(msgs) => {
                                let mine: Vec<&Msg> = msgs.iter().filter(|m| m.name == "c").collect();
                                let r = match mine.len() {
                                    0 => None,
                                    1 => mine[0].values[0].parse::<u64>().ok(),
                                    _ => {
                                        *bad.lock().unwrap() = Some(format!("two messages for one key in one flush: {:?}", msgs));
                                        None
                                    }
                                };
                                flushes.lock().unwrap().push(r);
                            }
                            Err(e) => *bad.lock().unwrap() = Some(e),
                        }
                    }
                }
            }
        }));
    }
    let run = sched::run(bodies, schedule);
    let f = flushes.lock().unwrap().clone();
    let mut final_flushes = vec![];
    if !run.deadlock && !run.timed_out && run.panicked.is_empty() {
        let mut writer = Writer::new(8192, false);
        for _ in 0..2 {
            driver.lock().unwrap().flush(&mut writer);
            let payloads = writer.drain();
            if let Ok(msgs) = parse_payloads(&payloads) {
                let mine: Vec<&Msg> = msgs.iter().filter(|m| m.name == "c").collect();
                final_flushes.push(mine.first().and_then(|m| m.values[0].parse::<u64>().ok()));
            }
        }
    }
    let b = bad.lock().unwrap().clone();
    OutcomeA { flushes: f, run, bad: b, final_flushes }
}

fn answer_a(o: &OutcomeA) -> String {
    let labels: Vec<&str> = o.run.trace.iter().map(|(_, id)| *id).collect();
    let outs = list(o.flushes.iter().map(|f| match f {
        Some(d) => format!("d{}", d),
        None => "skip".into(),
    }));
    format!("{} | {}", labels.join("."), outs)
}

fn oracle_a(out: &mut Out, progs: &[Vec<Call>], o: &OutcomeA) {
    if o.run.deadlock || o.run.timed_out || !o.run.panicked.is_empty() {
        out.oracle_fail("aggregation: deadlock, timeout or panic", &format!("{:?}", o.run.trace));
        return;
    }
    if let Some(b) = &o.bad {
        out.oracle_fail("flush produced malformed or duplicated messages", b);
    }
    let incr_only = progs.iter().flatten().all(|c| !matches!(c, Call::Abs(_)));
    if !incr_only {
        // absolute-only programs (non-decreasing values): no single delta may exceed what was actually added
        let maxv = progs.iter().flatten().filter_map(|c| if let Call::Abs(v) = c { Some(*v) } else { None }).max().unwrap_or(0);
        // trace signature of the known window: a flush step granted between the `last` store and the `current`
        // store of an absolute() that switches the counter into absolute mode
        // a flush whose (load current, swap last) pair is neither entirely before the `last` store nor entirely
        // after the `current` store of that absolute()
        let tr = &o.run.trace;
        let a = tr.iter().position(|(_, id)| *id == "agg.cabs.store_last");
        let b = a.and_then(|a| tr[a..].iter().position(|(_, id)| *id == "agg.cabs.store_current").map(|x| x + a));
        let mut sig = false;
        if let (Some(a), Some(b)) = (a, b) {
            let loads: Vec<usize> = tr.iter().enumerate().filter(|(_, (_, id))| *id == "agg.cflush.load_current").map(|x| x.0).collect();
            let swaps: Vec<usize> = tr.iter().enumerate().filter(|(_, (_, id))| *id == "agg.cflush.swap_last").map(|x| x.0).collect();
            for (l, w) in loads.iter().zip(swaps.iter()) {
                if !(*w < a) && !(*l > b) {
                    sig = true;
                }
            }
        }
        // values that DECREASE (K-C10-abs-decreasing, Lean: abs_decreasing_wraps_witness): the value a flush loaded is
        // smaller than the value the previous flush loaded — read off the trace: the value `current` held at each load
        let vals: Vec<u64> = progs.iter().flatten().filter_map(|c| if let Call::Abs(v) = c { Some(*v) } else { None }).collect();
        let nondec = vals.windows(2).all(|w| w[0] <= w[1]);
        let mut loaded: Vec<u64> = vec![];
        // per flush: the value it loaded is smaller than the value `last` held when it swapped (the value the previous
        // flush loaded, or the first absolute value) — exact outside the K-C10-abs-race window
        let mut decreased_at: Vec<bool> = vec![];
        {
            let (mut cur, mut lastv, mut ld) = (0u64, 0u64, 0u64);
            let mut k = 0usize;
            for (_, id) in tr.iter() {
                match *id {
                    "agg.cabs.store_last" => lastv = vals.get(k).copied().unwrap_or(0),
                    "agg.cabs.store_current" => {
                        cur = vals.get(k).copied().unwrap_or(0);
                        k += 1;
                    }
                    "agg.cflush.load_current" => {
                        ld = cur;
                        loaded.push(cur);
                    }
                    "agg.cflush.swap_last" => {
                        decreased_at.push(ld < lastv);
                        lastv = ld;
                    }
                    _ => {}
                }
            }
        }
        // outside the window (abs_deltas_sum_at_quiescence): all deltas ever sent — the two quiescent flushes
        // afterwards included — add up to exactly (last value) − (first value), without wrapping (non-decreasing
        // values) / modulo 2^64 (any values: abs_only_telescopes)
        if !sig {
            if let (Some(f), Some(l)) = (vals.first(), vals.last()) {
                let sent: u128 = o.flushes.iter().chain(o.final_flushes.iter()).flatten().map(|d| *d as u128).sum();
                let ok = if nondec { sent == (*l as u128).wrapping_sub(*f as u128) } else { (sent as u64) == l.wrapping_sub(*f) };
                if o.final_flushes.len() == 2 && !ok {
                    out.oracle_fail(
                        "absolute-only counter racing the flusher outside the known window: deltas do not add up to last value minus first value",
                        &format!("first {} last {} sent {} (during the run {:?}, afterwards {:?}) trace {:?}", f, l, sent, o.flushes, o.final_flushes, o.run.trace),
                    );
                }
            }
        }
        for (i, f) in o.flushes.iter().enumerate() {
            if let Some(d) = f {
                if *d > maxv {
                    // this flush loaded a smaller value than the flush before it
                    let decreased = decreased_at.get(i).copied().unwrap_or(false);
                    if !sig && decreased {
                        out.count("a.abs.decreasing.wrapped-delta");
                        if !abs_decreasing_is_recorded() {
                            // proposed known finding K-C10-abs-decreasing is not (yet) in known_findings.json: counted,
                            // replayed on the Lean machine (which wraps in the same way), not reported
                            continue;
                        }
                    }
                    out.oracle_fail(
                        &format!(
                            "absolute-only counter: a flush sent a delta larger than anything that was added (wrapped delta) [{}]",
                            if sig {
                                "K-abs-race:flush-between-last-and-current-store-of-first-absolute"
                            } else if decreased {
                                "K-abs-decreasing:flushed-value-smaller-than-the-previous-flushed-value"
                            } else {
                                "no-known-signature"
                            }
                        ),
                        &format!("flush {} sent {} max value {} values loaded by the flushes {:?} trace {:?}", i, d, maxv, loaded, o.run.trace),
                    );
                }
            }
        }
        return; // sums for absolute runs are judged by stream B (sequential)
    }
    // conservation, independent of the trace: once everything is quiet, all deltas ever sent add up to the increments
    {
        let total: u64 = progs.iter().flatten().filter_map(|c| if let Call::Inc(n) = c { Some(*n) } else { None }).fold(0u64, |a, b| a.wrapping_add(b));
        let sent: u64 = o.flushes.iter().chain(o.final_flushes.iter()).flatten().fold(0u64, |a, b| a.wrapping_add(*b));
        if sent != total {
            out.oracle_fail(
                "the deltas sent by all flushes (two more after the threads finished included) do not add up to the increments made",
                &format!("increments total {} deltas sent {} (during the run {:?}, afterwards {:?}) trace {:?}", total, sent, o.flushes, o.final_flushes, o.run.trace),
            );
        }
    }
    // what had reached `current` when each flush loaded it: walk the trace
    let mut applied: u64 = 0;
    let mut k = vec![0usize; progs.len()];
    let mut marks: Vec<u64> = vec![];
    for (t, id) in &o.run.trace {
        match *id {
            "agg.cinc.add_current" => {
                let n = progs[*t].iter().filter_map(|c| if let Call::Inc(n) = c { Some(*n) } else { None }).nth(k[*t]).unwrap_or(0);
                k[*t] += 1;
                applied = applied.wrapping_add(n);
            }
            "agg.cflush.load_current" => marks.push(applied),
            _ => {}
        }
    }
    let detail = format!("trace {:?} flushes {:?}", o.run.trace, o.flushes);
    let mut prev_mark = 0u64;
    let mut zero_since_change = false;
    for (i, f) in o.flushes.iter().enumerate() {
        let Some(m) = marks.get(i) else { break };
        let want = m.wrapping_sub(prev_mark);
        prev_mark = *m;
        match f {
            Some(d) => {
                if *d != want {
                    out.oracle_fail("a flush sent a delta different from the increments made since the previous flush", &format!("flush {} sent {} want {} :: {}", i, d, want, detail));
                }
                if *d == 0 {
                    if zero_since_change {
                        out.oracle_fail("a counter that stopped changing was sent as zero more than once", &format!("flush {} :: {}", i, detail));
                    }
                    zero_since_change = true;
                } else {
                    zero_since_change = false;
                }
            }
            None => {
                if want != 0 {
                    out.oracle_fail("increments were made since the previous flush but the flush sent nothing for the counter (delta lost)", &format!("flush {} lost {} :: {}", i, want, detail));
                } else if !zero_since_change {
                    out.oracle_fail("a counter that stopped changing was never sent as zero", &format!("flush {} :: {}", i, detail));
                }
            }
        }
    }
}

/// Is the proposed known finding K-C10-abs-decreasing (an absolute value smaller than the one flushed before it makes the
/// next flush send a wrapped delta) an entry of known_findings.json?  Then such a delta is reported as an oracle failure
/// carrying its signature (the check prints it as KNOWN-FINDING); until then it is counted and replayed on the model only.
fn abs_decreasing_is_recorded() -> bool {
    static R: std::sync::OnceLock<bool> = std::sync::OnceLock::new();
    *R.get_or_init(|| {
        let p = std::path::Path::new(env!("CARGO_MANIFEST_DIR")).join("..").join("known_findings.json");
        std::fs::read_to_string(p).map(|t| t.contains("K-C10-abs-decreasing")).unwrap_or(false)
    })
}

/// number of flushes whose (load `current`, swap `last`) pair overlaps the (`last` store, `current` store) pair of the
/// absolute() that switches the counter into absolute mode: load before the `current` store and swap after the `last`
/// store. A load without its swap in the trace cannot happen in a completed run.
fn abs_window_flushes(tr: &[(usize, &'static str)]) -> usize {
    let a = tr.iter().position(|(_, id)| *id == "agg.cabs.store_last");
    let b = a.and_then(|a| tr[a..].iter().position(|(_, id)| *id == "agg.cabs.store_current").map(|x| x + a));
    let (Some(a), Some(b)) = (a, b) else { return 0 };
    let loads: Vec<usize> = tr.iter().enumerate().filter(|(_, (_, id))| *id == "agg.cflush.load_current").map(|x| x.0).collect();
    let swaps: Vec<usize> = tr.iter().enumerate().filter(|(_, (_, id))| *id == "agg.cflush.swap_last").map(|x| x.0).collect();
    loads.iter().zip(swaps.iter()).filter(|(l, w)| **w > a && **l < b).count()
}

fn one_a(out: &mut Out, progs: &[Vec<Call>], sch: &[usize], legacy: bool) {
    let o = execute_a(progs, sch);
    let taken: Vec<usize> = o.run.trace.iter().map(|(t, _)| *t).collect();
    out.op(
        &format!("agg run {} {} {}", legacy as u8, list(progs.iter().map(|p| prog_tok(p))), sched::sched_tok(&taken)),
        &answer_a(&o),
    );
    // absolute-only programs: the number of flushes inside the K-C10-abs-race window, computed from the trace of the
    // real run, against the model's predicate on the schedule (`absRaceCount`)
    if progs.iter().flatten().all(|c| !matches!(c, Call::Inc(_))) && progs.iter().flatten().any(|c| matches!(c, Call::Abs(_))) {
        let w = abs_window_flushes(&o.run.trace);
        out.op(
            &format!("agg absrace {} {}", list(progs.iter().map(|p| prog_tok(p))), sched::sched_tok(&taken)),
            &w.to_string(),
        );
        out.count(if w > 0 { "a.abs.window.inside" } else { "a.abs.window.outside" });
        if w > 0 {
            out.nontrivial();
        }
    }
    // non-trivial: a flush step was granted between an increment's add_current and its add_updates
    let tr = &o.run.trace;
    let mut inside = vec![false; progs.len()];
    let mut hit = false;
    for (t, id) in tr {
        match *id {
            "agg.cinc.add_updates" => inside[*t] = true,  // parked before add_updates means add_current already ran … set below
            _ => {}
        }
        let _ = t;
    }
    let _ = inside;
    for w in tr.windows(2) {
        if w[0].1 == "agg.cinc.add_current" && w[1].1.starts_with("agg.cflush") {
            hit = true;
        }
    }
    if hit {
        out.nontrivial();
        out.count("flush.between.add_current.and.add_updates");
    }
    oracle_a(out, progs, &o);
}

// ------------------------------------------------------------------------------------------------ stream M
//
// SEVERAL counter keys of one real `State` — keys sharing a NAME and differing only in their labels, a key without
// labels, another name — updated by incrementer threads and flushed by ONE flusher under the deterministic scheduler.
// `State::flush` walks a snapshot `HashMap` whose order differs from flush to flush; the cfg(metrics_verif) hook
// `verif::note_counter_visit` reports the order.  The executed run is projected onto every key (its updaters' steps on
// that key + the flusher's three steps on that key per flush) and each projection is (a) replayed on the Lean one-key
// step machine (`agg run`), (b) judged by the one-key oracles of stream A (conservation, delta = increments between
// two loads, zero exactly once); the sequence of all visits is replayed on the many-key idle-set model (`agg visits`,
// Lean: idle_bookkeeping_per_key).

type KeySpec = (&'static str, Vec<(&'static str, &'static str)>);

fn mk_key(spec: &KeySpec) -> Key {
    if spec.1.is_empty() {
        Key::from_name(spec.0)
    } else {
        Key::from_parts(spec.0, spec.1.iter().map(|(k, v)| Label::new(*k, *v)).collect::<Vec<_>>())
    }
}

/// the tags a message of this key must carry (sorted): its own labels, then the global ones
fn want_tags(spec: &KeySpec, glabels: &[(&'static str, &'static str)]) -> Vec<String> {
    let mut t: Vec<String> = spec.1.iter().chain(glabels.iter()).map(|(k, v)| format!("{}:{}", k, v)).collect();
    t.sort();
    t
}

fn msg_is(m: &Msg, full_name: &str, tags: &[String]) -> bool {
    let mut t = m.tags.clone();
    t.sort();
    m.name == full_name && t == tags
}

struct OutcomeM {
    per_key: Vec<OutcomeA>,
    per_key_progs: Vec<Vec<Vec<Call>>>,
    /// all visits in order: (key index, what was sent)
    visits: Vec<(usize, Option<u64>)>,
    run: sched::RunResult,
    bad: Option<String>,
    inside_walk: bool,
}

fn execute_m(
    specs: &[KeySpec],
    progs: &[Vec<(usize, Call)>],
    schedule: &[usize],
    aggressive: bool,
    prefix: Option<&'static str>,
    glabels: &[(&'static str, &'static str)],
) -> OutcomeM {
    let driver = StateDriver::new(
        aggressive,
        false,
        16,
        false,
        glabels.iter().map(|(k, v)| Label::new(*k, *v)).collect(),
        prefix.map(|p| p.to_string()),
    );
    let rec = driver.recorder();
    let keys: Vec<Key> = specs.iter().map(mk_key).collect();
    let counters: Vec<metrics::Counter> = keys.iter().map(|k| rec.register_counter(k, &META)).collect();
    let fulls: Vec<String> = specs.iter().map(|s| match prefix { Some(p) => format!("{}.{}", p, s.0), None => s.0.to_string() }).collect();
    let tags: Vec<Vec<String>> = specs.iter().map(|s| want_tags(s, glabels)).collect();
    let driver = Arc::new(Mutex::new(driver));
    // per flush: (visit order as key indices, per key what was sent)
    let flushes: Arc<Mutex<Vec<(Vec<usize>, Vec<Option<u64>>)>>> = Arc::new(Mutex::new(vec![]));
    let bad: Arc<Mutex<Option<String>>> = Arc::new(Mutex::new(None));
    let do_flush = {
        let keys = keys.clone();
        let fulls = fulls.clone();
        let tags = tags.clone();
        let aggressive = aggressive;
        move |driver: &Arc<Mutex<StateDriver>>, writer: &mut Writer| -> Result<(Vec<usize>, Vec<Option<u64>>), String> {
            let _ = metrics_exporter_dogstatsd::verif::take_counter_visits();
            driver.lock().unwrap().flush(writer);
            let order: Vec<usize> = metrics_exporter_dogstatsd::verif::take_counter_visits()
                .iter()
                .filter_map(|k| keys.iter().position(|x| x == k))
                .collect();
            let payloads = writer.drain();
            let msgs = parse_payloads(&payloads)?;
            let mut res = vec![None; keys.len()];
            for m in &msgs {
                let Some(i) = (0..keys.len()).find(|i| msg_is(m, &fulls[*i], &tags[*i])) else {
                    return Err(format!("a flush sent a message that belongs to no registered key (name + tags): {:?}", m));
                };
                if res[i].is_some() {
                    return Err(format!("two messages for one key in one flush: {:?}", msgs));
                }
                if m.ty != "c" || m.ts.is_some() != aggressive {
                    return Err(format!("counter message with the wrong type or timestamp presence for the mode: {:?}", m));
                }
                res[i] = Some(m.values[0].parse::<u64>().map_err(|e| format!("{} {:?}", e, m))?);
            }
            Ok((order, res))
        }
    };
    let mut bodies: Vec<Box<dyn FnOnce() + Send + 'static>> = vec![];
    for prog in progs {
        let prog = prog.clone();
        let counters = counters.clone();
        let driver = driver.clone();
        let flushes = flushes.clone();
        let bad = bad.clone();
        let do_flush = do_flush.clone();
        bodies.push(Box::new(move || {
            let mut writer = Writer::new(8192, false);
            for (k, c) in prog {
                match c {
                    Call::Inc(n) => counters[k].increment(n),
                    Call::Abs(v) => counters[k].absolute(v),
                    Call::Flush => match do_flush(&driver, &mut writer) {
                        Ok(x) => flushes.lock().unwrap().push(x),
                        Err(e) => *bad.lock().unwrap() = Some(e),
                    },
                }
            }
        }));
    }
    let run = sched::run(bodies, schedule);
    let fl = flushes.lock().unwrap().clone();
    let mut finals: Vec<(Vec<usize>, Vec<Option<u64>>)> = vec![];
    let mut b = bad.lock().unwrap().clone();
    if !run.deadlock && !run.timed_out && run.panicked.is_empty() && b.is_none() {
        let mut writer = Writer::new(8192, false);
        for _ in 0..2 {
            match do_flush(&driver, &mut writer) {
                Ok(x) => finals.push(x),
                Err(e) => b = Some(e),
            }
        }
    }
    let nk = specs.len();
    for (order, _) in fl.iter().chain(finals.iter()) {
        let mut o = order.clone();
        o.sort();
        if o != (0..nk).collect::<Vec<_>>() && b.is_none() {
            b = Some(format!("a flush did not visit every registered counter exactly once: {:?}", order));
        }
    }
    // project the trace onto the keys
    let flusher = progs.iter().position(|p| p.iter().any(|(_, c)| matches!(c, Call::Flush)));
    let mut proj: Vec<Vec<(usize, &'static str)>> = vec![vec![]; nk];
    let mut ci = vec![0usize; progs.len()];
    let (mut fi, mut vi) = (0usize, 0usize);
    let mut inside_walk = false;
    if b.is_none() {
        for (t, id) in &run.trace {
            if *id == "start" {
                for p in proj.iter_mut() {
                    p.push((*t, *id));
                }
                continue;
            }
            if Some(*t) == flusher {
                let Some(k) = fl.get(fi).and_then(|(o, _)| o.get(vi)).copied() else { continue };
                proj[k].push((*t, *id));
                if *id == "agg.cflush.swap_updates" {
                    vi += 1;
                    if vi == nk {
                        vi = 0;
                        fi += 1;
                    }
                }
            } else {
                let Some((k, _)) = progs[*t].get(ci[*t]).copied() else { continue };
                proj[k].push((*t, *id));
                if vi > 0 || (*id != "agg.cinc.store_abs" && false) {
                    inside_walk = true; // an updater's step granted while the flusher is between two keys of one flush
                }
                if id.ends_with("add_updates") {
                    ci[*t] += 1;
                }
            }
        }
    }
    let mut per_key = vec![];
    let mut per_key_progs = vec![];
    for k in 0..nk {
        let pk: Vec<Vec<Call>> = progs
            .iter()
            .map(|p| p.iter().filter(|(kk, c)| *kk == k || matches!(c, Call::Flush)).map(|(_, c)| *c).collect())
            .collect();
        per_key_progs.push(pk);
        per_key.push(OutcomeA {
            flushes: fl.iter().map(|(_, r)| r[k]).collect(),
            run: sched::RunResult {
                trace: proj[k].clone(),
                choices: vec![],
                deadlock: run.deadlock,
                timed_out: run.timed_out,
                panicked: run.panicked.clone(),
            },
            bad: None,
            final_flushes: finals.iter().map(|(_, r)| r[k]).collect(),
        });
    }
    let visits: Vec<(usize, Option<u64>)> =
        fl.iter().chain(finals.iter()).flat_map(|(o, r)| o.iter().map(|k| (*k, r[*k])).collect::<Vec<_>>()).collect();
    OutcomeM { per_key, per_key_progs, visits, run, bad: b, inside_walk }
}

const KEY_POOL: &[(&str, &[(&str, &str)])] = &[
    ("reqs", &[("k", "a")]),
    ("reqs", &[("k", "b")]),
    ("reqs", &[]),
    ("reqs", &[("k", "a"), ("z", "1")]),
    ("other", &[("k", "a")]),
];

fn one_m(out: &mut Out, specs: &[KeySpec], progs: &[Vec<(usize, Call)>], sch: &[usize], aggressive: bool, prefix: Option<&'static str>, glabels: &[(&'static str, &'static str)]) {
    let o = execute_m(specs, progs, sch, aggressive, prefix, glabels);
    if o.run.deadlock || o.run.timed_out || !o.run.panicked.is_empty() {
        out.oracle_fail("aggregation (several keys): deadlock, timeout or panic", &format!("{:?}", o.run.trace));
        return;
    }
    if let Some(b) = &o.bad {
        out.oracle_fail("flush of a state with several counter keys produced malformed, duplicated or foreign messages", b);
        return;
    }
    let same_name = specs.iter().enumerate().any(|(i, a)| specs.iter().skip(i + 1).any(|b| a.0 == b.0));
    out.count(if same_name { "m.keys.sharing-a-name" } else { "m.keys.distinct-names" });
    out.count(&format!("m.keys.{}", specs.len()));
    if o.inside_walk {
        out.count("m.update.granted.between.two.keys.of.one.flush");
        out.nontrivial();
    }
    for k in 0..specs.len() {
        let ok = &o.per_key[k];
        let pk = &o.per_key_progs[k];
        let taken: Vec<usize> = ok.run.trace.iter().map(|(t, _)| *t).collect();
        out.op(&format!("agg run 0 {} {}", list(pk.iter().map(|p| prog_tok(p))), sched::sched_tok(&taken)), &answer_a(ok));
        oracle_a(out, pk, ok);
        if ok.run.trace.windows(2).any(|w| w[0].1 == "agg.cinc.add_current" && w[1].1.starts_with("agg.cflush")) {
            out.count("m.flush.between.add_current.and.add_updates");
            out.nontrivial();
        }
        if pk.iter().flatten().all(|c| matches!(c, Call::Flush)) {
            out.count("m.key.never-updated");
        }
    }
    // the many-key idle set: every visit in order (a skipped delta is zero — the one-key oracles above have checked that)
    out.op(
        &format!("agg visits {}", list(o.visits.iter().map(|(k, d)| format!("{}:{}:1", k, d.unwrap_or(0))))),
        &list(o.visits.iter().map(|(_, d)| if d.is_some() { "w".to_string() } else { "s".to_string() })),
    );
}

fn gen_m(r: &mut Rng) -> (Vec<KeySpec>, Vec<Vec<(usize, Call)>>, Vec<usize>, bool, Option<&'static str>, Vec<(&'static str, &'static str)>) {
    let nk = r.range(2, 3);
    let mut idx: Vec<usize> = (0..KEY_POOL.len()).collect();
    // mostly keys sharing the name "reqs"
    let mut specs: Vec<KeySpec> = vec![];
    for _ in 0..nk {
        let j = r.below(idx.len());
        let p = KEY_POOL[idx.remove(j)];
        specs.push((p.0, p.1.to_vec()));
    }
    let nt = r.range(1, 3);
    let mut progs: Vec<Vec<(usize, Call)>> = vec![];
    for _ in 0..nt {
        let k = r.range(1, 3);
        // an updater mostly stays on a subset of the keys, so that some key is idle while another is active
        let home = r.below(nk);
        progs.push((0..k).map(|_| (if r.chance(2, 3) { home } else { r.below(nk) }, Call::Inc(*r.pick(&[0u64, 1, 2, 7, u64::MAX])))).collect());
    }
    let nf = r.range(2, 4);
    progs.push(vec![(0, Call::Flush); nf]);
    let n = progs.len();
    let mut sch = vec![];
    let mut cur = r.below(n);
    for _ in 0..(40 + 3 * nk * nf) {
        if r.chance(1, 2) {
            cur = if r.chance(1, 2) { n - 1 } else { r.below(n) };
        }
        sch.push(cur);
    }
    let prefix = if r.chance(1, 3) { Some("svc") } else { None };
    let glabels = if r.chance(1, 3) { vec![("env", "t")] } else { vec![] };
    (specs, progs, sch, r.chance(1, 2), prefix, glabels)
}

// ------------------------------------------------------------------------------------------------ stream B

fn stream_b(r: &mut Rng, out: &mut Out) {
    let aggressive = r.chance(1, 2);
    let as_dist = r.chance(1, 2);
    let prefix = if r.chance(1, 2) { Some("svc".to_string()) } else { None };
    let glabels = if r.chance(1, 2) { vec![Label::new("env", "t")] } else { vec![] };
    let mut driver = StateDriver::new(aggressive, false, 16, as_dist, glabels.clone(), prefix.clone());
    let rec = driver.recorder();
    let nkeys = r.range(1, 3);
    // `near`: counters only, and a payload limit around the length of their lines, so that SOME writes of State::flush
    // are rejected (a longer value, a key with one more label) and others are not
    let near = r.chance(1, 5);
    // per key: kind 0 counter(incr) 1 counter(abs) 2 gauge 3 histogram
    let kinds: Vec<usize> = (0..nkeys).map(|_| if near { r.below(2) } else { r.below(4) }).collect();
    // keys: own names, or ONE shared name with different labels (and the bare name)
    let shared = r.chance(1, 2);
    let names: Vec<String> = (0..nkeys).map(|i| if shared { "req".to_string() } else { format!("k{}", i) }).collect();
    let klabels: Vec<Vec<(String, String)>> = (0..nkeys)
        .map(|i| if shared { (0..i).map(|j| (format!("l{}", j), "x".to_string())).collect() } else if r.chance(1, 3) { vec![("l".to_string(), "x".to_string())] } else { vec![] })
        .collect();
    let mk = |i: usize| -> Key {
        if klabels[i].is_empty() {
            Key::from_name(names[i].clone())
        } else {
            Key::from_parts(names[i].clone(), klabels[i].iter().map(|(k, v)| Label::new(k.clone(), v.clone())).collect::<Vec<_>>())
        }
    };
    // is message `m` one of key `i`? full name and exactly the key's labels (+ the global one)
    let is_mine = |m: &Msg, i: usize, full_name: &str| -> bool {
        let mut want: Vec<String> = klabels[i].iter().map(|(k, v)| format!("{}:{}", k, v)).collect();
        if !glabels.is_empty() {
            want.push("env:t".to_string());
        }
        want.sort();
        let mut got = m.tags.clone();
        got.sort();
        m.name == full_name && got == want
    };
    // the exact line `write_counter` produces for (key, value), from the real serialiser on a roomy writer
    let line_len = |i: usize, v: u64| -> usize {
        let mut w = Writer::new(8192, false);
        w.write_counter(&mk(i), v, if aggressive { Some(1_700_000_000) } else { None }, prefix.as_deref(), &glabels);
        w.drain().first().map(|p| p.len()).unwrap_or(0)
    };
    let limit: usize = if near {
        (line_len(0, 5) + r.range(0, 14)).saturating_sub(2)
    } else if r.chance(1, 3) {
        64
    } else {
        8192
    };
    let mut writer = Writer::new(limit, false);
    let abs_any_order: Vec<bool> = (0..nkeys).map(|_| r.chance(1, 4)).collect();
    let mut dropped_sum = vec![0u64; nkeys];
    let mut prev_zero = vec![false; nkeys];
    let mut abs_last_flushed: Vec<Option<u64>> = vec![None; nkeys];
    let mut visit_ops: Vec<String> = vec![];
    let mut visit_ans: Vec<String> = vec![];
    // a key exists in the registry (and in a flush's snapshot) from its first use
    let mut registered = vec![false; nkeys];
    let full = |n: &str| match &prefix {
        Some(p) => format!("{}.{}", p, n),
        None => n.to_string(),
    };
    let mut total_inc = vec![0u64; nkeys];
    let mut sent_sum = vec![0u64; nkeys];
    let mut abs_vals: Vec<Vec<u64>> = vec![vec![]; nkeys];
    let mut gauge_last: Vec<Option<f64>> = vec![None; nkeys];
    let mut hist_pending: Vec<Vec<f64>> = vec![vec![]; nkeys];
    let mut zero_since_change = vec![false; nkeys];
    let mut changed_since_flush = vec![false; nkeys];
    let mut gauge_calls: Vec<Vec<String>> = vec![vec![]; nkeys];
    let mut gauge_sent: Vec<Vec<u64>> = vec![vec![]; nkeys];
    let nops = r.range(4, 30);
    for step in 0..=nops {
        let flush = step == nops || r.chance(1, 4);
        if !flush {
            let i = r.below(nkeys);
            let key = mk(i);
            registered[i] = true;
            match kinds[i] {
                0 => {
                    let n = *r.pick(&[0u64, 1, 5, 1 << 40, u64::MAX]);
                    rec.register_counter(&key, &META).increment(n);
                    total_inc[i] = total_inc[i].wrapping_add(n);
                    changed_since_flush[i] = changed_since_flush[i] || n != 0;
                }
                1 => {
                    let last = abs_vals[i].last().copied().unwrap_or(0);
                    // non-decreasing over the whole u64 range (steps beyond 2^32 and 2^63; the first value may be huge)
                    let v = if abs_any_order[i] {
                        *r.pick(&[0u64, 7, 100, 1 << 33, (1 << 63) + 5, u64::MAX])
                    } else if abs_vals[i].is_empty() {
                        *r.pick(&[0u64, 7, 1 << 33, (1 << 63) + 5])
                    } else {
                        last.saturating_add(*r.pick(&[0u64, 1, 9, 1000, 1 << 33, 1 << 62, 1 << 63]))
                    };
                    rec.register_counter(&key, &META).absolute(v);
                    abs_vals[i].push(v);
                    if abs_last_flushed[i].is_none() {
                        abs_last_flushed[i] = Some(v); // the mode-switching absolute stores `last := v`
                    }
                }
                2 => {
                    let v = *r.pick(&[0.0f64, 1.5, -3.25, 1e9, f64::MIN_POSITIVE, 0.1, 1e300]);
                    let g = rec.register_gauge(&key, &META);
                    // the handle starts at 0.0; increment / decrement are read-modify-write on the current value
                    let cur = gauge_last[i].unwrap_or(0.0);
                    match r.below(3) {
                        0 => {
                            g.set(v);
                            gauge_last[i] = Some(v);
                            gauge_calls[i].push(format!("s{}", v.to_bits()));
                        }
                        1 => {
                            g.increment(v);
                            gauge_last[i] = Some(cur + v);
                            gauge_calls[i].push(format!("i{}", v.to_bits()));
                            out.count("b.gauge.increment");
                        }
                        _ => {
                            g.decrement(v);
                            gauge_last[i] = Some(cur - v);
                            gauge_calls[i].push(format!("d{}", v.to_bits()));
                            out.count("b.gauge.decrement");
                        }
                    }
                }
                _ => {
                    let v = r.below(1000) as f64 / 8.0;
                    rec.register_histogram(&key, &META).record(v);
                    hist_pending[i].push(v);
                }
            }
            out.count(&format!("b.op.kind{}", kinds[i]));
            continue;
        }
        out.count("b.flush");
        let counts = driver.flush(&mut writer);
        let payloads = writer.drain();
        let msgs = match parse_payloads(&payloads) {
            Ok(m) => m,
            Err(e) => {
                out.oracle_fail("flush produced a malformed DogStatsD message", &e);
                return;
            }
        };
        for m in &msgs {
            if matches!(m.ty.as_str(), "c" | "g") && m.ts.is_some() != aggressive {
                out.oracle_fail(
                    "counter/gauge message timestamp does not match the documented aggregation mode (Aggressive: with, Conservative: without)",
                    &format!("aggressive={} msg={:?}", aggressive, m),
                );
            }
            check_ts(out, m, "stream B");
            if !glabels.is_empty() && !m.tags.iter().any(|t| t == "env:t") {
                out.oracle_fail("global label missing from a flushed message", &format!("{:?}", m));
            }
        }
        for m in &msgs {
            if !(0..nkeys).any(|i| is_mine(m, i, &full(&names[i]))) {
                out.oracle_fail("a flush sent a message for a metric that was never registered", &format!("{:?}", m));
            }
        }
        // counters: which message must be there — decided by the flushed delta (zero once), dropped ONLY when its line is
        // longer than the payload limit (then the serializer failure is counted); the idle mark is made before the write
        let mut expect_rejected = 0u64;
        for i in 0..nkeys {
            if kinds[i] > 1 || !registered[i] {
                continue;
            }
            let exp_delta = if kinds[i] == 0 {
                total_inc[i].wrapping_sub(sent_sum[i].wrapping_add(dropped_sum[i]))
            } else {
                match (abs_vals[i].last(), abs_last_flushed[i]) {
                    (Some(c), Some(l)) => {
                        if *c < l {
                            out.count("b.abs.decreasing.wrapped-delta");
                        }
                        c.wrapping_sub(l)
                    }
                    _ => 0,
                }
            };
            if kinds[i] == 1 {
                if let Some(c) = abs_vals[i].last() {
                    if abs_decreasing_is_recorded() && *c < abs_last_flushed[i].unwrap_or(0) {
                        out.oracle_fail(
                            "absolute-only counter: a flush sent a delta larger than anything that was added (wrapped delta) [K-abs-decreasing:flushed-value-smaller-than-the-previous-flushed-value]",
                            &format!("{} values {:?} previously flushed {:?}", names[i], abs_vals[i], abs_last_flushed[i]),
                        );
                    }
                    abs_last_flushed[i] = Some(*c);
                }
            }
            let decided = !(exp_delta == 0 && prev_zero[i]);
            prev_zero[i] = exp_delta == 0;
            let too_long = line_len(i, exp_delta) > limit;
            let mine: Vec<&Msg> = msgs.iter().filter(|m| is_mine(m, i, &full(&names[i]))).collect();
            let present = !mine.is_empty();
            if present != (decided && !too_long) {
                out.oracle_fail(
                    "a counter message is missing or unexpected: a changed counter or its one zero may only be dropped when its line is longer than the payload limit",
                    &format!("key {} {:?} delta {} decided {} line {} limit {} got {:?}", names[i], klabels[i], exp_delta, decided, line_len(i, exp_delta), limit, mine),
                );
            }
            if present && mine[0].values[0].parse::<u64>().ok() != Some(exp_delta) {
                out.oracle_fail("a counter message does not carry the delta since the previous flush", &format!("key {} {:?} want {} got {:?}", names[i], klabels[i], exp_delta, mine));
            }
            if decided && too_long {
                dropped_sum[i] = dropped_sum[i].wrapping_add(exp_delta);
                expect_rejected += 1;
                if exp_delta != 0 {
                    zero_since_change[i] = false; // the counter did change; only its message was dropped
                }
                out.count(if exp_delta == 0 { "b.rejected.zero" } else { "b.rejected.delta" });
            }
            visit_ops.push(format!("{}:{}:{}", i, exp_delta, !too_long as u8));
            visit_ans.push(if present { "w" } else if decided && too_long { "r" } else { "s" }.to_string());
        }
        if near && counts.packets_dropped_serializer != expect_rejected {
            out.oracle_fail(
                "the serializer-failure count of a flush is not the number of counter lines that did not fit",
                &format!("counted {} expected {}", counts.packets_dropped_serializer, expect_rejected),
            );
        }
        for i in 0..nkeys {
            let mine: Vec<&Msg> = msgs.iter().filter(|m| is_mine(m, i, &full(&names[i]))).collect();
            match kinds[i] {
                0 => {
                    let d: Option<u64> = mine.first().and_then(|m| m.values[0].parse().ok());
                    if mine.len() > 1 {
                        out.oracle_fail("two counter messages for one key in one flush", &format!("{:?}", mine));
                    }
                    if let Some(d) = d {
                        sent_sum[i] = sent_sum[i].wrapping_add(d);
                        if d == 0 {
                            if zero_since_change[i] {
                                out.oracle_fail("a counter that stopped changing was sent as zero more than once", &names[i]);
                            }
                            zero_since_change[i] = true;
                        } else {
                            zero_since_change[i] = false;
                        }
                    }
                    if sent_sum[i].wrapping_add(dropped_sum[i]) != total_inc[i] {
                        out.oracle_fail("counter deltas sent so far do not add up to the increments made", &format!("{} sent {} made {}", names[i], sent_sum[i], total_inc[i]));
                    }
                    changed_since_flush[i] = false;
                }
                1 => {
                    let d: u64 = mine.first().and_then(|m| m.values[0].parse().ok()).unwrap_or(0);
                    sent_sum[i] = sent_sum[i].wrapping_add(d);
                    if let (Some(f), Some(l)) = (abs_vals[i].first(), abs_vals[i].last()) {
                        // modulo 2^64 (exact for non-decreasing values): abs_only_telescopes
                        if sent_sum[i].wrapping_add(dropped_sum[i]) != l.wrapping_sub(*f) {
                            out.oracle_fail("absolute-only counter: deltas do not add up to last value minus first value", &format!("{} sent {} dropped {} want {}", names[i], sent_sum[i], dropped_sum[i], l.wrapping_sub(*f)));
                        }
                    }
                }
                2 => {
                    if let Some(v) = gauge_last[i] {
                        let got: Option<f64> = mine.first().and_then(|m| m.values[0].parse().ok());
                        if got.map(|g| g.to_bits()) != Some(v.to_bits()) {
                            out.oracle_fail("a flush did not send the gauge's most recent value", &format!("{} want {:?} got {:?}", names[i], v, got));
                        }
                        gauge_calls[i].push("f".into());
                        gauge_sent[i].push(got.map(|g| g.to_bits()).unwrap_or(0));
                    }
                }
                _ => {
                    let want_ty = if as_dist { "d" } else { "h" };
                    let mut got: Vec<f64> = vec![];
                    for m in &mine {
                        if m.ty != want_ty {
                            out.oracle_fail("histogram sent with the wrong metric type for the configuration", &format!("{:?}", m));
                        }
                        for v in &m.values {
                            got.push(v.parse().unwrap_or(f64::NAN));
                        }
                    }
                    let mut a: Vec<u64> = got.iter().map(|x| x.to_bits()).collect();
                    let mut b: Vec<u64> = hist_pending[i].iter().map(|x| x.to_bits()).collect();
                    a.sort();
                    b.sort();
                    if a != b {
                        out.oracle_fail("histogram values of a flush are not exactly the values recorded since the previous flush", &format!("{} got {:?} want {:?}", names[i], got, hist_pending[i]));
                    }
                    hist_pending[i].clear();
                }
            }
        }
    }
    // counters: all visits of all flushes on the many-key idle-set model with rejected writes (`visits`)
    if !visit_ops.is_empty() {
        out.op(&format!("agg visits {}", list(visit_ops.iter().cloned())), &list(visit_ans.iter().cloned()));
    }
    if near {
        out.count("b.near-limit");
    }
    if shared {
        out.count("b.keys.sharing-a-name");
    }
    // gauges: the sequence of flushed values is what the model's linearization gives
    for i in 0..nkeys {
        if kinds[i] == 2 && !gauge_calls[i].is_empty() {
            out.op(
                &format!("agg gaugeops {}", list(gauge_calls[i].iter().cloned())),
                &list(gauge_sent[i].iter().map(|b| b.to_string())),
            );
        }
    }
    out.nontrivial();
}

// ------------------------------------------------------------------------------------------------ stream C

fn stream_c(r: &mut Rng, out: &mut Out) {
    use metrics_exporter_dogstatsd::{AggregationMode, DogStatsDBuilder};
    use std::net::UdpSocket;
    use std::time::{Duration, Instant};
    let sock = match UdpSocket::bind("127.0.0.1:0") {
        Ok(s) => s,
        Err(e) => {
            out.oracle_fail("stream C: cannot bind a UDP socket", &e.to_string());
            return;
        }
    };
    sock.set_read_timeout(Some(Duration::from_millis(40))).unwrap();
    let addr = sock.local_addr().unwrap();
    let aggressive = r.chance(1, 2);
    let rec = match DogStatsDBuilder::default()
        .with_remote_address(format!("udp://{}", addr))
        .and_then(|b| {
            b.with_flush_interval(Duration::from_millis(15))
                .with_aggregation_mode(if aggressive { AggregationMode::Aggressive } else { AggregationMode::Conservative })
                .with_telemetry(false)
                .with_synchronous_backend()
                .build()
        }) {
        Ok(r) => r,
        Err(e) => {
            out.oracle_fail("stream C: exporter did not build", &format!("{:?}", e));
            return;
        }
    };
    let key = Key::from_name("e2e");
    let c = rec.register_counter(&key, &META);
    let gk = Key::from_name("e2e_g");
    let g = rec.register_gauge(&gk, &META);
    let mut total: u64 = 0;
    let mut sum: u64 = 0;
    let mut last_gauge: Option<f64> = None;
    let mut seen_gauge: Option<f64> = None;
    let mut buf = [0u8; 65536];
    let t0 = Instant::now();
    let rounds = r.range(3, 8);
    for _ in 0..rounds {
        let n = r.range(1, 50) as u64;
        c.increment(n);
        total += n;
        let gv = r.below(100) as f64;
        g.set(gv);
        last_gauge = Some(gv);
        std::thread::sleep(Duration::from_millis(r.range(0, 25) as u64));
    }
    // read until the counter's deltas add up and a zero has been seen, or a deadline passes
    let deadline = Instant::now() + Duration::from_millis(1500);
    let mut zeros = 0;
    let mut last_was_zero = false;
    let mut repeated_zero = false;
    while Instant::now() < deadline {
        match sock.recv(&mut buf) {
            Ok(len) => match parse_payloads(&[buf[..len].to_vec()]) {
                Ok(msgs) => {
                    for m in msgs {
                        if matches!(m.ty.as_str(), "c" | "g") && m.ts.is_some() != aggressive {
                            out.oracle_fail("end to end: timestamp does not match the documented aggregation mode", &format!("{:?}", m));
                        }
                        check_ts(out, &m, "stream C");
                        if m.name != "e2e" && m.name != "e2e_g" {
                            out.oracle_fail("end to end: the socket received a message for a metric that was never registered", &format!("{:?}", m));
                        }
                        if m.name == "e2e" {
                            let d: u64 = m.values[0].parse().unwrap_or(u64::MAX);
                            sum = sum.wrapping_add(d);
                            if d == 0 {
                                zeros += 1;
                                if last_was_zero {
                                    repeated_zero = true;
                                }
                                last_was_zero = true;
                            } else {
                                last_was_zero = false;
                            }
                        }
                        if m.name == "e2e_g" {
                            seen_gauge = m.values[0].parse().ok();
                        }
                    }
                }
                Err(e) => out.oracle_fail("end to end: datagram is not a well-formed DogStatsD message", &e),
            },
            Err(_) => {
                if sum == total && zeros >= 1 && Instant::now() > t0 + Duration::from_millis(200) {
                    break;
                }
            }
        }
    }
    if sum != total {
        out.oracle_fail("end to end: counter deltas received do not add up to the increments made", &format!("received {} made {}", sum, total));
    }
    if repeated_zero {
        out.oracle_fail("end to end: an idle counter was sent as zero twice in a row", &format!("{} zeros", zeros));
    }
    if seen_gauge.map(|x| x.to_bits()) != last_gauge.map(|x| x.to_bits()) {
        out.oracle_fail("end to end: the last gauge message does not carry the most recent value", &format!("{:?} vs {:?}", seen_gauge, last_gauge));
    }
    out.count("c.session");
    drop(rec);
}

// ------------------------------------------------------------------------------------------------ stream D
//
// ONE histogram key (sampling off) of a real `State`: recorder threads (`Histogram::record` = `AtomicHistogram::record`
// = `AtomicBucket::push`) race ONE flusher thread doing `State::flush` (per flush: `is_empty`, then `AtomicHistogram::
// flush` = `clear_with`) under the deterministic scheduler, one shared-memory operation of bucket.rs per grant.  The
// executed schedule is replayed on the Lean machine (`agg hist …` = Model/StatsdHist over Model/Bucket).
// Oracle (independent of the model): every recorded value (all distinct) is in exactly one flush, the two flushes made
// after the threads finished included.  The only tolerated exception is the known straggler window of the bucket
// (K-C05-K1: a clear's detach step lies between a pusher's tail load and its slot claim): such a value may be in no
// flush, never in two.

/// `true`: a value lost in the K-C05-K1 window is reported as an oracle failure tagged
/// `[K1:straggler-push-on-detached-block]` (needs the known_findings.json entry proposed in REPORT.md);
/// `false`: it is only counted (`d.k1.straggler-lost`) — the Lean machine reproduces the loss either way.
const K1_AS_FINDING: bool = true;

struct OutcomeD {
    flushes: Vec<Option<Vec<u64>>>, // per flush: the values sent for the key in order, None when the key was skipped
    run: sched::RunResult,
    bad: Option<String>,
    final_flushes: Vec<Option<Vec<u64>>>,
}

fn hist_values(msgs: &[Msg], want_ty: &str, bad: &mut Option<String>) -> Option<Vec<u64>> {
    let mine: Vec<&Msg> = msgs.iter().filter(|m| m.name == "h").collect();
    if mine.len() != msgs.len() {
        *bad = Some(format!("a flush of a state with one histogram sent a message for another name: {:?}", msgs));
    }
    if mine.is_empty() {
        return None;
    }
    let mut vs = vec![];
    for m in mine {
        if m.ty != want_ty || m.rate.is_some() || m.ts.is_some() {
            *bad = Some(format!("histogram message with wrong type, a sample rate or a timestamp (sampling is off): {:?}", m));
        }
        for v in &m.values {
            match v.parse::<f64>() {
                Ok(x) if x >= 0.0 && x.fract() == 0.0 && x < 1e15 => vs.push(x as u64),
                _ => *bad = Some(format!("histogram value that was never recorded: {:?}", m)),
            }
        }
    }
    Some(vs)
}

fn execute_d(recs: &[Vec<u64>], nflush: usize, schedule: &[usize], as_dist: bool, limit: usize) -> OutcomeD {
    let driver = StateDriver::new(false, false, 16, as_dist, vec![], None);
    let rec = driver.recorder();
    let key = Key::from_name("h");
    let hist = rec.register_histogram(&key, &META);
    let driver = Arc::new(Mutex::new(driver));
    let flushes: Arc<Mutex<Vec<Option<Vec<u64>>>>> = Arc::new(Mutex::new(vec![]));
    let bad: Arc<Mutex<Option<String>>> = Arc::new(Mutex::new(None));
    let want_ty = if as_dist { "d" } else { "h" };
    let mut bodies: Vec<Box<dyn FnOnce() + Send + 'static>> = vec![];
    for vals in recs {
        let vals = vals.clone();
        let hist = hist.clone();
        bodies.push(Box::new(move || {
            for v in vals {
                hist.record(v as f64);
            }
        }));
    }
    {
        let driver = driver.clone();
        let flushes = flushes.clone();
        let bad = bad.clone();
        bodies.push(Box::new(move || {
            let mut writer = Writer::new(limit, false);
            for _ in 0..nflush {
                driver.lock().unwrap().flush(&mut writer);
                let payloads = writer.drain();
                match parse_payloads(&payloads) {
                    Ok(msgs) => {
                        let mut b = None;
                        let r = hist_values(&msgs, want_ty, &mut b);
                        if b.is_some() {
                            *bad.lock().unwrap() = b;
                        }
                        flushes.lock().unwrap().push(r);
                    }
                    Err(e) => {
                        // an empty drain is not an error: nothing was written
                        if payloads.iter().all(|p| p.is_empty()) {
                            flushes.lock().unwrap().push(None);
                        } else {
                            *bad.lock().unwrap() = Some(e);
                        }
                    }
                }
            }
        }));
    }
    let run = sched::run(bodies, schedule);
    let f = flushes.lock().unwrap().clone();
    let mut final_flushes = vec![];
    if !run.deadlock && !run.timed_out && run.panicked.is_empty() {
        let mut writer = Writer::new(limit, false);
        for _ in 0..2 {
            driver.lock().unwrap().flush(&mut writer);
            let payloads = writer.drain();
            if let Ok(msgs) = parse_payloads(&payloads) {
                let mut b = None;
                final_flushes.push(hist_values(&msgs, want_ty, &mut b));
                if b.is_some() {
                    *bad.lock().unwrap() = b;
                }
            } else if payloads.iter().all(|p| p.is_empty()) {
                final_flushes.push(None);
            }
        }
    }
    let b = bad.lock().unwrap().clone();
    OutcomeD { flushes: f, run, bad: b, final_flushes }
}

fn vals_tok(vs: &[u64]) -> String {
    if vs.is_empty() {
        "[]".into()
    } else {
        format!("[{}]", vs.iter().map(|v| v.to_string()).collect::<Vec<_>>().join("/"))
    }
}

/// per `State::flush` of the flusher (the last thread), in order: did it call `clear_with` on the histogram's bucket (its
/// `is_empty` answered false)? Read off the trace: a `bkt.clear.load_tail` grant of the flusher after the flush's
/// `bkt.empty.load_tail` grant.
fn flush_called_clear(trace: &[(usize, &'static str)]) -> Vec<bool> {
    let f = trace.iter().map(|x| x.0).max().unwrap_or(0);
    let mut v: Vec<bool> = vec![];
    for (t, id) in trace {
        if *t == f {
            match *id {
                "bkt.empty.load_tail" => v.push(false),
                "bkt.clear.load_tail" => {
                    if let Some(l) = v.last_mut() {
                        *l = true;
                    }
                }
                _ => {}
            }
        }
    }
    v
}

fn answer_d(o: &OutcomeD) -> String {
    let labels: Vec<&str> = o.run.trace.iter().map(|(_, id)| *id).collect();
    // nothing sent for the key: `skip` = the flush skipped the histogram as empty (no `clear_with` call); `[]` = it called
    // `clear_with`, which handed nothing to the writer (the model's `cleared []`: the tail was null when it was loaded)
    let called = flush_called_clear(&o.run.trace);
    let outs = list(o.flushes.iter().enumerate().map(|(k, f)| match f {
        Some(vs) => vals_tok(vs),
        None if called.get(k) == Some(&true) => "[]".into(),
        None => "skip".into(),
    }));
    let visible = match o.final_flushes.first() {
        Some(Some(vs)) => vals_tok(vs),
        _ => "[]".into(),
    };
    format!("{} | {} | visible={} | consistent=true", labels.join("."), outs, visible)
}

/// values whose push has the K-C05-K1 trace signature: a detach (`bkt.clear.cas` grant of the flusher = the detaching
/// compare-exchange, the step after its tail load) lies between the push's last tail load and its slot claim
fn k1_values(recs: &[Vec<u64>], trace: &[(usize, &'static str)]) -> Vec<u64> {
    let f = recs.len();
    let detaches: Vec<usize> = trace.iter().enumerate().filter(|(_, (t, id))| *t == f && *id == "bkt.clear.cas").map(|x| x.0).collect();
    let mut out = vec![];
    for t in 0..recs.len() {
        let mut k = 0usize;
        let mut load: Option<usize> = None;
        for (i, (tt, id)) in trace.iter().enumerate() {
            if *tt != t {
                continue;
            }
            match *id {
                "bkt.push.load_tail" => load = Some(i),
                "blk.push.claim" => {
                    if let Some(l) = load {
                        if detaches.iter().any(|g| l < *g && *g < i) {
                            if let Some(v) = recs[t].get(k) {
                                if !out.contains(v) {
                                    out.push(*v);
                                }
                            }
                        }
                    }
                }
                "blk.push.publish" => k += 1,
                _ => {}
            }
        }
    }
    out
}

fn oracle_d(out: &mut Out, recs: &[Vec<u64>], o: &OutcomeD) {
    if o.run.deadlock || o.run.timed_out || !o.run.panicked.is_empty() {
        out.oracle_fail("histogram aggregation: deadlock, timeout or panic", &format!("{:?}", o.run.trace));
        return;
    }
    if let Some(b) = &o.bad {
        out.oracle_fail("histogram flush produced malformed or foreign messages", b);
    }
    let detail = format!(
        "recorders {:?} flushes during the run {:?} afterwards {:?} trace {:?}",
        recs, o.flushes, o.final_flushes, o.run.trace
    );
    if o.final_flushes.len() != 2 {
        out.oracle_fail("histogram: the flushes after the run could not be read back", &detail);
        return;
    }
    if o.final_flushes[1].is_some() {
        out.oracle_fail("histogram values were sent by a flush although nothing was recorded since the previous flush", &detail);
    }
    let k1 = k1_values(recs, &o.run.trace);
    let all_sent: Vec<u64> = o.flushes.iter().chain(o.final_flushes.iter()).flatten().flatten().copied().collect();
    for v in &all_sent {
        if !recs.iter().flatten().any(|x| x == v) {
            out.oracle_fail("a flush sent a histogram value that was never recorded", &format!("value {} :: {}", v, detail));
        }
    }
    for v in recs.iter().flatten() {
        let n = all_sent.iter().filter(|x| *x == v).count();
        if n > 1 {
            out.oracle_fail("a recorded histogram value (sampling off) was sent by more than one flush", &format!("value {} sent {} times :: {}", v, n, detail));
        } else if n == 0 {
            if k1.contains(v) {
                out.count("d.k1.straggler-lost");
                if K1_AS_FINDING {
                    out.oracle_fail(
                        "a recorded histogram value (sampling off) was sent by no flush [K1:straggler-push-on-detached-block]",
                        &format!("value {} :: {}", v, detail),
                    );
                }
            } else {
                out.oracle_fail(
                    "a recorded histogram value (sampling off) was sent by no flush (and the record did not straddle the flush's detach step)",
                    &format!("value {} :: {}", v, detail),
                );
            }
        }
    }
}

fn one_d(out: &mut Out, recs: &[Vec<u64>], nflush: usize, sch: &[usize], as_dist: bool, limit: usize) {
    let o = execute_d(recs, nflush, sch, as_dist, limit);
    let taken: Vec<usize> = o.run.trace.iter().map(|(t, _)| *t).collect();
    let recs_tok = list(recs.iter().map(|r| if r.is_empty() { "-".to_string() } else { r.iter().map(|v| v.to_string()).collect::<Vec<_>>().join("+") }));
    out.op(&format!("agg hist 64 {} {} {}", recs_tok, nflush, sched::sched_tok(&taken)), &answer_d(&o));
    // non-trivial: a recorder step was granted while the flusher was inside a flush (between its first is_empty step
    // and the end of its clear), or a flusher step while a record was in flight
    let f = recs.len();
    let tr = &o.run.trace;
    let mut in_push = vec![false; recs.len()];
    let mut hit = false;
    for (t, id) in tr {
        if *t < f {
            match *id {
                "bkt.push.load_tail" => in_push[*t] = true,
                "blk.push.publish" => in_push[*t] = false,
                _ => {}
            }
        } else if in_push.iter().any(|b| *b) && id.starts_with("bkt.clear") {
            hit = true;
        }
    }
    if hit {
        out.nontrivial();
        out.count("d.clear-step.while.record.in.flight");
    }
    if tr.iter().any(|(_, id)| *id == "bkt.push.cas_new") {
        out.count("d.block.hand-over");
    }
    // a flush whose `clear_with` failed to detach at first (a record() handed the tail over between the flush's tail load
    // and its compare-exchange): since the fix "clear_with retries its detach when the tail moved under it" the flusher
    // loads the tail again (`bkt.clear.load_tail` follows the failed `bkt.clear.cas`) and THAT flush sends the values
    // (Lean: C05.detach_cas_all_or_nothing, C05.delivered_once_clear_returned). Before the fix it sent nothing.
    let called = flush_called_clear(tr);
    let mut nth_flush = 0usize; // flushes of the flusher begun so far (each begins with `bkt.empty.load_tail`)
    for (gi, (t, id)) in tr.iter().enumerate() {
        if *t == f && *id == "bkt.empty.load_tail" {
            nth_flush += 1;
        }
        if *t == f && *id == "bkt.clear.cas" {
            let next = tr[gi + 1..].iter().find(|(t2, _)| *t2 == f).map(|x| x.1);
            if next != Some("bkt.clear.quiesced") {
                out.count("d.flush.failed-detach(retried: clear_with loads the tail again)");
                out.nontrivial();
                if !matches!(next, Some("bkt.clear.load_tail") | None) {
                    out.oracle_fail(
                        "a flush whose detach compare-exchange failed did not load the tail again (clear_with gave up without draining)",
                        &format!("grant {} next point {:?} trace {:?}", gi, next, tr),
                    );
                }
                // the flush this CAS belongs to has returned and sent nothing although it called clear_with on a
                // non-empty bucket: the pre-fix behaviour
                if nth_flush >= 1 && called.get(nth_flush - 1) == Some(&true) && matches!(o.flushes.get(nth_flush - 1), Some(None)) {
                    out.oracle_fail(
                        "a flush whose first detach compare-exchange failed sent nothing for the histogram (values recorded before it began were left for the next flush)",
                        &format!("flush #{} recorders {:?} flushes {:?} trace {:?}", nth_flush - 1, recs, o.flushes, tr),
                    );
                }
            }
        }
    }
    oracle_d(out, recs, &o);
}

fn gen_d(r: &mut Rng) -> (Vec<Vec<u64>>, usize, Vec<usize>, bool, usize) {
    let mut recs: Vec<Vec<u64>> = vec![];
    let mut sch: Vec<usize> = vec![];
    let mut next = 1u64;
    // sometimes the bucket's first block is nearly full before the race starts (block hand-over inside the race)
    if r.chance(1, 6) {
        let k = *r.pick(&[62usize, 63, 64]);
        recs.push((0..k).map(|_| { let v = next; next += 1; v }).collect());
        sch.extend(std::iter::repeat(0).take(3 * k + 2));
    }
    let first = recs.len();
    let n_rec = r.range(1, 2);
    for _ in 0..n_rec {
        let k = r.range(1, 3);
        recs.push((0..k).map(|_| { let v = next; next += 1; v }).collect());
    }
    let nflush = r.range(1, 3);
    let n = recs.len() + 1;
    let mut cur = first + r.below(n - first);
    for _ in 0..90 {
        if r.chance(2, 5) {
            cur = first + r.below(n - first);
        }
        sch.push(cur);
    }
    (recs, nflush, sch, r.chance(1, 2), if r.chance(1, 4) { 64 } else { 8192 })
}

// ------------------------------------------------------------------------------------------------ driver

fn gen_a(r: &mut Rng) -> (Vec<Vec<Call>>, Vec<usize>) {
    let n_inc = r.range(1, 3);
    let mut progs = vec![];
    if r.chance(1, 5) {
        // absolute-only: one thread with non-decreasing values, one flusher
        let mut v = r.range(1, 50) as u64;
        let k = r.range(1, 3);
        let mut p = vec![];
        let any_order = r.chance(1, 3);
        let k = if any_order { k.max(2) } else { k };
        for _ in 0..k {
            p.push(Call::Abs(v));
            if any_order {
                // values in any order (CounterFn::absolute: "an older (smaller) value after ... the latest (larger) value")
                v = *r.pick(&[0u64, 3, 40, 100, (1 << 63) + 1, u64::MAX]);
            } else {
                v += r.range(0, 20) as u64;
            }
        }
        progs.push(p);
        progs.push(vec![Call::Flush; if any_order { r.range(2, 4) } else { r.range(1, 3) }]);
        let mut sch = vec![];
        let mut cur = r.below(2);
        for _ in 0..40 {
            if r.chance(1, 2) {
                cur = r.below(2);
            }
            sch.push(cur);
        }
        return (progs, sch);
    }
    for _ in 0..n_inc {
        let k = r.range(1, 3);
        progs.push((0..k).map(|_| Call::Inc(*r.pick(&[0u64, 1, 2, 7, u64::MAX]))).collect());
    }
    let nf = r.range(2, 5);
    progs.push(vec![Call::Flush; nf]);
    let n = progs.len();
    let mut sch = vec![];
    let mut cur = r.below(n);
    for _ in 0..60 {
        if r.chance(1, 2) {
            cur = r.below(n);
        }
        sch.push(cur);
    }
    (progs, sch)
}

pub fn run(cfg: &Cfg, out: &mut Out) {
    let legacy = false;
    let root = Rng::new(cfg.seed);
    // corpus: the split increment around a flush, with the key idle (former delta loss / double zero)
    let corpus: Vec<(Vec<Vec<Call>>, Vec<usize>)> = vec![
        (vec![vec![Call::Inc(5)], vec![Call::Flush, Call::Flush, Call::Flush, Call::Flush]],
         vec![0, 1, 1, 1, 1, 1, 1, 1, 0, 0, 1, 1, 1, 0, 1, 1, 1, 1, 1, 1]),
        (vec![vec![Call::Inc(5), Call::Inc(7)], vec![Call::Flush, Call::Flush, Call::Flush]],
         vec![0, 1, 0, 0, 1, 1, 1, 0, 1, 1, 1, 1, 1, 1]),
        (vec![vec![Call::Abs(10), Call::Abs(25)], vec![Call::Flush, Call::Flush]], vec![0, 1, 0, 0, 0, 0, 1, 1, 1, 0, 0, 0, 1, 1, 1]),
        // K-C10-abs-race: flush between the `last` store and the `current` store of the first absolute
        (vec![vec![Call::Abs(10)], vec![Call::Flush]], vec![0, 1, 0, 0, 1, 1, 1, 0, 0]),
        // K-C10-abs-decreasing (Lean: abs_decreasing_wraps_outside_window): absolute(100); flush; absolute(40); flush
        (vec![vec![Call::Abs(100), Call::Abs(40)], vec![Call::Flush, Call::Flush]], vec![0, 0, 0, 0, 0, 1, 1, 1, 1, 0, 0, 0, 1, 1, 1]),
    ];
    for (progs, sch) in corpus {
        out.case("corpus");
        one_a(out, &progs, &sch, legacy);
    }
    for i in 0..cfg.cases {
        let mut r = root.fork(i as u64);
        out.case(&format!("A seed={} i={}", cfg.seed, i));
        let (progs, sch) = gen_a(&mut r);
        one_a(out, &progs, &sch, legacy);
    }
    // stream M corpus: `reqs{k=a}` idle from the start, `reqs{k=b}` active over three flushes, the increment split around
    // the second flush's walk; and the same with the unlabelled key of that name
    for specs in [
        vec![("reqs", vec![("k", "a")]), ("reqs", vec![("k", "b")])],
        vec![("reqs", vec![]), ("reqs", vec![("k", "b")]), ("other", vec![("k", "b")])],
    ] {
        out.case("corpus M");
        let b = 1usize;
        let progs = vec![vec![(b, Call::Inc(4)), (b, Call::Inc(3))], vec![(0, Call::Flush); 4]];
        let nk = specs.len();
        let mut sch = vec![0, 0, 0, 0, 1];
        sch.extend(std::iter::repeat(1).take(3 * nk));
        sch.extend([0, 0]);
        sch.extend(std::iter::repeat(1).take(2));
        sch.extend([0]);
        sch.extend(std::iter::repeat(1).take(9 * nk));
        one_m(out, &specs, &progs, &sch, false, None, &[]);
    }
    for i in 0..cfg.cases {
        let mut r = root.fork(4_000_000 + i as u64);
        out.case(&format!("M seed={} i={}", cfg.seed, i));
        let (specs, progs, sch, aggressive, prefix, glabels) = gen_m(&mut r);
        one_m(out, &specs, &progs, &sch, aggressive, prefix, &glabels);
    }
    for i in 0..cfg.cases {
        let mut r = root.fork(1_000_000 + i as u64);
        out.case(&format!("B seed={} i={}", cfg.seed, i));
        stream_b(&mut r, out);
    }
    // stream D corpus: a complete record() placed at every position inside a flush of the same histogram (after j
    // steps of the flusher), once with an almost empty and once with a full first block
    for pre in [1usize, 64] {
        for j in 0..10usize {
            out.case(&format!("corpus D sweep j={} pre={}", j, pre));
            let recs: Vec<Vec<u64>> = vec![(1..=pre as u64 + 1).collect()];
            let mut sch: Vec<usize> = vec![0; 3 * pre + 2];
            sch.extend(std::iter::repeat(1).take(1 + j));
            sch.extend(std::iter::repeat(0).take(6));
            sch.extend(std::iter::repeat(1).take(60));
            one_d(out, &recs, 2, &sch, j % 2 == 0, 8192);
        }
    }
    // failed detach through the exporter: 64 recorded values fill the block; the flush (is_empty: false) loads the tail
    // and is parked at its detach CAS; the 65th record() hands the tail over; the flush's CAS fails, `clear_with` loads the
    // tail again and THIS flush sends all 65 (before the retry fix it sent nothing and the second flush sent all 65)
    out.case("corpus D failed detach");
    {
        let recs: Vec<Vec<u64>> = vec![(1..=64u64).collect(), vec![65]];
        let mut sch: Vec<usize> = vec![0; 3 * 64 + 2];
        sch.extend(std::iter::repeat(2).take(4)); // start, is_empty (tail load, len), clear's tail load → parked at bkt.clear.cas
        sch.extend(std::iter::repeat(1).take(7));
        sch.extend(std::iter::repeat(2).take(60));
        one_d(out, &recs, 2, &sch, false, 8192);
    }
    // K-C05-K1 through the exporter: recorder loads the tail, the flush detaches and reads, then the recorder claims
    out.case("corpus D K1");
    one_d(out, &[vec![1], vec![2]], 1, &[0, 0, 0, 0, 0, 1, 1, 2, 2, 2, 2, 2, 2, 2, 2, 2, 1, 1, 1], false, 8192);
    for i in 0..cfg.cases {
        let mut r = root.fork(3_000_000 + i as u64);
        out.case(&format!("D seed={} i={}", cfg.seed, i));
        let (recs, nflush, sch, as_dist, limit) = gen_d(&mut r);
        one_d(out, &recs, nflush, &sch, as_dist, limit);
    }
    if cfg.thorough {
        // ALL schedules of small recorder/flusher configurations
        let configs: Vec<(Vec<Vec<u64>>, usize)> = vec![(vec![vec![1]], 2), (vec![vec![1, 2]], 1), (vec![vec![1], vec![2]], 1)];
        for (recs, nflush) in configs {
            let mut prefix: Vec<usize> = vec![];
            let mut runs = 0usize;
            let mut exhausted = false;
            let tag = format!("{:?}x{}", recs, nflush).replace(' ', "");
            out.case(&format!("exhaustive D {}", tag));
            loop {
                let o = execute_d(&recs, nflush, &prefix, false, 8192);
                runs += 1;
                let taken: Vec<usize> = o.run.trace.iter().map(|(t, _)| *t).collect();
                let recs_tok = list(recs.iter().map(|r| r.iter().map(|v| v.to_string()).collect::<Vec<_>>().join("+")));
                out.op(&format!("agg hist 64 {} {} {}", recs_tok, nflush, sched::sched_tok(&taken)), &answer_d(&o));
                oracle_d(out, &recs, &o);
                if runs >= 6000 {
                    break;
                }
                let mut i = taken.len();
                let mut next = None;
                while i > 0 {
                    i -= 1;
                    if let Some(alt) = o.run.choices[i].iter().copied().filter(|c| *c > taken[i]).min() {
                        next = Some((i, alt));
                        break;
                    }
                }
                match next {
                    None => {
                        exhausted = true;
                        break;
                    }
                    Some((i, alt)) => {
                        prefix = taken[..i].to_vec();
                        prefix.push(alt);
                    }
                }
            }
            out.count_n(&format!("exhaustive.D.runs.{}", tag), runs as u64);
            out.count(&format!("exhaustive.D.complete.{}={}", tag, exhausted));
            out.nontrivial();
        }
    }
    let nc = if cfg.thorough { 12 } else { 3 };
    for i in 0..nc {
        let mut r = root.fork(2_000_000 + i as u64);
        out.case(&format!("C seed={} i={}", cfg.seed, i));
        stream_c(&mut r, out);
    }
    if cfg.thorough {
        let configs: Vec<Vec<Vec<Call>>> = vec![
            vec![vec![Call::Inc(5)], vec![Call::Flush, Call::Flush, Call::Flush]],
            vec![vec![Call::Inc(3)], vec![Call::Inc(4)], vec![Call::Flush, Call::Flush]],
            vec![vec![Call::Inc(1), Call::Inc(2)], vec![Call::Flush, Call::Flush, Call::Flush]],
            // absolute-only updater racing the flusher: every schedule, window predicate compared on each
            vec![vec![Call::Abs(10), Call::Abs(25)], vec![Call::Flush, Call::Flush]],
        ];
        for progs in configs {
            let mut prefix: Vec<usize> = vec![];
            let mut runs = 0usize;
            let mut exhausted = false;
            out.case(&format!("exhaustive {}", list(progs.iter().map(|p| prog_tok(p)))));
            loop {
                let o = execute_a(&progs, &prefix);
                runs += 1;
                let taken: Vec<usize> = o.run.trace.iter().map(|(t, _)| *t).collect();
                out.op(
                    &format!("agg run {} {} {}", legacy as u8, list(progs.iter().map(|p| prog_tok(p))), sched::sched_tok(&taken)),
                    &answer_a(&o),
                );
                if progs.iter().flatten().any(|c| matches!(c, Call::Abs(_))) {
                    let w = abs_window_flushes(&o.run.trace);
                    out.op(
                        &format!("agg absrace {} {}", list(progs.iter().map(|p| prog_tok(p))), sched::sched_tok(&taken)),
                        &w.to_string(),
                    );
                    out.count(if w > 0 { "a.abs.window.inside" } else { "a.abs.window.outside" });
                }
                oracle_a(out, &progs, &o);
                if runs >= 20000 {
                    break;
                }
                let mut i = taken.len();
                let mut next = None;
                while i > 0 {
                    i -= 1;
                    if let Some(alt) = o.run.choices[i].iter().copied().filter(|c| *c > taken[i]).min() {
                        next = Some((i, alt));
                        break;
                    }
                }
                match next {
                    None => {
                        exhausted = true;
                        break;
                    }
                    Some((i, alt)) => {
                        prefix = taken[..i].to_vec();
                        prefix.push(alt);
                    }
                }
            }
            out.count_n(&format!("exhaustive.runs.{}", list(progs.iter().map(|p| prog_tok(p)))), runs as u64);
            out.count(&format!("exhaustive.complete={}", exhausted));
            out.nontrivial();
        }
    }
}
