//! C17 — span fields become labels with metric > inner span > outer span precedence.
//!
//! Real `tracing_subscriber::registry()` + `MetricsLayer`, real `TracingContextLayer` (include-all /
//! allow-list / custom filter) over a logging recorder double.  Every logical thread of a program is a real
//! OS thread (own `current_spans` thread-local, own `with_local_recorder` scope) sharing one `Dispatch`;
//! the threads are driven one op at a time so a program is a deterministic op list.
//!
//! Per op the model sees the same line; the implementation's answer is read back from the real objects:
//! the span's `Labels` extension (new / rec), `Span::current()` (enter / exit), the `Key` the inner recorder
//! received (emit).
//!
//! Oracles, independent of the Lean model (computed from the property's wording, not the code's
//! algorithm): a shadow of *assignment histories* per span (own assignments in time order, then the
//! snapshot of the parent's history taken at creation); expected label set = admitted visible fields
//! overridden by the metric's own labels; no duplicate names; unchanged key without span / fields;
//! re-running the program with every other thread's enter/exit removed gives the same keys.

use crate::util::*;
use metrics::{Counter, Gauge, Histogram, Key, KeyName, Label, Metadata, Recorder, SharedString, Unit};
use metrics_tracing_context::label_filter::{Allowlist, IncludeAll};
use metrics_tracing_context::{LabelFilter, Labels, MetricsLayer, TracingContextLayer};
use metrics_util::layers::Layer;
use std::collections::{BTreeMap, BTreeSet};
use std::sync::mpsc::{channel, Receiver, Sender};
use std::sync::{Arc, Mutex};
use tracing::field::Value;
use tracing::{Dispatch, Span};
use tracing_subscriber::layer::SubscriberExt;
use tracing_subscriber::registry::LookupSpan;
use tracing_subscriber::Registry;

// ---------------------------------------------------------------------------------------------
// span shapes: field names are compile-time, so a fixed table of call sites

#[derive(Clone, Copy)]
enum Par<'a> {
    Ctx,
    Root,
    Of(&'a Span),
}

/// one call site per parent form; `$pre` = nothing or `target: "..",`
macro_rules! sp {
    ($p:ident; [$($pre:tt)*] $lvl:expr, $name:literal; $($f:tt)*) => {
        match $p {
            Par::Ctx => tracing::span!($($pre)* $lvl, $name, $($f)*),
            Par::Root => tracing::span!($($pre)* parent: None::<tracing::Id>, $lvl, $name, $($f)*),
            Par::Of(ps) => tracing::span!($($pre)* parent: ps, $lvl, $name, $($f)*),
        }
    };
}

/// span metadata (level, name, target) is compile-time too: every shape exists with each of `METAS`
macro_rules! with_meta {
    ($p:ident, $m:ident; $($f:tt)*) => {
        match $m {
            0 => sp!($p; [] tracing::Level::INFO, "s"; $($f)*),
            1 => sp!($p; [target: "mv::other",] tracing::Level::DEBUG, "_hid"; $($f)*),
            2 => sp!($p; [] tracing::Level::ERROR, "child"; $($f)*),
            _ => sp!($p; [target: "x",] tracing::Level::TRACE, "a b"; $($f)*),
        }
    };
}

/// (level, name, target or "" for the harness module) of the metadata variants
const METAS: &[(&str, &str, &str)] = &[("INFO", "s", ""), ("DEBUG", "_hid", "mv::other"), ("ERROR", "child", ""), ("TRACE", "a b", "x")];

macro_rules! shape {
    ($p:ident, $v:ident, $m:ident; $($($k:ident).+ = $i:literal),*) => {
        with_meta!($p, $m; $($($k).+ = $v[$i]),*)
    };
}

/// the wide shapes exist with the first metadata variant only (compile time)
macro_rules! shape0 {
    ($p:ident, $v:ident; $($($k:ident).+ = $i:literal),*) => {
        sp!($p; [] tracing::Level::INFO, "s"; $($($k).+ = $v[$i]),*)
    };
}

/// the same with string-literal field names (anything that is not an identifier)
macro_rules! shape_lit {
    ($p:ident, $v:ident, $m:ident; $($k:literal = $i:literal),*) => {
        with_meta!($p, $m; $($k = $v[$i]),*)
    };
}

/// events: field names overlap the span field names
macro_rules! ev {
    ($p:ident; $lvl:expr; $($f:tt)*) => {
        match $p {
            Par::Ctx => tracing::event!($lvl, $($f)*),
            Par::Root => tracing::event!(parent: None::<tracing::Id>, $lvl, $($f)*),
            Par::Of(ps) => tracing::event!(parent: ps, $lvl, $($f)*),
        }
    };
}
const EVENT_SHAPES: &[&[&str]] = &[&["a", "b"], &["c", "k.x", "zz"], &["région", "a"]];
fn make_event(es: usize, p: Par<'_>, v: &[&dyn Value]) {
    match es {
        0 => ev!(p; tracing::Level::INFO; a = v[0], b = v[1]),
        1 => ev!(p; tracing::Level::ERROR; c = v[0], k.x = v[1], zz = v[2], "an event with a message"),
        _ => ev!(p; tracing::Level::TRACE; région = v[0], a = v[1]),
    }
}

const SHAPES: &[&[&str]] = &[
    &[],
    &["a"],
    &["b"],
    &["a", "b"],
    &["b", "a"],
    &["b", "c"],
    &["a", "b", "c"],
    &["c", "a"],
    &["k.x", "a"],
    &["c", "k.x", "b"],
    &["a", "b", "c", "k.x"],
    &["a", "a"],
    &["a00", "a01", "a02", "a03", "a04", "a05", "a06", "a07", "a08", "a09", "a10", "a11", "a12", "a13", "a14", "a15", "a16", "a17", "a18", "a19"],
    &["b00", "b01", "b02", "b03", "b04", "b05", "b06", "b07", "b08", "b09", "b10", "b11", "b12", "b13", "b14", "b15", "b16", "b17", "b18", "b19"],
    &["a00", "a02", "a04", "a06", "a08", "a10", "a12", "a14", "a16", "a18", "a", "b", "b01", "b03", "b05", "b07", "b09", "b11", "b13", "b15", "b17", "b19"],
    &["w00", "w01", "w02", "w03", "w04", "w05", "w06", "w07", "w08", "w09", "w10", "w11", "w12", "w13", "w14", "w15", "w16", "w17", "w18", "w19", "w20", "w21", "w22", "w23", "w24", "w25", "w26", "w27", "w28", "w29", "w30", "w31"],
    &["A", "ab", "k", "a"],
    &["k", "k.x", "ab", "a0"],
    // names outside ASCII: byte length and character count differ (é, ñ: 2 bytes; Cyrillic: 2; CJK: 3; 🦀: 4;
    // "e\u{301}" = decomposed é: 2 characters, 3 bytes)
    &["région", "env"],
    &["地域", "a"],
    &["ключ", "région", "b", "ñ"],
    &["🦀", "re\u{301}gion", "région", "k.ü", "地"],
];

/// shapes with 20 or more fields: two of them nested (or the 32-field one alone) push a span's map past 28
/// entries, i.e. past the 32-slot capacity step of `IndexMap`
const WIDE_SHAPES: &[usize] = &[12, 13, 14, 15];
/// shapes whose field names are near misses of each other and of the allow-list names (case, prefix, dot)
const NEAR_SHAPES: &[usize] = &[16, 17];
/// shapes whose field names contain multi-byte characters
const UNI_SHAPES: &[usize] = &[18, 19, 20, 21];

#[allow(unused_variables)]
fn make_span(shape: usize, m: usize, p: Par<'_>, v: &[&dyn Value]) -> Span {
    match shape {
        0 => shape!(p, v, m;),
        1 => shape!(p, v, m; a = 0),
        2 => shape!(p, v, m; b = 0),
        3 => shape!(p, v, m; a = 0, b = 1),
        4 => shape!(p, v, m; b = 0, a = 1),
        5 => shape!(p, v, m; b = 0, c = 1),
        6 => shape!(p, v, m; a = 0, b = 1, c = 2),
        7 => shape!(p, v, m; c = 0, a = 1),
        8 => shape!(p, v, m; k.x = 0, a = 1),
        9 => shape!(p, v, m; c = 0, k.x = 1, b = 2),
        10 => shape!(p, v, m; a = 0, b = 1, c = 2, k.x = 3),
        11 => shape!(p, v, m; a = 0, a = 1),
        12 => shape0!(p, v; a00 = 0, a01 = 1, a02 = 2, a03 = 3, a04 = 4, a05 = 5, a06 = 6, a07 = 7, a08 = 8, a09 = 9, a10 = 10, a11 = 11, a12 = 12, a13 = 13, a14 = 14, a15 = 15, a16 = 16, a17 = 17, a18 = 18, a19 = 19),
        13 => shape0!(p, v; b00 = 0, b01 = 1, b02 = 2, b03 = 3, b04 = 4, b05 = 5, b06 = 6, b07 = 7, b08 = 8, b09 = 9, b10 = 10, b11 = 11, b12 = 12, b13 = 13, b14 = 14, b15 = 15, b16 = 16, b17 = 17, b18 = 18, b19 = 19),
        14 => shape0!(p, v; a00 = 0, a02 = 1, a04 = 2, a06 = 3, a08 = 4, a10 = 5, a12 = 6, a14 = 7, a16 = 8, a18 = 9, a = 10, b = 11, b01 = 12, b03 = 13, b05 = 14, b07 = 15, b09 = 16, b11 = 17, b13 = 18, b15 = 19, b17 = 20, b19 = 21),
        15 => shape0!(p, v; w00 = 0, w01 = 1, w02 = 2, w03 = 3, w04 = 4, w05 = 5, w06 = 6, w07 = 7, w08 = 8, w09 = 9, w10 = 10, w11 = 11, w12 = 12, w13 = 13, w14 = 14, w15 = 15, w16 = 16, w17 = 17, w18 = 18, w19 = 19, w20 = 20, w21 = 21, w22 = 22, w23 = 23, w24 = 24, w25 = 25, w26 = 26, w27 = 27, w28 = 28, w29 = 29, w30 = 30, w31 = 31),
        16 => shape!(p, v, m; A = 0, ab = 1, k = 2, a = 3),
        17 => shape!(p, v, m; k = 0, k.x = 1, ab = 2, a0 = 3),
        18 => shape!(p, v, m; région = 0, env = 1),
        19 => shape!(p, v, m; 地域 = 0, a = 1),
        20 => shape!(p, v, m; ключ = 0, région = 1, b = 2, ñ = 3),
        21 => shape_lit!(p, v, m; "🦀" = 0, "re\u{301}gion" = 1, "région" = 2, "k.ü" = 3, "地" = 4),
        _ => unreachable!(),
    }
}

// ---------------------------------------------------------------------------------------------
// field values of every kind `Visit for Labels` distinguishes

#[derive(Clone, Debug)]
enum Val {
    Str(String),
    Bool(bool),
    I64(i64),
    I32(i32),
    U64(u64),
    U8(u8),
    F64(f64),
    I128(i128),
    U128(u128),
    Dbg(String),
    Disp(String),
    OptU(Option<u64>),
    /// `&(dyn Error + 'static)`: `record_error`, rendered through `Display`
    Err(String),
    /// `&[u8]`: `record_bytes`, rendered as `[xx xx ..]`
    Bytes(Vec<u8>),
    Empty,
}

#[derive(Debug)]
struct MvErr(String);
impl std::fmt::Display for MvErr {
    fn fmt(&self, f: &mut std::fmt::Formatter<'_>) -> std::fmt::Result {
        f.write_str(&self.0)
    }
}
impl std::error::Error for MvErr {}

impl Val {
    fn boxed(&self) -> Box<dyn Value> {
        match self {
            Val::Str(s) => Box::new(s.clone()),
            Val::Bool(b) => Box::new(*b),
            Val::I64(i) => Box::new(*i),
            Val::I32(i) => Box::new(*i),
            Val::U64(u) => Box::new(*u),
            Val::U8(u) => Box::new(*u),
            Val::F64(f) => Box::new(*f),
            Val::I128(i) => Box::new(*i),
            Val::U128(u) => Box::new(*u),
            Val::Dbg(s) => Box::new(tracing::field::debug(s.clone())),
            Val::Disp(s) => Box::new(tracing::field::display(s.clone())),
            Val::OptU(o) => Box::new(*o),
            Val::Err(s) => {
                let e: Box<dyn std::error::Error + 'static> = Box::new(MvErr(s.clone()));
                Box::new(e)
            }
            Val::Bytes(b) => Box::new(b.clone().into_boxed_slice()),
            Val::Empty => Box::new(tracing::field::Empty),
        }
    }
    /// token for the model: typed where the crate has its own formatting arm, pre-rendered for `record_debug`
    fn token(&self) -> String {
        match self {
            Val::Str(s) => format!("s{}", hexs(s)),
            Val::Bool(b) => format!("b{}", *b as u8),
            Val::I64(i) => format!("i{}", i),
            Val::I32(i) => format!("i{}", i),
            Val::U64(u) => format!("u{}", u),
            Val::U8(u) => format!("u{}", u),
            Val::OptU(Some(u)) => format!("u{}", u),
            Val::OptU(None) | Val::Empty => "e".to_string(),
            // 128-bit integers end in `record_debug(&value)`: decimal, which the model's integer rendering computes
            Val::I128(i) => format!("i{}", i),
            Val::U128(u) => format!("u{}", u),
            other => format!("d{}", hexs(&other.rendered().unwrap())),
        }
    }
    /// the label value the property expects for this field value (None = records nothing)
    fn rendered(&self) -> Option<String> {
        Some(match self {
            Val::Str(s) => s.clone(),
            Val::Bool(b) => (if *b { "true" } else { "false" }).to_string(),
            Val::I64(i) => i.to_string(),
            Val::I32(i) => i.to_string(),
            Val::U64(u) => u.to_string(),
            Val::U8(u) => u.to_string(),
            Val::F64(f) => format!("{:?}", f),
            Val::I128(i) => format!("{:?}", i),
            Val::U128(u) => format!("{:?}", u),
            Val::Dbg(s) => format!("{:?}", s),
            Val::Disp(s) => s.clone(),
            Val::OptU(Some(u)) => u.to_string(),
            Val::Err(s) => s.clone(),
            Val::Bytes(b) => format!("[{}]", b.iter().map(|x| format!("{:02x}", x)).collect::<Vec<_>>().join(" ")),
            Val::OptU(None) | Val::Empty => return None,
        })
    }
    fn kind(&self) -> &'static str {
        match self {
            Val::Str(_) => "str",
            Val::Bool(_) => "bool",
            Val::I64(_) | Val::I32(_) => "i64",
            Val::U64(_) | Val::U8(_) => "u64",
            Val::F64(_) => "f64",
            Val::I128(_) | Val::U128(_) => "128",
            Val::Dbg(_) => "debug",
            Val::Disp(_) => "display",
            Val::OptU(Some(_)) => "some",
            Val::OptU(None) => "none",
            Val::Err(_) => "error",
            Val::Bytes(_) => "bytes",
            Val::Empty => "empty",
        }
    }
}

// ---------------------------------------------------------------------------------------------
// programs

#[derive(Clone, Debug)]
enum ParSpec {
    Ctx,
    Root,
    Of(usize),
}

#[derive(Clone, Debug)]
enum POp {
    New { t: usize, parent: ParSpec, shape: usize, meta: usize, vals: Vec<Val> },
    /// `tracing::event!` with fields, in the current span / as a root / under an explicit parent
    Event { t: usize, parent: ParSpec, es: usize, vals: Vec<Val> },
    /// `spans[id].follows_from(&spans[other])`
    Follows { t: usize, id: usize, other: usize },
    Rec { t: usize, id: usize, field: &'static str, val: Val },
    Enter { t: usize, id: usize },
    Exit { t: usize, id: usize },
    Emit { t: usize, how: usize, name: String, labels: Vec<(String, String)> },
    /// the harness drops its (only) handle of the span; the generator only does this to a span that is on no
    /// stack and has no live child, so the registry closes it at once
    Close { t: usize, id: usize },
}

impl POp {
    fn thread(&self) -> usize {
        match self {
            POp::New { t, .. } | POp::Event { t, .. } | POp::Follows { t, .. } | POp::Rec { t, .. } | POp::Enter { t, .. } | POp::Exit { t, .. } | POp::Emit { t, .. } | POp::Close { t, .. } => *t,
        }
    }
}

#[derive(Clone, Debug)]
enum FilterSpec {
    All,
    Allow(Vec<String>),
    Custom(u64, u64),
}

#[derive(Clone, Debug)]
struct Program {
    filter: FilterSpec,
    threads: usize,
    /// false: the subscriber is a bare `registry()` without a `MetricsLayer`
    layer: bool,
    /// how the subscriber is put together (`build_dispatch`)
    comp: usize,
    ops: Vec<POp>,
    /// direct calls of the filter's `should_include_label(metric name, label key, label value)`, made after the ops
    probes: Vec<(String, String, String)>,
}

fn code_sum(s: &str) -> u64 {
    s.chars().map(|c| c as u32 as u64).sum()
}

#[derive(Clone)]
struct CustomFilter {
    m: u64,
    r: u64,
}
impl LabelFilter for CustomFilter {
    fn should_include_label(&self, name: &KeyName, label: &Label) -> bool {
        (code_sum(name.as_str()) + code_sum(label.key()) + code_sum(label.value())) % self.m != self.r
    }
}

impl FilterSpec {
    /// the filter's meaning, by the property's wording ("that the label filter admits")
    fn admits(&self, name: &str, k: &str, v: &str) -> bool {
        match self {
            FilterSpec::All => true,
            FilterSpec::Allow(names) => names.iter().any(|n| n == k),
            FilterSpec::Custom(m, r) => (code_sum(name) + code_sum(k) + code_sum(v)) % m != *r,
        }
    }
}

// ---------------------------------------------------------------------------------------------
// recorder double

#[derive(Clone, Debug, PartialEq)]
struct Logged {
    /// c/g/h = register_*, C/G/H = an operation on a handle the recorder returned, d = describe_*
    kind: char,
    name: String,
    labels: Vec<(String, String)>,
    /// handle operation and value / unit and description
    value: Option<String>,
    /// (target, module_path) of the metadata a register call carried
    meta: Option<(String, Option<String>)>,
}

/// the handle the inner recorder hands out: every operation on it is logged under the key it was registered with
struct LogHandle {
    log: Arc<Mutex<Vec<Logged>>>,
    kind: char,
    name: String,
    labels: Vec<(String, String)>,
}
impl LogHandle {
    fn push(&self, value: String) {
        self.log.lock().unwrap().push(Logged {
            kind: self.kind,
            name: self.name.clone(),
            labels: self.labels.clone(),
            value: Some(value),
            meta: None,
        });
    }
}
impl metrics::CounterFn for LogHandle {
    fn increment(&self, v: u64) {
        self.push(format!("increment:{}", v))
    }
    fn absolute(&self, v: u64) {
        self.push(format!("absolute:{}", v))
    }
}
impl metrics::GaugeFn for LogHandle {
    fn increment(&self, v: f64) {
        self.push(format!("increment:{:016x}", v.to_bits()))
    }
    fn decrement(&self, v: f64) {
        self.push(format!("decrement:{:016x}", v.to_bits()))
    }
    fn set(&self, v: f64) {
        self.push(format!("set:{:016x}", v.to_bits()))
    }
}
impl metrics::HistogramFn for LogHandle {
    fn record(&self, v: f64) {
        self.push(format!("record:{:016x}", v.to_bits()))
    }
}

struct LogRecorder {
    log: Arc<Mutex<Vec<Logged>>>,
}
impl LogRecorder {
    fn push(&self, kind: char, key: &Key, md: &Metadata<'_>) -> Arc<LogHandle> {
        let labels: Vec<(String, String)> = key.labels().map(|l| (l.key().to_string(), l.value().to_string())).collect();
        self.log.lock().unwrap().push(Logged {
            kind,
            name: key.name().to_string(),
            labels: labels.clone(),
            value: None,
            meta: Some((md.target().to_string(), md.module_path().map(|m| m.to_string()))),
        });
        Arc::new(LogHandle { log: self.log.clone(), kind: kind.to_ascii_uppercase(), name: key.name().to_string(), labels })
    }
    fn describe(&self, what: &str, name: KeyName, unit: Option<Unit>, desc: SharedString) {
        self.log.lock().unwrap().push(Logged {
            kind: 'd',
            name: name.as_str().to_string(),
            labels: vec![],
            value: Some(format!("{}|{:?}|{}", what, unit, desc)),
            meta: None,
        });
    }
}
impl Recorder for LogRecorder {
    fn describe_counter(&self, n: KeyName, u: Option<Unit>, d: SharedString) {
        self.describe("counter", n, u, d)
    }
    fn describe_gauge(&self, n: KeyName, u: Option<Unit>, d: SharedString) {
        self.describe("gauge", n, u, d)
    }
    fn describe_histogram(&self, n: KeyName, u: Option<Unit>, d: SharedString) {
        self.describe("histogram", n, u, d)
    }
    fn register_counter(&self, key: &Key, md: &Metadata<'_>) -> Counter {
        Counter::from_arc(self.push('c', key, md))
    }
    fn register_gauge(&self, key: &Key, md: &Metadata<'_>) -> Gauge {
        Gauge::from_arc(self.push('g', key, md))
    }
    fn register_histogram(&self, key: &Key, md: &Metadata<'_>) -> Histogram {
        Histogram::from_arc(self.push('h', key, md))
    }
}

// ---------------------------------------------------------------------------------------------
// execution on the real crates

struct Shared {
    dispatch: Dispatch,
    spans: Mutex<Vec<Option<Span>>>,
    layer: bool,
    log: Arc<Mutex<Vec<Logged>>>,
}

#[derive(Default, Debug)]
struct Ans {
    cur_before: Option<usize>,
    cur_after: Option<usize>,
    map: Option<Vec<(String, String)>>,
    emitted: Vec<Logged>,
    /// Close: the registry no longer knows the span's id right after the handle was dropped
    closed: Option<bool>,
    /// New: the registry slot the span lives in
    slot: Option<u64>,
    /// New: `Span::is_disabled()`; the span's metadata is what the call site says
    disabled: bool,
    meta_ok: bool,
    /// Event: the event is inside some (enabled) span
    has_target: bool,
}

/// `Registry` ids are `sharded_slab` pool indices + 1: the low 51 bits (38 of page address, 13 of shard / thread id,
/// `DefaultConfig`) name the slot, the 13 bits above them count how often the slot has been handed out.  (Were the
/// layout different, a wider slot part would only make reuse go unnoticed, never report a live slot as taken twice.)
const SLOT_BITS: u32 = 51;
fn slot_of(span: &Span) -> Option<u64> {
    span.id().map(|id| (id.into_u64() - 1) & ((1u64 << SLOT_BITS) - 1))
}

fn span_map(dispatch: &Dispatch, span: &Span) -> Option<Vec<(String, String)>> {
    let id = span.id()?;
    let reg = dispatch.downcast_ref::<Registry>()?;
    let sref = reg.span(&id)?;
    let ext = sref.extensions();
    let labels = ext.get::<Labels>()?;
    Some(labels.0.iter().map(|(k, v)| (k.to_string(), v.to_string())).collect())
}

fn current_index(sh: &Shared) -> Option<usize> {
    let cur = Span::current();
    let id = cur.id()?;
    sh.spans.lock().unwrap().iter().position(|s| s.as_ref().and_then(|s| s.id()).as_ref() == Some(&id))
}

static META: Metadata<'static> = Metadata::new("mv", metrics::Level::INFO, Some("mv::c17"));

fn exec_op(sh: &Shared, op: &POp) -> Ans {
    let mut ans = Ans { cur_before: current_index(sh), ..Default::default() };
    match op {
        POp::New { parent, shape, meta, vals, .. } => {
            let boxes: Vec<Box<dyn Value>> = vals.iter().map(|v| v.boxed()).collect();
            let refs: Vec<&dyn Value> = boxes.iter().map(|b| &**b).collect();
            let span = {
                let spans = sh.spans.lock().unwrap();
                let p = match parent {
                    ParSpec::Ctx => Par::Ctx,
                    ParSpec::Root => Par::Root,
                    ParSpec::Of(i) => Par::Of(spans[*i].as_ref().expect("parent span was closed")),
                };
                make_span(*shape, *meta, p, &refs)
            };
            ans.map = span_map(&sh.dispatch, &span);
            ans.slot = slot_of(&span);
            ans.disabled = span.is_disabled();
            let md = span.metadata();
            ans.meta_ok = md.map_or(true, |md| {
                let (lvl, name, target) = METAS[*meta];
                md.level().to_string() == lvl && md.name() == name && (if target.is_empty() { md.target() == module_path!() } else { md.target() == target })
            });
            sh.spans.lock().unwrap().push(Some(span));
        }
        POp::Event { parent, es, vals, .. } => {
            let boxes: Vec<Box<dyn Value>> = vals.iter().map(|v| v.boxed()).collect();
            let refs: Vec<&dyn Value> = boxes.iter().map(|b| &**b).collect();
            let target: Option<Span> = {
                let spans = sh.spans.lock().unwrap();
                match parent {
                    ParSpec::Ctx => {
                        make_event(*es, Par::Ctx, &refs);
                        ans.cur_before.and_then(|c| spans[c].clone())
                    }
                    ParSpec::Root => {
                        make_event(*es, Par::Root, &refs);
                        None
                    }
                    ParSpec::Of(i) => {
                        let ps = spans[*i].as_ref().expect("parent span was closed");
                        make_event(*es, Par::Of(ps), &refs);
                        if ps.is_disabled() { None } else { Some(ps.clone()) }
                    }
                }
            };
            ans.has_target = target.is_some();
            ans.map = target.and_then(|sp| span_map(&sh.dispatch, &sp));
        }
        POp::Follows { id, other, .. } => {
            let (a, b) = {
                let spans = sh.spans.lock().unwrap();
                (spans[*id].clone().expect("span was closed"), spans[*other].clone().expect("span was closed"))
            };
            a.follows_from(&b);
            ans.map = span_map(&sh.dispatch, &a);
        }
        POp::Rec { id, field, val, .. } => {
            let span = sh.spans.lock().unwrap()[*id].clone().expect("span was closed");
            let b = val.boxed();
            span.record(*field, &*b);
            ans.map = span_map(&sh.dispatch, &span);
        }
        POp::Enter { id, .. } => {
            let span = sh.spans.lock().unwrap()[*id].clone().expect("span was closed");
            span.with_subscriber(|(id, d)| d.enter(id));
        }
        POp::Exit { id, .. } => {
            let span = sh.spans.lock().unwrap()[*id].clone().expect("span was closed");
            span.with_subscriber(|(id, d)| d.exit(id));
        }
        POp::Close { id, .. } => {
            let span = sh.spans.lock().unwrap()[*id].take().expect("span closed twice");
            let sid = span.id();
            drop(span);
            // a bare `Registry` (no `Layered` around it, hence no `CloseGuard`) never frees the slot of a closed
            // span, so closing is only observable under the layered subscriber
            ans.closed = Some(match (sid, sh.dispatch.downcast_ref::<Registry>()) {
                (Some(sid), Some(reg)) if sh.layer => reg.span(&sid).is_none(),
                _ => true,
            });
        }
        POp::Emit { how, name, labels, .. } => {
            let before = sh.log.lock().unwrap().len();
            let ls: Vec<Label> = labels.iter().map(|(k, v)| Label::new(k.clone(), v.clone())).collect();
            match how {
                0 => {
                    metrics::counter!(name.clone(), ls).increment(3);
                }
                1 => {
                    metrics::gauge!(name.clone(), ls).set(2.5);
                }
                2 => {
                    metrics::histogram!(name.clone(), ls).record(0.25);
                }
                3 => {
                    // `"k" => v` macro forms
                    match labels.len() {
                        0 => metrics::counter!(name.clone()).increment(1),
                        1 => metrics::counter!(name.clone(), labels[0].0.clone() => labels[0].1.clone()).increment(1),
                        2 => metrics::counter!(name.clone(), labels[0].0.clone() => labels[0].1.clone(),
                                               labels[1].0.clone() => labels[1].1.clone())
                        .increment(1),
                        _ => metrics::counter!(name.clone(), ls.iter()).increment(1),
                    }
                }
                _ => {
                    let key = Key::from_parts(name.clone(), ls);
                    metrics::with_recorder(|r| {
                        r.describe_histogram(KeyName::from(name.clone()), Some(Unit::Bytes), SharedString::from(format!("about {}", name)));
                        r.register_histogram(&key, &META).record(0.25);
                    });
                }
            }
            ans.emitted = sh.log.lock().unwrap()[before..].to_vec();
        }
    }
    ans.cur_after = current_index(sh);
    ans
}

fn build_recorder(filter: &FilterSpec, log: Arc<Mutex<Vec<Logged>>>) -> Box<dyn Recorder + Send + Sync> {
    let inner = LogRecorder { log };
    match filter {
        FilterSpec::All => Box::new(TracingContextLayer::all().layer(inner)),
        FilterSpec::Allow(names) => Box::new(TracingContextLayer::only_allow(names.iter()).layer(inner)),
        FilterSpec::Custom(m, r) => Box::new(TracingContextLayer::new(CustomFilter { m: *m, r: *r }).layer(inner)),
    }
}

/// the crate's own filter objects, for calling `should_include_label` directly
fn build_filter(filter: &FilterSpec) -> Box<dyn LabelFilter> {
    match filter {
        FilterSpec::All => Box::new(IncludeAll),
        FilterSpec::Allow(names) => Box::new(Allowlist::new(names.iter())),
        FilterSpec::Custom(m, r) => Box::new(CustomFilter { m: *m, r: *r }),
    }
}

/// what a span is to the `MetricsLayer`, by the subscriber's composition and the span's metadata
#[derive(Clone, Copy, PartialEq, Debug)]
enum Kind {
    /// the layer sees it
    On,
    /// the per-layer filter on the `MetricsLayer` turned it down, some other layer wants it: it exists in the registry
    Hidden,
    /// nobody wants it (global filter, or every per-layer filter said no): the `Span` is disabled, it has no id
    Off,
}

fn span_kind(layer: bool, comp: usize, meta: usize) -> Kind {
    if !layer {
        return Kind::On;
    }
    let deep = meta == 1 || meta == 3; // DEBUG / TRACE
    match comp {
        2 | 6 if deep => Kind::Off,
        3 if deep => Kind::Hidden,
        4 if meta == 1 => Kind::Hidden,
        5 if meta == 3 => Kind::Hidden,
        _ => Kind::On,
    }
}

/// a layer that does nothing (its presence changes the type `S` the `MetricsLayer` is stacked on / what is above it)
struct Noop;
impl<S: tracing::Subscriber> tracing_subscriber::Layer<S> for Noop {}

fn build_dispatch(layer: bool, comp: usize) -> Dispatch {
    use tracing_subscriber::filter::{filter_fn, LevelFilter};
    use tracing_subscriber::Layer as _;
    if !layer {
        return Dispatch::new(tracing_subscriber::registry());
    }
    match comp {
        0 => Dispatch::new(tracing_subscriber::registry().with(MetricsLayer::new())),
        // layers below and above: `S` of `downcast_ref::<S>()` is a `Layered<..>`
        1 => Dispatch::new(tracing_subscriber::registry().with(Noop).with(MetricsLayer::new()).with(Noop)),
        // a global level filter: DEBUG / TRACE spans are disabled altogether
        2 => Dispatch::new(tracing_subscriber::registry().with(LevelFilter::INFO).with(MetricsLayer::new())),
        // per-layer filters on the MetricsLayer (by level / span name / target); a second layer wants everything
        3 => Dispatch::new(
            tracing_subscriber::registry()
                .with(MetricsLayer::new().with_filter(filter_fn(|m| *m.level() <= tracing::Level::INFO)))
                .with(Noop.with_filter(LevelFilter::TRACE)),
        ),
        4 => Dispatch::new(
            tracing_subscriber::registry()
                .with(Noop.with_filter(LevelFilter::TRACE))
                .with(MetricsLayer::new().with_filter(filter_fn(|m| !m.name().starts_with('_')))),
        ),
        5 => Dispatch::new(
            tracing_subscriber::registry()
                .with(Noop)
                .with(MetricsLayer::new().with_filter(filter_fn(|m| m.target() != "x")))
                .with(Noop.with_filter(LevelFilter::TRACE)),
        ),
        // the filtered MetricsLayer alone: a span it turns down is wanted by nobody
        _ => Dispatch::new(
            tracing_subscriber::registry().with(MetricsLayer::new().with_filter(filter_fn(|m| *m.level() <= tracing::Level::INFO))),
        ),
    }
}

fn is_register(l: &Logged) -> bool {
    matches!(l.kind, 'c' | 'g' | 'h')
}

/// runs `prog` on fresh real objects; `f` is called on the driving thread after every op
fn execute(prog: &Program, mut f: impl FnMut(usize, &POp, Ans)) {
    let log = Arc::new(Mutex::new(Vec::new()));
    let dispatch = build_dispatch(prog.layer, prog.comp);
    let shared = Shared { dispatch, spans: Mutex::new(Vec::new()), layer: prog.layer, log: log.clone() };
    let recorder = build_recorder(&prog.filter, log);
    let shared = &shared;
    let recorder = &recorder;
    std::thread::scope(|sc| {
        let (res_tx, res_rx): (Sender<Ans>, Receiver<Ans>) = channel();
        let mut job_txs: Vec<Sender<POp>> = vec![];
        for _ in 0..prog.threads {
            let (tx, rx): (Sender<POp>, Receiver<POp>) = channel();
            job_txs.push(tx);
            let res_tx = res_tx.clone();
            sc.spawn(move || {
                tracing::dispatcher::with_default(&shared.dispatch, || {
                    metrics::with_local_recorder(&**recorder, || {
                        while let Ok(op) = rx.recv() {
                            let a = exec_op(shared, &op);
                            if res_tx.send(a).is_err() {
                                break;
                            }
                        }
                    })
                })
            });
        }
        for (i, op) in prog.ops.iter().enumerate() {
            job_txs[op.thread()].send(op.clone()).unwrap();
            let a = res_rx.recv().expect("worker died");
            f(i, op, a);
        }
        drop(job_txs);
    });
    // spans (and with them the registry's slots) are dropped here, after all workers have left
    shared.spans.lock().unwrap().clear();
}

// ---------------------------------------------------------------------------------------------
// the property's own reading: assignment histories

/// per span: levels[0] = this span's assignments in time order (creation fields, then records);
/// levels[1..] = what its parent's history was when this span was created
#[derive(Clone, Default)]
struct Hist {
    levels: Vec<Vec<(String, String)>>,
}
impl Hist {
    fn visible(&self) -> BTreeMap<String, String> {
        let mut m = BTreeMap::new();
        // outermost first, later assignment replaces → innermost / latest wins
        for lvl in self.levels.iter().rev() {
            for (k, v) in lvl {
                m.insert(k.clone(), v.clone());
            }
        }
        m
    }
}

fn fields_tok(names: &[&str], vals: &[Val]) -> String {
    list(names.iter().zip(vals).map(|(n, v)| format!("{}:{}", hexs(n), v.token())))
}
fn opt_idx(i: Option<usize>) -> String {
    i.map(|i| i.to_string()).unwrap_or_else(|| "~".into())
}
fn distinct_names(labels: &[(String, String)]) -> bool {
    let s: BTreeSet<&String> = labels.iter().map(|(k, _)| k).collect();
    s.len() == labels.len()
}

/// Runs a program against the real crates, writes model ops + answers, applies the oracles.
/// Returns, per op, the resolved contextual parent (for `New`) and the emitted labels (for `Emit`).
fn run_logged(prog: &Program, out: &mut Out) -> (Vec<Option<usize>>, Vec<Option<Vec<(String, String)>>>) {
    let filt = match &prog.filter {
        FilterSpec::All => "tracing filter all".to_string(),
        FilterSpec::Allow(n) => format!("tracing filter allow {}", list(n.iter().map(|s| hexs(s)))),
        FilterSpec::Custom(m, r) => format!("tracing filter custom {} {}", m, r),
    };
    out.op(&filt, "ok");
    out.count(match &prog.filter {
        FilterSpec::All => "filter:all",
        FilterSpec::Allow(_) => "filter:allow",
        FilterSpec::Custom(..) => "filter:custom",
    });
    out.count(&format!("threads:{}", prog.threads));
    if !prog.layer {
        out.op("tracing nolayer", "ok");
        out.count("subscriber without MetricsLayer");
    }
    let mut max_map = 0usize;
    let mut hists: Vec<Hist> = vec![];
    let mut resolved: Vec<Option<usize>> = vec![None; prog.ops.len()];
    let mut emitted: Vec<Option<Vec<(String, String)>>> = vec![None; prog.ops.len()];
    let mut fails: Vec<(String, String)> = vec![];
    let mut nontrivial = false;
    let mut uni_admitted = false;
    let mut slot_owner: BTreeMap<u64, usize> = BTreeMap::new();
    let mut closed_spans: BTreeSet<usize> = BTreeSet::new();
    let mut reused = 0usize;
    let mut lines: Vec<(String, String)> = vec![];
    if prog.layer {
        out.count(&format!("subscriber composition {}", prog.comp));
    }
    let with_slots = prog.layer && prog.comp != 2 && prog.comp != 6;
    let mut kinds: Vec<Kind> = vec![];
    let mut reg_parent: Vec<Option<usize>> = vec![];
    let mut hidden_emits = (0usize, 0usize);
    // `SpanRef::parent()` under a per-layer filter: the closest ancestor the layer sees
    fn nearest_on(kinds: &[Kind], reg_parent: &[Option<usize>], mut p: Option<usize>) -> Option<usize> {
        while let Some(x) = p {
            if kinds[x] == Kind::On {
                return Some(x);
            }
            p = reg_parent[x];
        }
        None
    }
    execute(prog, |i, op, a| match op {
        POp::New { t, parent, shape, meta, vals } => {
            let names = SHAPES[*shape];
            let kind = span_kind(prog.layer, prog.comp, *meta);
            if a.disabled != (kind == Kind::Off) || !a.meta_ok {
                fails.push(("harness expectation: which spans the subscriber disables altogether / the metadata of a call site".into(),
                            format!("op {} comp {} meta {:?} expected {:?}, Span::is_disabled() = {}, metadata as declared = {}", i, prog.comp, METAS[*meta], kind, a.disabled, a.meta_ok)));
            }
            // a disabled span is nobody's parent: `parent: &span` of it makes a root
            let ptok = match parent {
                ParSpec::Ctx => "c".to_string(),
                ParSpec::Root => "r".to_string(),
                ParSpec::Of(p) if kinds[*p] == Kind::Off => "r".to_string(),
                ParSpec::Of(p) => p.to_string(),
            };
            let p_reg = match parent {
                ParSpec::Ctx => a.cur_before,
                ParSpec::Root => None,
                ParSpec::Of(p) if kinds[*p] == Kind::Off => None,
                ParSpec::Of(p) => Some(*p),
            };
            resolved[i] = p_reg;
            if kind != Kind::On {
                let n = hists.len();
                if kind == Kind::Off {
                    lines.push((format!("tracing newoff {}", t), format!("{} {}", n, if a.disabled && a.map.is_none() && a.slot.is_none() { "off" } else { "not-off" })));
                    reg_parent.push(None);
                } else {
                    let mut line = format!("tracing newhid {} {}", t, ptok);
                    if let (true, Some(slot)) = (with_slots, a.slot) {
                        line.push_str(&format!(" {}", slot));
                        if let Some(prev) = slot_owner.insert(slot, n) {
                            reused += 1;
                            if !closed_spans.contains(&prev) {
                                fails.push(("the registry handed a new span the slot of a span that is still alive".into(),
                                            format!("op {} slot {} previous span {}", i, slot, prev)));
                            }
                        }
                    }
                    lines.push((line, format!("{} {}", n, a.map.as_ref().map(|m| pairs(m)).unwrap_or_else(|| "no-labels".into()))));
                    reg_parent.push(p_reg);
                }
                kinds.push(kind);
                hists.push(Hist::default());
                return;
            }
            let mut line = format!("tracing new {} {} {}", t, ptok, fields_tok(names, vals));
            if let (true, Some(slot)) = (with_slots, a.slot) {
                // the slot the real registry chose goes to the model, which stores the labels in it
                line.push_str(&format!(" {}", slot));
                if let Some(prev) = slot_owner.insert(slot, hists.len()) {
                    reused += 1;
                    if !closed_spans.contains(&prev) {
                        fails.push(("the registry handed a new span the slot of a span that is still alive".into(),
                                    format!("op {} slot {} previous span {}", i, slot, prev)));
                    }
                }
            }
            let map = a.map.clone();
            lines.push((line, format!("{} {}", hists.len(), map.as_ref().map(|m| pairs(m)).unwrap_or_else(|| "no-labels".into()))));
            // the labels come from the closest ancestor the layer sees, as that one is NOW
            let p = nearest_on(&kinds, &reg_parent, p_reg);
            kinds.push(Kind::On);
            reg_parent.push(p_reg);
            let own: Vec<(String, String)> =
                names.iter().zip(vals).filter_map(|(n, v)| v.rendered().map(|r| (n.to_string(), r))).collect();
            let mut h = Hist { levels: vec![own] };
            if let Some(p) = p {
                h.levels.extend(hists[p].levels.iter().cloned());
            }
            // oracle: the stored map is, as a set, what is visible by the property's rule
            if prog.layer && map.is_none() {
                fails.push(("a new span has no Labels extension under a subscriber with a MetricsLayer".into(), format!("op {}", i)));
            }
            if let Some(m) = &map {
                max_map = max_map.max(m.len());
                let got: BTreeMap<String, String> = m.iter().cloned().collect();
                if got.len() != m.len() {
                    fails.push(("span map has a repeated field name".into(), format!("op {} map {:?}", i, m)));
                }
                if got != h.visible() {
                    fails.push(("span fields visible after creation differ from own-then-ancestors rule".into(),
                                format!("op {} got {:?} expected {:?}", i, got, h.visible())));
                }
            }
            hists.push(h);
        }
        POp::Rec { t, id, field, val } => {
            if kinds[*id] == Kind::Off {
                if a.map.is_some() || a.cur_after != a.cur_before {
                    fails.push(("record() on a disabled span had an effect".into(), format!("op {}", i)));
                }
                return;
            }
            let line = format!("tracing rec {} {} {}:{}", t, id, hexs(field), val.token());
            lines.push((line, a.map.as_ref().map(|m| pairs(m)).unwrap_or_else(|| "no-labels".into())));
            if kinds[*id] == Kind::Hidden {
                if a.map.is_some() {
                    fails.push(("a span the layer's filter turned down got a Labels extension through record()".into(), format!("op {} map {:?}", i, a.map)));
                }
                return;
            }
            if let Some(r) = val.rendered() {
                hists[*id].levels[0].push((field.to_string(), r));
            }
            if let Some(m) = &a.map {
                let got: BTreeMap<String, String> = m.iter().cloned().collect();
                if got != hists[*id].visible() {
                    fails.push(("span fields visible after record() differ from later-record-replaces rule".into(),
                                format!("op {} got {:?} expected {:?}", i, got, hists[*id].visible())));
                }
            }
        }
        POp::Enter { id, .. } | POp::Exit { id, .. } if kinds[*id] == Kind::Off => {
            if a.cur_after != a.cur_before {
                fails.push(("entering / leaving a disabled span changed the current span".into(), format!("op {}", i)));
            }
        }
        POp::Enter { t, id } => {
            lines.push((format!("tracing enter {} {}", t, id), opt_idx(a.cur_after)));
        }
        POp::Exit { t, id } => {
            lines.push((format!("tracing exit {} {}", t, id), opt_idx(a.cur_after)));
        }
        POp::Event { t, parent, es, vals } => {
            let ptok = match parent {
                ParSpec::Ctx => "c".to_string(),
                ParSpec::Root => "r".to_string(),
                ParSpec::Of(p) if kinds[*p] == Kind::Off => "r".to_string(),
                ParSpec::Of(p) => p.to_string(),
            };
            let target = match parent {
                ParSpec::Ctx => a.cur_before,
                ParSpec::Root => None,
                ParSpec::Of(p) if kinds[*p] == Kind::Off => None,
                ParSpec::Of(p) => Some(*p),
            };
            let ans = if !a.has_target { "~".to_string() } else { a.map.as_ref().map(|m| pairs(m)).unwrap_or_else(|| "no-labels".into()) };
            lines.push((format!("tracing event {} {} {}", t, ptok, fields_tok(EVENT_SHAPES[*es], vals)), ans));
            if a.has_target != target.is_some() {
                fails.push(("harness expectation: which span an event is in".into(), format!("op {} expected {:?}", i, target)));
            }
            if let (Some(c), Some(m)) = (target, &a.map) {
                let got: BTreeMap<String, String> = m.iter().cloned().collect();
                if kinds[c] == Kind::On && got != hists[c].visible() {
                    fails.push(("an event changed the fields visible from the span it happened in (events are not span fields)".into(),
                                format!("op {} span {} got {:?} expected {:?}", i, c, got, hists[c].visible())));
                }
            }
        }
        POp::Follows { id, other, .. } => {
            lines.push((format!("tracing follows {} {}", id, other), a.map.as_ref().map(|m| pairs(m)).unwrap_or_else(|| "no-labels".into())));
            if let Some(m) = &a.map {
                let got: BTreeMap<String, String> = m.iter().cloned().collect();
                if kinds[*id] == Kind::On && got != hists[*id].visible() {
                    fails.push(("follows_from changed the fields visible from a span (the followed span is no ancestor)".into(),
                                format!("op {} span {} follows {} got {:?} expected {:?}", i, id, other, got, hists[*id].visible())));
                }
            }
        }
        POp::Close { id, .. } if kinds[*id] == Kind::Off => {
            closed_spans.insert(*id);
        }
        POp::Close { t, id } => {
            closed_spans.insert(*id);
            lines.push((format!("tracing close {} {}", t, id), (if a.closed == Some(true) { "closed" } else { "alive" }).to_string()));
        }
        POp::Emit { t, how, name, labels } => {
            let line = format!("tracing emit {} {} {}", t, hexs(name), pairs(labels));
            let want_kind = match how {
                0 | 3 => 'c',
                1 => 'g',
                _ => 'h',
            };
            let regs: Vec<&Logged> = a.emitted.iter().filter(|l| is_register(l)).collect();
            if regs.len() != 1 || regs[0].kind != want_kind || &regs[0].name != name {
                fails.push(("inner recorder did not receive exactly one register call of the emitted kind and name".into(),
                            format!("op {} got {:?}", i, a.emitted)));
                lines.push((line, "no-single-register".into()));
                return;
            }
            let got = regs[0].labels.clone();
            lines.push((line, pairs(&got)));
            emitted[i] = Some(got.clone());
            // the values of the metric reach the inner recorder: the handle the caller got is the one the inner
            // recorder made for the key it was given, and the metadata / description pass through untouched
            let want_value = match how {
                0 => "increment:3".to_string(),
                3 => "increment:1".to_string(),
                1 => format!("set:{:016x}", 2.5f64.to_bits()),
                _ => format!("record:{:016x}", 0.25f64.to_bits()),
            };
            let vals: Vec<&Logged> = a.emitted.iter().filter(|l| matches!(l.kind, 'C' | 'G' | 'H')).collect();
            if vals.len() != 1
                || vals[0].kind != want_kind.to_ascii_uppercase()
                || &vals[0].name != name
                || vals[0].labels != got
                || vals[0].value.as_deref() != Some(want_value.as_str())
            {
                fails.push(("the value did not reach the inner recorder's handle for the key it registered".into(),
                            format!("op {} want {} under {:?}, log {:?}", i, want_value, got, a.emitted)));
            }
            let want_meta = if *how == 4 {
                (META.target().to_string(), META.module_path().map(|m| m.to_string()))
            } else {
                (module_path!().to_string(), Some(module_path!().to_string()))
            };
            if regs[0].meta.as_ref() != Some(&want_meta) {
                fails.push(("the metadata of the register call was changed on the way to the inner recorder".into(),
                            format!("op {} got {:?} want {:?}", i, regs[0].meta, want_meta)));
            }
            let descs: Vec<&Logged> = a.emitted.iter().filter(|l| l.kind == 'd').collect();
            if *how == 4 {
                let want = format!("histogram|{:?}|about {}", Some(Unit::Bytes), name);
                if descs.len() != 1 || &descs[0].name != name || descs[0].value.as_deref() != Some(want.as_str()) {
                    fails.push(("describe_histogram did not reach the inner recorder unchanged".into(), format!("op {} got {:?}", i, descs)));
                }
            } else if !descs.is_empty() {
                fails.push(("a describe call appeared from nowhere".into(), format!("op {} got {:?}", i, descs)));
            }
            let visible = match a.cur_before {
                Some(c) if prog.layer && kinds[c] == Kind::On => hists[c].visible(),
                Some(c) if prog.layer && kinds[c] == Kind::Hidden => {
                    // `current_span()` is a span without `Labels`: the key passes unchanged, whatever the ancestors
                    // the layer does see carry (model: `fil_hidden_current_unchanged`, `fil_hidden_drops_ancestor_fields`)
                    hidden_emits.0 += 1;
                    if nearest_on(&kinds, &reg_parent, reg_parent[c]).map_or(false, |q| !hists[q].visible().is_empty()) {
                        hidden_emits.1 += 1;
                    }
                    BTreeMap::new()
                }
                _ => BTreeMap::new(),
            };
            let distinct = distinct_names(labels);
            if visible.is_empty() {
                if &got != labels {
                    fails.push(("key changed although there is no current span / no visible field".into(),
                                format!("op {} own {:?} got {:?}", i, labels, got)));
                }
            } else {
                let mut expect: BTreeMap<String, String> =
                    visible.iter().filter(|(k, v)| prog.filter.admits(name, k, v)).map(|(k, v)| (k.clone(), v.clone())).collect();
                let n_admitted = expect.len();
                if matches!(prog.filter, FilterSpec::Allow(_)) && expect.keys().any(|k| !k.is_ascii()) {
                    uni_admitted = true;
                }
                let mut overlap = false;
                for (k, v) in labels {
                    overlap |= expect.contains_key(k);
                    expect.insert(k.clone(), v.clone());
                }
                if distinct {
                    let got_set: BTreeMap<String, String> = got.iter().cloned().collect();
                    if got_set.len() != got.len() {
                        fails.push(("resulting key contains a label name twice".into(), format!("op {} got {:?}", i, got)));
                    }
                    if got_set != expect {
                        fails.push(("label set differs from metric > inner span > outer span rule".into(),
                                    format!("op {} got {:?} expected {:?}", i, got, expect)));
                    }
                    if let Some(kv) = labels.iter().find(|kv| !got.contains(kv)) {
                        fails.push(("a label of the metric itself is missing or changed".into(),
                                    format!("op {} label {:?} got {:?}", i, kv, got)));
                    }
                }
                if overlap && n_admitted > 0 {
                    nontrivial = true;
                }
            }
        }
    });
    for (l, a) in &lines {
        out.op(l, a);
    }
    if hidden_emits.0 > 0 {
        out.count_n("emit inside a span the MetricsLayer's own filter turned down (key unchanged)", hidden_emits.0 as u64);
    }
    if hidden_emits.1 > 0 {
        out.count_n("emit inside a hidden span whose enabled ancestor has fields (they do not reach the key)", hidden_emits.1 as u64);
    }
    for k in &kinds {
        match k {
            Kind::On => {}
            Kind::Hidden => out.count("new: hidden from the MetricsLayer by its per-layer filter"),
            Kind::Off => out.count("new: disabled span (global filter / no layer wants it)"),
        }
    }
    for _ in 0..reused {
        out.count("new: the span got the registry slot of a span that closed earlier (id reuse)");
    }
    if uni_admitted {
        out.count("programs where an allow-list admitted a visible non-ASCII span field");
    }
    if let FilterSpec::Allow(names) = &prog.filter {
        let max_chars = names.iter().map(|n| n.chars().count()).max().unwrap_or(0);
        let min_chars = names.iter().map(|n| n.chars().count()).min().unwrap_or(0);
        if names.iter().any(|n| n.len() > max_chars) {
            out.count("allow-list: some name has more bytes than the longest name has characters");
        }
        if names.len() == 1 {
            out.count("allow-list: single name");
        }
        if names.iter().any(|n| n.len() < min_chars) {
            out.count("allow-list: unreachable");
        }
    }
    // the filter decision on its own, for label names no compiled span shape carries
    if !prog.probes.is_empty() {
        let f = build_filter(&prog.filter);
        for (name, k, v) in &prog.probes {
            let got = f.should_include_label(&KeyName::from(name.clone()), &Label::new(k.clone(), v.clone()));
            out.op(&format!("tracing filt {} {} {}", hexs(name), hexs(k), hexs(v)), if got { "1" } else { "0" });
            let want = prog.filter.admits(name, k, v);
            if got != want {
                let why = match &prog.filter {
                    FilterSpec::Allow(names) => format!(
                        "allow-list {:?} (bytes/chars of each: {:?}); label name {:?} is {} bytes, {} chars",
                        names,
                        names.iter().map(|n| (n.len(), n.chars().count())).collect::<Vec<_>>(),
                        k,
                        k.len(),
                        k.chars().count()
                    ),
                    other => format!("filter {:?}", other),
                };
                fails.push((
                    if want { "the label filter rejected a label it must admit (allow-list = exact name membership)" } else { "the label filter admitted a label it must reject" }.into(),
                    format!("should_include_label(metric {:?}, label {:?}={:?}) = {}; {}", name, k, v, got, why),
                ));
            }
            out.count(if got { "probe:admitted" } else { "probe:rejected" });
            if !k.is_ascii() {
                out.count("probe:non-ASCII label name");
            }
        }
    }
    out.count(match max_map {
        0..=4 => "widest span map: 0-4",
        5..=14 => "widest span map: 5-14",
        15..=28 => "widest span map: 15-28",
        _ => "widest span map: 29+ (capacity step past 32)",
    });
    // no default dispatcher at all on this thread: the key passes unchanged
    {
        let log = Arc::new(Mutex::new(Vec::new()));
        let rec = build_recorder(&prog.filter, log.clone());
        let own = vec![("a".to_string(), "own".to_string()), ("svc".to_string(), "x".to_string())];
        let ls: Vec<Label> = own.iter().map(|(k, v)| Label::new(k.clone(), v.clone())).collect();
        metrics::with_local_recorder(&*rec, || metrics::counter!("nodispatch", ls).increment(1));
        let l = log.lock().unwrap();
        if l.len() != 2 || l[0].labels != own || l[1].labels != own {
            fails.push(("key changed although the thread has no subscriber".into(), format!("got {:?}", *l)));
        }
    }
    if nontrivial {
        out.nontrivial();
    }
    for (w, d) in fails {
        out.oracle_fail(&w, &d);
    }
    (resolved, emitted)
}

/// metamorphic oracle: the keys thread `t` emits do not depend on what the other threads enter or exit
fn check_thread_independence(prog: &Program, resolved: &[Option<usize>], emitted: &[Option<Vec<(String, String)>>], t: usize, out: &mut Out) {
    let mut ops = vec![];
    let mut want = vec![];
    for (i, op) in prog.ops.iter().enumerate() {
        match op {
            POp::New { t: u, parent, shape, meta, vals } => {
                let parent = if *u == t {
                    parent.clone()
                } else {
                    match (parent, resolved[i]) {
                        (ParSpec::Ctx, Some(p)) => ParSpec::Of(p),
                        (ParSpec::Ctx, None) => ParSpec::Root,
                        (p, _) => p.clone(),
                    }
                };
                ops.push(POp::New { t: *u, parent, shape: *shape, meta: *meta, vals: vals.clone() });
            }
            POp::Event { t: u, parent, .. } => {
                // a contextual event of another thread would need that thread's current span
                if *u == t || !matches!(parent, ParSpec::Ctx) {
                    ops.push(op.clone())
                }
            }
            POp::Rec { .. } | POp::Close { .. } | POp::Follows { .. } => ops.push(op.clone()),
            POp::Enter { t: u, .. } | POp::Exit { t: u, .. } => {
                if *u == t {
                    ops.push(op.clone())
                }
            }
            POp::Emit { t: u, .. } => {
                if *u == t {
                    ops.push(op.clone());
                    want.push(emitted[i].clone());
                }
            }
        }
    }
    let proj = Program { filter: prog.filter.clone(), threads: prog.threads, layer: prog.layer, comp: prog.comp, ops, probes: vec![] };
    let mut got = vec![];
    execute(&proj, |_, op, a| {
        if let POp::Emit { .. } = op {
            got.push(a.emitted.iter().find(|l| is_register(l)).map(|l| l.labels.clone()));
        }
    });
    out.count("independence-reruns");
    if got != want {
        out.oracle_fail(
            "keys emitted on one thread changed when the other threads' enter/exit calls were removed",
            &format!("thread {} original {:?} projected {:?}", t, want, got),
        );
    }
}

// ---------------------------------------------------------------------------------------------
// generators

const LABEL_NAMES: &[&str] =
    &["a", "b", "c", "k.x", "svc", "env", "zz", "a00", "b07", "w31", "A", "ab", "k", "a0", "région", "地域", "ñ", "🦀", "region", "ключ"];
/// allow-list entries: the field names, and near misses of them (case, prefix, extension, blank, dot, empty)
const ALLOW_NAMES: &[&str] =
    &["a", "b", "c", "k.x", "zz", "svc", "A", "ab", "k", "k.", "a ", " a", "a0", "a00", "a0", "b07", "w3", "w31", "B", "K.X", ""];
/// allow-list entries outside ASCII: the field names of the UNI shapes and near misses of them (undecorated letter,
/// decomposed form, other case, prefix, a different name of the same byte length / of the same character count)
const UNI_ALLOW_NAMES: &[&str] = &[
    "région", "region", "re\u{301}gion", "Région", "régio", "régions", "地域", "地", "域地", "地域名", "ключ", "КЛЮЧ", "клю", "ñ", "n", "n\u{303}",
    "🦀", "🦀🦀", "k.ü", "k.u", "env", "ÿÿÿ", "ab\u{e9}", "\u{e9}",
];
const METRIC_NAMES: &[&str] = &["m", "reqs", "lat", "login_attempts", "a"];
const STR_VALUES: &[&str] = &["x", "y", "", "ferris", "true", "42", "-1", "a", "\"q\"", "é", "日本"];

/// a long value: hundreds to thousands of bytes (past any "reasonable" label length), ASCII or multi-byte
fn long_string(r: &mut Rng) -> String {
    let piece = *r.pick(&["x", "ab", "é", "日本", "🦀", " ", "\"", "0123456789"]);
    let target = *r.pick(&[120usize, 255, 256, 257, 1000, 4096, 5000]);
    let mut out = String::new();
    while out.chars().count() < target {
        out.push_str(piece);
    }
    if r.chance(1, 2) {
        out.push_str("<end>");
    }
    out
}

fn gen_str_value(r: &mut Rng) -> String {
    if r.chance(1, 14) {
        long_string(r)
    } else if r.chance(1, 6) {
        wild_string(r, false)
    } else {
        r.pick_str(STR_VALUES).to_string()
    }
}

fn gen_val(r: &mut Rng, allow_empty: bool) -> Val {
    let w = r.weighted(&[8, 3, 4, 2, 3, 1, 2, 1, 1, 2, 2, 2, if allow_empty { 7 } else { 1 }, 1, 1, 2]);
    match w {
        13 => Val::Err(gen_str_value(r)),
        14 => Val::Bytes((0..r.below(40)).map(|_| r.next() as u8).collect()),
        // integers and floats anywhere in their range
        15 => match r.below(5) {
            0 => Val::I64(r.next() as i64),
            1 => Val::U64(r.next()),
            2 => Val::I128(((r.next() as u128) << 64 | r.next() as u128) as i128),
            3 => Val::U128((r.next() as u128) << 64 | r.next() as u128),
            _ => Val::F64(f64::from_bits(r.next())),
        },
        0 => Val::Str(gen_str_value(r)),
        1 => Val::Bool(r.chance(1, 2)),
        2 => Val::I64(*r.pick(&[0i64, 1, -1, 42, i64::MIN, i64::MAX, -7])),
        3 => Val::I32(*r.pick(&[0i32, -1, i32::MIN, 5])),
        4 => Val::U64(*r.pick(&[0u64, 1, 42, u64::MAX, 1 << 63])),
        5 => Val::U8(*r.pick(&[0u8, 255, 7])),
        6 => Val::F64(*r.pick(&[0.0f64, 1.5, -2.0, 1e300, f64::NAN, f64::INFINITY, 0.1])),
        7 => Val::I128(*r.pick(&[i128::MIN, -1, 1 << 100])),
        8 => Val::U128(*r.pick(&[u128::MAX, 0, 1 << 64])),
        9 => Val::Dbg(gen_str_value(r)),
        10 => Val::Disp(gen_str_value(r)),
        11 => Val::OptU(if r.chance(1, 2) { Some(r.below(100) as u64) } else { None }),
        12 => Val::Empty,
        _ => unreachable!(),
    }
}

fn gen_labels(r: &mut Rng) -> Vec<(String, String)> {
    let n = r.weighted(&[2, 4, 4, 3, 1]);
    let allow_dup = r.chance(1, 10);
    let mut v: Vec<(String, String)> = vec![];
    for _ in 0..n {
        let k = if r.chance(1, 8) { wild_string(r, true) } else { r.pick_str(LABEL_NAMES).to_string() };
        if !allow_dup && v.iter().any(|(k2, _)| *k2 == k) {
            continue;
        }
        v.push((k, gen_str_value(r)));
    }
    v
}

/// the generator's copy of `registry::stack::SpanStack` (it has to know which span is current to know who is
/// whose child, and which spans are on no stack, before it may drop a handle)
fn g_push(st: &mut Vec<(usize, bool)>, id: usize) {
    let dup = st.iter().any(|(i, _)| *i == id);
    st.push((id, dup));
}
fn g_pop(st: &mut Vec<(usize, bool)>, id: usize) {
    if let Some(p) = st.iter().rposition(|(i, _)| *i == id) {
        st.remove(p);
    }
}
fn g_current(st: &[(usize, bool)]) -> Option<usize> {
    st.iter().rev().find(|(_, d)| !*d).map(|(i, _)| *i)
}

/// an allow-list: any size from a single name to most of the tables, ASCII only / mixed / non-ASCII only, now and
/// then a generated name; which name is the longest (in bytes, in characters) and which the shortest varies freely
fn gen_allowlist(r: &mut Rng) -> Vec<String> {
    let mut names: Vec<String> = vec![];
    let (ascii_den, uni_den) = *r.pick(&[(3usize, 0usize), (3, 0), (3, 4), (6, 3), (0, 3), (0, 6), (12, 12), (2, 2)]);
    for n in ALLOW_NAMES {
        if ascii_den > 0 && r.chance(1, ascii_den) {
            names.push(n.to_string());
        }
    }
    for n in UNI_ALLOW_NAMES {
        if uni_den > 0 && r.chance(1, uni_den) {
            names.push(n.to_string());
        }
    }
    if r.chance(1, 5) {
        // a short list: one to three names from anywhere
        names.clear();
        for _ in 0..r.range(1, 3) {
            names.push(if r.chance(1, 2) { r.pick_str(UNI_ALLOW_NAMES).to_string() } else { r.pick_str(ALLOW_NAMES).to_string() });
        }
    }
    if r.chance(1, 6) {
        names.push(wild_string(r, false));
    }
    if r.chance(1, 8) {
        // the same name twice
        if let Some(n) = names.first().cloned() {
            names.push(n);
        }
    }
    names
}

/// a near miss of `n`: one character fewer / more / replaced, by a character of the same or of another byte length
fn mutate_name(r: &mut Rng, n: &str) -> String {
    let mut cs: Vec<char> = n.chars().collect();
    const POOL: &[char] = &['a', 'z', '.', ' ', '\u{e9}', '\u{f1}', '\u{301}', '\u{43a}', '\u{5730}', '\u{1f980}', 'E', '\u{c9}'];
    match r.below(5) {
        0 => {
            cs.pop();
        }
        1 => cs.push(*r.pick(POOL)),
        2 if !cs.is_empty() => {
            let i = r.below(cs.len());
            cs[i] = *r.pick(POOL);
        }
        3 if !cs.is_empty() => {
            cs.remove(0);
        }
        _ => cs.insert(0, *r.pick(POOL)),
    }
    cs.into_iter().collect()
}

/// labels to hand to the filter directly: listed names (which must be admitted whatever else is on the list), near
/// misses of them, the field names of the shapes, generated strings
fn gen_probes(r: &mut Rng, filter: &FilterSpec) -> Vec<(String, String, String)> {
    let n = r.range(2, 8);
    let mut v = vec![];
    for _ in 0..n {
        let key = match (filter, r.weighted(&[6, 4, 3, 2])) {
            (FilterSpec::Allow(names), 0) if !names.is_empty() => r.pick(names).clone(),
            (FilterSpec::Allow(names), 1) if !names.is_empty() => {
                let base = r.pick(names).clone();
                mutate_name(r, &base)
            }
            (_, 0) | (_, 1) | (_, 2) => {
                if r.chance(1, 2) {
                    r.pick_str(UNI_ALLOW_NAMES).to_string()
                } else {
                    r.pick_str(LABEL_NAMES).to_string()
                }
            }
            _ => wild_string(r, false),
        };
        let name = if r.chance(1, 6) { wild_string(r, true) } else { r.pick_str(METRIC_NAMES).to_string() };
        v.push((name, key, gen_str_value(r)));
    }
    v
}

fn gen_program(r: &mut Rng, thorough: bool) -> Program {
    let threads = 1 + r.weighted(&[10, 7, 3]);
    let filter = match r.weighted(&[8, 7, 5]) {
        0 => FilterSpec::All,
        1 => FilterSpec::Allow(gen_allowlist(r)),
        _ => {
            let m = r.range(2, 5) as u64;
            FilterSpec::Custom(m, r.below(m as usize) as u64)
        }
    };
    let layer = !r.chance(1, 14);
    let comp = if layer { r.weighted(&[10, 3, 3, 3, 3, 3, 2]) } else { 0 };
    let kind_of = |meta: usize| span_kind(layer, comp, meta);
    let mut metas: Vec<usize> = vec![]; // metadata variant of every span created so far
    // flavour of the program: how often a new span is a wide one / a near-miss one, how eagerly handles are dropped
    let wide_pct = *r.pick(&[0usize, 0, 20, 50, 80]);
    let near_pct = *r.pick(&[0usize, 10, 10, 40]);
    let uni_pct = *r.pick(&[0usize, 15, 15, 40, 70]);
    let close_w = *r.pick(&[0usize, 8, 8, 20, 35]);
    let n_ops = if thorough && r.chance(1, 4) { r.range(40, 120) } else if wide_pct >= 50 { r.range(10, 60) } else { r.range(5, 40) };
    let mut ops = vec![];
    let mut shapes: Vec<usize> = vec![]; // shape of every span created so far
    let mut alive: Vec<bool> = vec![]; // the harness still holds the handle
    let mut parent: Vec<Option<usize>> = vec![];
    let mut stacks: Vec<Vec<(usize, bool)>> = vec![vec![]; threads];
    while ops.len() < n_ops {
        let t = r.below(threads);
        let live: Vec<usize> = (0..shapes.len()).filter(|i| alive[*i]).collect();
        let w = if live.is_empty() { 0 } else { r.weighted(&[25, 18, 12, 15, 30, close_w, 7, 3]) };
        match w {
            0 => {
                let shape = if r.below(100) < wide_pct {
                    *r.pick(WIDE_SHAPES)
                } else if r.below(100) < near_pct {
                    *r.pick(NEAR_SHAPES)
                } else if r.below(100) < uni_pct {
                    *r.pick(UNI_SHAPES)
                } else {
                    r.below(12)
                };
                let par = if live.is_empty() {
                    ParSpec::Ctx
                } else {
                    match r.weighted(&[14, 2, 4]) {
                        0 => ParSpec::Ctx,
                        1 => ParSpec::Root,
                        _ => ParSpec::Of(*r.pick(&live)),
                    }
                };
                let meta = if WIDE_SHAPES.contains(&shape) { 0 } else { r.weighted(&if comp >= 2 { [5, 3, 2, 3] } else { [8, 1, 2, 1] }) };
                parent.push(match &par {
                    _ if kind_of(meta) == Kind::Off => None,
                    ParSpec::Ctx => g_current(&stacks[t]),
                    ParSpec::Root => None,
                    ParSpec::Of(p) if kind_of(metas[*p]) == Kind::Off => None,
                    ParSpec::Of(p) => Some(*p),
                });
                metas.push(meta);
                // wide spans mostly carry values (an Empty field makes no label)
                let allow_empty = shape < 12 || r.chance(1, 4);
                let vals = SHAPES[shape].iter().map(|_| gen_val(r, allow_empty)).collect();
                ops.push(POp::New { t, parent: par, shape, meta, vals });
                shapes.push(shape);
                alive.push(true);
                if r.chance(3, 5) {
                    let id = shapes.len() - 1;
                    ops.push(POp::Enter { t, id });
                    if kind_of(meta) != Kind::Off {
                        g_push(&mut stacks[t], id);
                    }
                }
            }
            1 => {
                let id = *r.pick(&live);
                ops.push(POp::Enter { t, id });
                if kind_of(metas[id]) != Kind::Off {
                    g_push(&mut stacks[t], id);
                }
            }
            6 => {
                let par = match r.weighted(&[12, 2, 4]) {
                    0 => ParSpec::Ctx,
                    1 => ParSpec::Root,
                    _ => ParSpec::Of(*r.pick(&live)),
                };
                let es = r.below(EVENT_SHAPES.len());
                let vals = EVENT_SHAPES[es].iter().map(|_| gen_val(r, false)).collect();
                ops.push(POp::Event { t, parent: par, es, vals });
            }
            7 => {
                let on: Vec<usize> = live.iter().cloned().filter(|i| kind_of(metas[*i]) != Kind::Off).collect();
                if on.is_empty() {
                    continue;
                }
                ops.push(POp::Follows { t, id: *r.pick(&on), other: *r.pick(&on) });
            }
            2 => {
                let id = if !stacks[t].is_empty() && r.chance(15, 20) {
                    stacks[t].last().unwrap().0
                } else if !stacks[t].is_empty() && r.chance(3, 5) {
                    r.pick(&stacks[t]).0
                } else {
                    *r.pick(&live)
                };
                ops.push(POp::Exit { t, id });
                g_pop(&mut stacks[t], id);
            }
            3 => {
                // prefer spans that are entered somewhere (their records are what emissions can see)
                let entered: Vec<usize> = stacks.iter().flatten().map(|(i, _)| *i).collect();
                let id = if !entered.is_empty() && r.chance(2, 3) { *r.pick(&entered) } else { *r.pick(&live) };
                let names = SHAPES[shapes[id]];
                if names.is_empty() {
                    continue;
                }
                let field = names[r.below(names.len())];
                ops.push(POp::Rec { t, id, field, val: gen_val(r, false) });
            }
            4 => {
                let name = if r.chance(1, 10) { wild_string(r, true) } else { r.pick_str(METRIC_NAMES).to_string() };
                ops.push(POp::Emit { t, how: r.below(5), name, labels: gen_labels(r) });
            }
            _ => {
                // drop the handle of a span nothing else keeps alive; if there is none, leave a span instead
                let closable: Vec<usize> = live
                    .iter()
                    .cloned()
                    .filter(|id| {
                        !stacks.iter().flatten().any(|(i, _)| i == id) && !(0..shapes.len()).any(|j| alive[j] && parent[j] == Some(*id))
                    })
                    .collect();
                if closable.is_empty() {
                    let entered: Vec<(usize, usize)> =
                        stacks.iter().enumerate().filter_map(|(u, st)| st.last().map(|(i, _)| (u, *i))).collect();
                    if let Some((u, id)) = entered.first().cloned() {
                        ops.push(POp::Exit { t: u, id });
                        g_pop(&mut stacks[u], id);
                    }
                    continue;
                }
                // prefer the most recent (the leaf of a wide stack) half of the time
                let id = if r.chance(1, 2) { *closable.last().unwrap() } else { *r.pick(&closable) };
                ops.push(POp::Close { t, id });
                alive[id] = false;
            }
        }
    }
    // always end with one emission per thread so every program observes something
    for t in 0..threads {
        ops.push(POp::Emit { t, how: r.below(5), name: r.pick_str(METRIC_NAMES).to_string(), labels: gen_labels(r) });
    }
    let probes = gen_probes(r, &filter);
    Program { filter, threads, layer, comp, ops, probes }
}

// ---------------------------------------------------------------------------------------------
// corpus: the hand-picked shapes of the property text

fn s(x: &str) -> Val {
    Val::Str(x.to_string())
}
fn strs(prefix: &str, n: usize) -> Vec<Val> {
    (0..n).map(|i| Val::Str(format!("{}{}", prefix, i))).collect()
}
fn l(kv: &[(&str, &str)]) -> Vec<(String, String)> {
    kv.iter().map(|(k, v)| (k.to_string(), v.to_string())).collect()
}
fn emit(t: usize, how: usize, name: &str, kv: &[(&str, &str)]) -> POp {
    POp::Emit { t, how, name: name.to_string(), labels: l(kv) }
}
fn new(t: usize, parent: ParSpec, shape: usize, vals: Vec<Val>) -> POp {
    POp::New { t, parent, shape, meta: 0, vals }
}
fn newm(t: usize, parent: ParSpec, shape: usize, meta: usize, vals: Vec<Val>) -> POp {
    POp::New { t, parent, shape, meta, vals }
}

fn corpus() -> Vec<(&'static str, Program)> {
    use POp::*;
    vec![
        (
            "metric>inner>outer",
            Program {
                filter: FilterSpec::All,
                threads: 1,
                layer: true,
                comp: 0,
                probes: vec![],
                ops: vec![
                    new(0, ParSpec::Ctx, 6, vec![s("oa"), s("ob"), s("oc")]),
                    Enter { t: 0, id: 0 },
                    new(0, ParSpec::Ctx, 3, vec![s("ia"), s("ib")]),
                    Enter { t: 0, id: 1 },
                    emit(0, 0, "m", &[("a", "ma"), ("svc", "x")]),
                    Exit { t: 0, id: 1 },
                    emit(0, 1, "m", &[("a", "ma"), ("svc", "x")]),
                    Exit { t: 0, id: 0 },
                    emit(0, 2, "m", &[("a", "ma"), ("svc", "x")]),
                ],
            },
        ),
        (
            "late record on the parent is not seen by an existing child",
            Program {
                filter: FilterSpec::All,
                threads: 1,
                layer: true,
                comp: 0,
                probes: vec![],
                ops: vec![
                    new(0, ParSpec::Ctx, 3, vec![s("pa"), Val::Empty]),
                    Enter { t: 0, id: 0 },
                    new(0, ParSpec::Ctx, 5, vec![Val::Empty, s("cc")]),
                    Rec { t: 0, id: 0, field: "b", val: Val::I64(-5) },
                    Rec { t: 0, id: 0, field: "a", val: Val::U64(u64::MAX) },
                    emit(0, 0, "m", &[]),
                    Enter { t: 0, id: 1 },
                    emit(0, 0, "m", &[]),
                    new(0, ParSpec::Ctx, 0, vec![]),
                    Enter { t: 0, id: 2 },
                    emit(0, 4, "m", &[("c", "mc")]),
                    Rec { t: 0, id: 1, field: "b", val: Val::Bool(true) },
                    emit(0, 0, "m", &[]),
                    Exit { t: 0, id: 2 },
                    emit(0, 0, "m", &[]),
                ],
            },
        ),
        (
            "record replaces an inherited field in place, twice",
            Program {
                filter: FilterSpec::All,
                threads: 1,
                layer: true,
                comp: 0,
                probes: vec![],
                ops: vec![
                    new(0, ParSpec::Root, 4, vec![s("pb"), s("pa")]),
                    new(0, ParSpec::Of(0), 6, vec![Val::Empty, Val::Empty, s("c")]),
                    Enter { t: 0, id: 1 },
                    emit(0, 0, "m", &[]),
                    Rec { t: 0, id: 1, field: "a", val: Val::F64(1.5) },
                    Rec { t: 0, id: 1, field: "a", val: Val::Dbg("q".into()) },
                    Rec { t: 0, id: 1, field: "b", val: Val::Empty },
                    Rec { t: 0, id: 1, field: "b", val: Val::OptU(None) },
                    emit(0, 3, "m", &[("b", "mb"), ("a", "ma")]),
                ],
            },
        ),
        (
            "value-dependent filter rejects the inner value; the outer one must not resurface",
            Program {
                // metric name "m" = 109, key "a" = 97; value "x" = 120 → 326 % 2 = 0 (rejected), "y" = 121 → admitted
                filter: FilterSpec::Custom(2, 0),
                threads: 1,
                layer: true,
                comp: 0,
                probes: vec![],
                ops: vec![
                    new(0, ParSpec::Ctx, 1, vec![s("y")]),
                    Enter { t: 0, id: 0 },
                    emit(0, 0, "m", &[]),
                    new(0, ParSpec::Ctx, 1, vec![s("x")]),
                    Enter { t: 0, id: 1 },
                    emit(0, 0, "m", &[]),
                    emit(0, 0, "m", &[("a", "x")]),
                ],
            },
        ),
        (
            "no span, empty span, all-Empty span: key unchanged even with repeated own names",
            Program {
                filter: FilterSpec::All,
                threads: 1,
                layer: true,
                comp: 0,
                probes: vec![],
                ops: vec![
                    emit(0, 0, "m", &[("a", "1"), ("a", "2")]),
                    new(0, ParSpec::Ctx, 0, vec![]),
                    Enter { t: 0, id: 0 },
                    emit(0, 0, "m", &[("a", "1"), ("a", "2")]),
                    new(0, ParSpec::Ctx, 3, vec![Val::Empty, Val::OptU(None)]),
                    Enter { t: 0, id: 1 },
                    emit(0, 0, "m", &[("a", "1"), ("a", "2")]),
                    Rec { t: 0, id: 1, field: "b", val: s("late") },
                    emit(0, 0, "m", &[("a", "1"), ("a", "2")]),
                    emit(0, 0, "m", &[("a", "1"), ("b", "2")]),
                ],
            },
        ),
        (
            "re-entered span (duplicate stack entry) and out-of-order exit",
            Program {
                filter: FilterSpec::All,
                threads: 1,
                layer: true,
                comp: 0,
                probes: vec![],
                ops: vec![
                    new(0, ParSpec::Root, 1, vec![s("A")]),
                    new(0, ParSpec::Root, 2, vec![s("B")]),
                    Enter { t: 0, id: 0 },
                    Enter { t: 0, id: 1 },
                    Enter { t: 0, id: 0 },
                    emit(0, 0, "m", &[]),
                    Exit { t: 0, id: 1 },
                    emit(0, 0, "m", &[]),
                    Exit { t: 0, id: 0 },
                    emit(0, 0, "m", &[]),
                    Exit { t: 0, id: 1 },
                    Exit { t: 0, id: 0 },
                    emit(0, 0, "m", &[]),
                ],
            },
        ),
        (
            "two threads, own stacks, cross-thread explicit parent",
            Program {
                filter: FilterSpec::All,
                threads: 2,
                layer: true,
                comp: 0,
                probes: vec![],
                ops: vec![
                    new(0, ParSpec::Ctx, 1, vec![s("t0")]),
                    Enter { t: 0, id: 0 },
                    new(1, ParSpec::Ctx, 2, vec![s("t1")]),
                    Enter { t: 1, id: 1 },
                    emit(0, 0, "m", &[]),
                    emit(1, 0, "m", &[]),
                    new(1, ParSpec::Of(0), 5, vec![Val::Empty, s("c1")]),
                    Enter { t: 1, id: 2 },
                    Rec { t: 0, id: 2, field: "b", val: Val::I128(-1) },
                    emit(1, 1, "m", &[("a", "own")]),
                    emit(0, 2, "m", &[("a", "own")]),
                    Exit { t: 0, id: 0 },
                    emit(1, 0, "m", &[]),
                    emit(0, 0, "m", &[]),
                ],
            },
        ),
        (
            "allow-list drops the field the metric also sets; the metric's label is appended",
            Program {
                filter: FilterSpec::Allow(vec!["b".into(), "k.x".into()]),
                threads: 1,
                layer: true,
                comp: 0,
                probes: vec![],
                ops: vec![
                    new(0, ParSpec::Ctx, 10, vec![s("1"), s("2"), s("3"), s("4")]),
                    Enter { t: 0, id: 0 },
                    emit(0, 0, "m", &[("a", "own"), ("k.x", "own")]),
                    emit(0, 0, "m", &[]),
                ],
            },
        ),
        (
            "pool: a wide leaf (40 labels) closes, then field-less spans and a record() reuse the pooled maps",
            Program {
                filter: FilterSpec::All,
                threads: 1,
                layer: true,
                comp: 0,
                probes: vec![],
                ops: vec![
                    new(0, ParSpec::Ctx, 12, strs("va", 20)),
                    Enter { t: 0, id: 0 },
                    new(0, ParSpec::Ctx, 13, strs("vb", 20)),
                    emit(0, 0, "m", &[("a00", "own")]),
                    Close { t: 0, id: 1 },
                    Exit { t: 0, id: 0 },
                    Close { t: 0, id: 0 },
                    new(0, ParSpec::Root, 0, vec![]),
                    new(0, ParSpec::Root, 0, vec![]),
                    new(0, ParSpec::Root, 1, vec![Val::Empty]),
                    new(0, ParSpec::Root, 2, vec![s("fresh")]),
                    Enter { t: 0, id: 2 },
                    emit(0, 0, "m", &[("svc", "x")]),
                    Exit { t: 0, id: 2 },
                    Enter { t: 0, id: 3 },
                    emit(0, 1, "m", &[]),
                    Exit { t: 0, id: 3 },
                    Enter { t: 0, id: 4 },
                    emit(0, 2, "m", &[("a", "1"), ("a", "2")]),
                    Rec { t: 0, id: 4, field: "a", val: s("late") },
                    emit(0, 0, "m", &[]),
                    Exit { t: 0, id: 4 },
                    Enter { t: 0, id: 5 },
                    emit(0, 4, "m", &[]),
                    // a 32-field span alone, closed; then a record() whose temporary comes out of the pool
                    new(0, ParSpec::Root, 15, strs("w", 32)),
                    Close { t: 0, id: 6 },
                    Rec { t: 0, id: 5, field: "b", val: s("again") },
                    new(0, ParSpec::Ctx, 0, vec![]),
                    Enter { t: 0, id: 7 },
                    emit(0, 0, "m", &[]),
                ],
            },
        ),
        (
            "pool: spans closed on one thread, later spans of another thread",
            Program {
                filter: FilterSpec::Allow(vec!["a".into(), "a00".into(), "b07".into()]),
                threads: 2,
                layer: true,
                comp: 0,
                probes: vec![],
                ops: vec![
                    new(1, ParSpec::Ctx, 12, strs("va", 20)),
                    Enter { t: 1, id: 0 },
                    new(1, ParSpec::Ctx, 13, strs("vb", 20)),
                    Enter { t: 1, id: 1 },
                    emit(1, 0, "m", &[]),
                    Exit { t: 1, id: 1 },
                    Exit { t: 1, id: 0 },
                    Close { t: 1, id: 1 },
                    Close { t: 1, id: 0 },
                    new(0, ParSpec::Ctx, 0, vec![]),
                    new(0, ParSpec::Ctx, 0, vec![]),
                    new(0, ParSpec::Ctx, 0, vec![]),
                    Enter { t: 0, id: 2 },
                    emit(0, 0, "m", &[("a", "own")]),
                    Enter { t: 0, id: 3 },
                    emit(0, 0, "m", &[("a", "own")]),
                    Enter { t: 0, id: 4 },
                    emit(0, 0, "m", &[("a", "own")]),
                    emit(1, 0, "m", &[]),
                ],
            },
        ),
        (
            "subscriber without a MetricsLayer: spans have no labels, keys pass unchanged",
            Program {
                filter: FilterSpec::All,
                threads: 1,
                layer: false,
                comp: 0,
                probes: vec![],
                ops: vec![
                    new(0, ParSpec::Ctx, 6, vec![s("oa"), s("ob"), s("oc")]),
                    Enter { t: 0, id: 0 },
                    emit(0, 0, "m", &[("a", "ma")]),
                    Rec { t: 0, id: 0, field: "a", val: s("late") },
                    new(0, ParSpec::Ctx, 1, vec![s("ia")]),
                    Enter { t: 0, id: 1 },
                    emit(0, 4, "m", &[]),
                    Exit { t: 0, id: 1 },
                    Close { t: 0, id: 1 },
                    emit(0, 2, "m", &[("a", "1"), ("a", "2")]),
                ],
            },
        ),
        (
            "allow-list near misses: case, prefix, extension, blank, parent of a dotted name",
            Program {
                filter: FilterSpec::Allow(vec!["A".into(), "k".into(), "a0".into(), " a".into(), "a ".into(), "k.".into(), "".into()]),
                threads: 1,
                layer: true,
                comp: 0,
                probes: vec![],
                ops: vec![
                    new(0, ParSpec::Ctx, 16, vec![s("vA"), s("vab"), s("vk"), s("va")]),
                    Enter { t: 0, id: 0 },
                    emit(0, 0, "m", &[]),
                    new(0, ParSpec::Ctx, 17, vec![s("k2"), s("kx"), s("ab2"), s("a0v")]),
                    Enter { t: 0, id: 1 },
                    emit(0, 0, "m", &[("ab", "own")]),
                    new(0, ParSpec::Ctx, 12, strs("va", 20)),
                    Enter { t: 0, id: 2 },
                    emit(0, 0, "m", &[]),
                ],
            },
        ),
        (
            "allow-list whose longest name is multi-byte (more bytes than any listed name has characters)",
            Program {
                filter: FilterSpec::Allow(vec!["région".into(), "env".into()]),
                threads: 1,
                layer: true,
                comp: 0,
                probes: vec![
                    ("m".into(), "région".into(), "eu".into()),
                    ("m".into(), "region".into(), "eu".into()),
                    ("m".into(), "re\u{301}gion".into(), "eu".into()),
                    ("m".into(), "env".into(), "".into()),
                    ("m".into(), "régio".into(), "x".into()),
                    ("m".into(), "Région".into(), "x".into()),
                ],
                ops: vec![
                    new(0, ParSpec::Ctx, 18, vec![s("eu-west"), s("prod")]),
                    Enter { t: 0, id: 0 },
                    emit(0, 0, "m", &[]),
                    emit(0, 1, "m", &[("env", "own")]),
                    new(0, ParSpec::Ctx, 20, vec![s("k"), Val::Empty, s("b"), s("n")]),
                    Enter { t: 0, id: 1 },
                    emit(0, 2, "m", &[("région", "own")]),
                    Rec { t: 0, id: 1, field: "région", val: s("inner") },
                    emit(0, 0, "m", &[]),
                ],
            },
        ),
        (
            "allow-list with a single CJK name; include-all and a custom filter over the same non-ASCII fields",
            Program {
                filter: FilterSpec::Allow(vec!["地域".into()]),
                threads: 1,
                layer: true,
                comp: 0,
                probes: vec![
                    ("m".into(), "地域".into(), "v".into()),
                    ("m".into(), "地".into(), "v".into()),
                    ("m".into(), "域地".into(), "v".into()),
                    ("m".into(), "地域名".into(), "v".into()),
                    ("m".into(), "abcdef".into(), "v".into()),
                    ("m".into(), "ab".into(), "v".into()),
                ],
                ops: vec![
                    new(0, ParSpec::Ctx, 19, vec![s("kanto"), s("va")]),
                    Enter { t: 0, id: 0 },
                    emit(0, 0, "m", &[]),
                    new(0, ParSpec::Ctx, 21, vec![s("crab"), s("nfd"), s("nfc"), s("ku"), s("chi")]),
                    Enter { t: 0, id: 1 },
                    emit(0, 0, "m", &[("地", "own")]),
                ],
            },
        ),
        (
            "allow-list mixing 1-, 2-, 3- and 4-byte characters; composed and decomposed forms are different names",
            Program {
                filter: FilterSpec::Allow(vec!["🦀".into(), "région".into(), "k.ü".into(), "ñ".into(), "a".into()]),
                threads: 1,
                layer: true,
                comp: 0,
                probes: vec![
                    ("m".into(), "🦀".into(), "v".into()),
                    ("m".into(), "ñ".into(), "v".into()),
                    ("m".into(), "n\u{303}".into(), "v".into()),
                    ("m".into(), "k.ü".into(), "v".into()),
                    ("m".into(), "k.u".into(), "v".into()),
                ],
                ops: vec![
                    new(0, ParSpec::Ctx, 21, vec![s("crab"), s("nfd"), s("nfc"), s("ku"), s("chi")]),
                    Enter { t: 0, id: 0 },
                    emit(0, 0, "m", &[]),
                    new(0, ParSpec::Ctx, 20, vec![s("k"), s("r2"), s("b"), s("n")]),
                    Enter { t: 0, id: 1 },
                    emit(0, 3, "m", &[("ñ", "own")]),
                ],
            },
        ),
        (
            "per-layer filter: emission inside a hidden span; its child inherits from the closest enabled ancestor as it is then",
            Program {
                filter: FilterSpec::All,
                threads: 1,
                layer: true,
                comp: 3,
                probes: vec![],
                ops: vec![
                    newm(0, ParSpec::Ctx, 3, 0, vec![s("oa"), Val::Empty]),
                    Enter { t: 0, id: 0 },
                    newm(0, ParSpec::Ctx, 5, 1, vec![s("hb"), s("hc")]),
                    Enter { t: 0, id: 1 },
                    emit(0, 0, "m", &[("svc", "x")]),
                    Rec { t: 0, id: 0, field: "b", val: s("late") },
                    Rec { t: 0, id: 1, field: "c", val: s("never") },
                    newm(0, ParSpec::Ctx, 7, 2, vec![s("cc"), Val::Empty]),
                    Enter { t: 0, id: 2 },
                    emit(0, 1, "m", &[("a", "own")]),
                    Event { t: 0, parent: ParSpec::Ctx, es: 0, vals: vec![s("ea"), s("eb")] },
                    Follows { t: 0, id: 2, other: 0 },
                    emit(0, 2, "m", &[]),
                    newm(0, ParSpec::Of(1), 1, 3, vec![s("deep")]),
                    newm(0, ParSpec::Of(3), 2, 0, vec![Val::Empty]),
                    Exit { t: 0, id: 2 },
                    Enter { t: 0, id: 4 },
                    emit(0, 0, "m", &[]),
                ],
            },
        ),
        (
            "per-layer filters by span name and by target, layers below and above",
            Program {
                filter: FilterSpec::Allow(vec!["a".into(), "c".into()]),
                threads: 1,
                layer: true,
                comp: 5,
                probes: vec![],
                ops: vec![
                    newm(0, ParSpec::Ctx, 6, 1, vec![s("oa"), s("ob"), s("oc")]),
                    Enter { t: 0, id: 0 },
                    newm(0, ParSpec::Ctx, 1, 3, vec![s("hidden")]),
                    Enter { t: 0, id: 1 },
                    emit(0, 0, "m", &[]),
                    newm(0, ParSpec::Ctx, 2, 2, vec![s("ib")]),
                    Enter { t: 0, id: 2 },
                    emit(0, 0, "m", &[("c", "own")]),
                ],
            },
        ),
        (
            "global level filter: a disabled span is no span (enter, record, parent of it do nothing)",
            Program {
                filter: FilterSpec::All,
                threads: 1,
                layer: true,
                comp: 2,
                probes: vec![],
                ops: vec![
                    newm(0, ParSpec::Ctx, 3, 2, vec![s("oa"), s("ob")]),
                    Enter { t: 0, id: 0 },
                    newm(0, ParSpec::Ctx, 5, 3, vec![s("xb"), s("xc")]),
                    Enter { t: 0, id: 1 },
                    Rec { t: 0, id: 1, field: "b", val: s("r") },
                    emit(0, 0, "m", &[]),
                    newm(0, ParSpec::Ctx, 7, 0, vec![s("cc"), Val::Empty]),
                    newm(0, ParSpec::Of(1), 1, 0, vec![s("root?")]),
                    Event { t: 0, parent: ParSpec::Of(1), es: 1, vals: vec![s("1"), s("2"), s("3")] },
                    Exit { t: 0, id: 1 },
                    Enter { t: 0, id: 3 },
                    emit(0, 0, "m", &[]),
                    Close { t: 0, id: 1 },
                    emit(0, 0, "m", &[]),
                ],
            },
        ),
        (
            "a filtered MetricsLayer alone: what it turns down nobody wants",
            Program {
                filter: FilterSpec::All,
                threads: 2,
                layer: true,
                comp: 6,
                probes: vec![],
                ops: vec![
                    newm(0, ParSpec::Ctx, 1, 0, vec![s("oa")]),
                    Enter { t: 0, id: 0 },
                    newm(0, ParSpec::Ctx, 2, 1, vec![s("xb")]),
                    Enter { t: 0, id: 1 },
                    newm(1, ParSpec::Of(1), 5, 2, vec![s("b1"), s("c1")]),
                    Enter { t: 1, id: 2 },
                    emit(0, 0, "m", &[]),
                    emit(1, 0, "m", &[]),
                ],
            },
        ),
        (
            "events with the span's field names, follows_from a span with other fields, layers below and above",
            Program {
                filter: FilterSpec::All,
                threads: 1,
                layer: true,
                comp: 1,
                probes: vec![],
                ops: vec![
                    newm(0, ParSpec::Ctx, 3, 2, vec![s("sa"), Val::Empty]),
                    newm(0, ParSpec::Root, 9, 3, vec![s("fc"), s("fk"), s("fb")]),
                    Enter { t: 0, id: 0 },
                    Event { t: 0, parent: ParSpec::Ctx, es: 0, vals: vec![s("event-a"), s("event-b")] },
                    Event { t: 0, parent: ParSpec::Of(1), es: 1, vals: vec![s("e1"), s("e2"), s("e3")] },
                    Event { t: 0, parent: ParSpec::Root, es: 2, vals: vec![s("e1"), s("e2")] },
                    emit(0, 0, "m", &[]),
                    Follows { t: 0, id: 0, other: 1 },
                    emit(0, 0, "m", &[]),
                    Follows { t: 0, id: 0, other: 0 },
                    new(0, ParSpec::Ctx, 0, vec![]),
                    Enter { t: 0, id: 2 },
                    emit(0, 0, "m", &[("zz", "own")]),
                ],
            },
        ),
        (
            "values of thousands of bytes, errors, byte strings, integers at the ends of 128 bits",
            Program {
                filter: FilterSpec::All,
                threads: 1,
                layer: true,
                comp: 0,
                probes: vec![],
                ops: vec![
                    new(0, ParSpec::Ctx, 10, vec![s(&"x".repeat(257)), Val::Dbg("é".repeat(300)), Val::Disp("日本".repeat(2000)), Val::Err("boom: ".repeat(100))]),
                    Enter { t: 0, id: 0 },
                    emit(0, 0, "m", &[]),
                    Rec { t: 0, id: 0, field: "a", val: Val::Bytes(vec![0, 1, 0xfe, 0xff]) },
                    Rec { t: 0, id: 0, field: "b", val: Val::I128(i128::MIN) },
                    Rec { t: 0, id: 0, field: "c", val: Val::U128(u128::MAX) },
                    Rec { t: 0, id: 0, field: "k.x", val: Val::Str("🦀".repeat(1024)) },
                    emit(0, 2, "m", &[("a", "own")]),
                ],
            },
        ),
        (
            "a field name twice in one span",
            Program {
                filter: FilterSpec::Allow(vec![]),
                threads: 1,
                layer: true,
                comp: 0,
                probes: vec![],
                ops: vec![
                    new(0, ParSpec::Ctx, 11, vec![s("first"), s("second")]),
                    Enter { t: 0, id: 0 },
                    emit(0, 0, "m", &[("z", "1")]),
                    new(0, ParSpec::Ctx, 11, vec![s("first"), Val::Empty]),
                    Rec { t: 0, id: 1, field: "a", val: s("third") },
                ],
            },
        ),
    ]
}

pub fn run(cfg: &Cfg, out: &mut Out) {
    for (tag, prog) in corpus() {
        out.case(&format!("corpus {}", tag.replace(' ', "_")));
        out.count("corpus");
        let (res, em) = run_logged(&prog, out);
        for t in 0..prog.threads {
            if prog.threads > 1 {
                check_thread_independence(&prog, &res, &em, t, out);
            }
        }
    }
    let root = Rng::new(cfg.seed);
    for i in 0..cfg.cases {
        let mut r = root.fork(i as u64);
        out.case(&format!("seed={} i={}", cfg.seed, i));
        let prog = gen_program(&mut r, cfg.thorough);
        for op in &prog.ops {
            match op {
                POp::Event { .. } => out.count("event"),
                POp::Follows { .. } => out.count("follows_from"),
                POp::New { parent, vals, shape, meta, .. } => {
                    out.count(&format!("span metadata: {:?}", METAS[*meta]));
                    out.count(match parent {
                        ParSpec::Ctx => "new:contextual",
                        ParSpec::Root => "new:root",
                        ParSpec::Of(_) => "new:explicit-parent",
                    });
                    for v in vals {
                        out.count(&format!("value:{}", v.kind()));
                        if v.rendered().map_or(false, |x| x.len() >= 256) {
                            out.count("value of 256 bytes or more");
                        }
                    }
                    if WIDE_SHAPES.contains(shape) {
                        out.count("new:wide shape (20-32 fields)");
                    }
                    if NEAR_SHAPES.contains(shape) {
                        out.count("new:near-miss names");
                    }
                    if UNI_SHAPES.contains(shape) {
                        out.count("new:non-ASCII field names");
                    }
                }
                POp::Rec { val, .. } => {
                    out.count("record");
                    out.count(&format!("value:{}", val.kind()));
                }
                POp::Enter { .. } => out.count("enter"),
                POp::Exit { .. } => out.count("exit"),
                POp::Close { .. } => out.count("close (handle dropped, span closes)"),
                POp::Emit { labels, .. } => {
                    out.count("emit");
                    if !distinct_names(labels) {
                        out.count("emit:repeated-own-name");
                    }
                }
            }
        }
        let (res, em) = run_logged(&prog, out);
        if prog.threads > 1 && (cfg.thorough || i % 3 == 0) {
            let t = r.below(prog.threads);
            check_thread_independence(&prog, &res, &em, t, out);
        }
    }
}

// ---------------------------------------------------------------------------------------------
// concurrent stream: two threads record() different fields on ONE span at overlapping times.
//
// The overlap is forced without any hook in the crate: the value thread A records renders through a `Debug`
// impl of the harness that signals "A is inside record()" and waits until thread B has completed its own
// record() on the same span (bounded wait).  Whatever the layer does between reading the span's labels and
// writing them back happens around that rendering, so a read-copy-then-swap implementation loses B's field.
// The property: a record() replaces only the fields it names; afterwards both fields are visible to metrics
// emitted in the span and to children created from it.

struct Gate {
    state: Mutex<(bool, bool)>, // (A is rendering, B is done)
    cv: std::sync::Condvar,
}

struct SlowDebug {
    gate: Arc<Gate>,
    text: &'static str,
}

impl std::fmt::Debug for SlowDebug {
    fn fmt(&self, f: &mut std::fmt::Formatter<'_>) -> std::fmt::Result {
        {
            let mut st = self.gate.state.lock().unwrap();
            st.0 = true;
            self.gate.cv.notify_all();
            let deadline = std::time::Instant::now() + std::time::Duration::from_millis(1500);
            while !st.1 {
                let now = std::time::Instant::now();
                if now >= deadline {
                    break;
                }
                let (g, _) = self.gate.cv.wait_timeout(st, deadline - now).unwrap();
                st = g;
            }
        }
        f.write_str(self.text)
    }
}

pub fn run_concurrent(cfg: &Cfg, out: &mut Out) {
    // (shape, field recorded by A (slow), field recorded by B, other fields with initial values)
    let shapes: &[(usize, &str, &str)] = &[(6, "a", "b"), (6, "b", "c"), (6, "c", "a"), (3, "a", "b"), (4, "b", "a"), (10, "a", "k.x"), (10, "k.x", "c")];
    let rounds = if cfg.thorough { 6 } else { 2 };
    for round in 0..rounds {
        for (si, (shape, fa, fb)) in shapes.iter().enumerate() {
            for with_child in [false, true] {
                out.case(&format!("concurrent record round={} shape={} A={} B={} child={}", round, shape, fa, fb, with_child));
                out.count("concurrent record cases");
                let log = Arc::new(Mutex::new(Vec::new()));
                let subscriber = tracing_subscriber::registry().with(MetricsLayer::new());
                let dispatch = Dispatch::new(subscriber);
                let recorder = TracingContextLayer::all().layer(LogRecorder { log: log.clone() });
                let names = SHAPES[*shape];
                let init: Vec<Val> = names.iter().enumerate().map(|(i, _)| if (i + si + round) % 2 == 0 { Val::Empty } else { Val::Str(format!("init{}", i)) }).collect();
                let span = tracing::dispatcher::with_default(&dispatch, || {
                    let boxes: Vec<Box<dyn Value>> = init.iter().map(|v| v.boxed()).collect();
                    let refs: Vec<&dyn Value> = boxes.iter().map(|b| &**b).collect();
                    make_span(*shape, (si + round) % 3, Par::Root, &refs)
                });
                let gate = Arc::new(Gate { state: Mutex::new((false, false)), cv: std::sync::Condvar::new() });
                let t0 = std::time::Instant::now();
                std::thread::scope(|sc| {
                    let (d1, s1, g1) = (dispatch.clone(), span.clone(), gate.clone());
                    let fa = *fa;
                    sc.spawn(move || {
                        tracing::dispatcher::with_default(&d1, || {
                            s1.record(fa, tracing::field::debug(SlowDebug { gate: g1, text: "fromA" }));
                        })
                    });
                    let (d2, s2, g2) = (dispatch.clone(), span.clone(), gate.clone());
                    let fb = *fb;
                    sc.spawn(move || {
                        tracing::dispatcher::with_default(&d2, || {
                            {
                                let mut st = g2.state.lock().unwrap();
                                let deadline = std::time::Instant::now() + std::time::Duration::from_millis(1500);
                                while !st.0 {
                                    let now = std::time::Instant::now();
                                    if now >= deadline {
                                        break;
                                    }
                                    let (g, _) = g2.cv.wait_timeout(st, deadline - now).unwrap();
                                    st = g;
                                }
                            }
                            s2.record(fb, "fromB");
                            let mut st = g2.state.lock().unwrap();
                            st.1 = true;
                            g2.cv.notify_all();
                        })
                    });
                });
                if t0.elapsed() > std::time::Duration::from_millis(1400) {
                    out.count("concurrent record: B could not finish while A was rendering (serialised)");
                } else {
                    out.nontrivial();
                }
                // expected: initial values, then both records applied to their own field only
                let mut expect: BTreeMap<String, String> = BTreeMap::new();
                for (n, v) in names.iter().zip(init.iter()) {
                    if let Some(r) = v.rendered() {
                        expect.insert(n.to_string(), r);
                    }
                }
                expect.insert(fa.to_string(), "fromA".to_string());
                expect.insert(fb.to_string(), "fromB".to_string());
                let got_span: BTreeMap<String, String> = span_map(&dispatch, &span).unwrap_or_default().into_iter().collect();
                if got_span != expect {
                    out.oracle_fail(
                        "two threads recorded different fields on one span at overlapping times and a field was lost or changed",
                        &format!("shape {:?} initial {:?}; A: record({}, slow Debug → fromA) overlapping B: record({}, fromB); span labels afterwards {:?}, expected {:?}", names, init, fa, fb, got_span, expect),
                    );
                }
                // what a metric emitted inside the span (or inside a child created now) is labelled with
                let emitted: Vec<Logged> = tracing::dispatcher::with_default(&dispatch, || {
                    metrics::with_local_recorder(&recorder, || {
                        let target = if with_child { tracing::span!(parent: &span, tracing::Level::INFO, "child") } else { span.clone() };
                        let _e = target.enter();
                        metrics::counter!("m").increment(1);
                    });
                    log.lock().unwrap().clone()
                });
                let labels: BTreeMap<String, String> = emitted.last().map(|l| l.labels.iter().cloned().collect()).unwrap_or_default();
                if labels != expect {
                    out.oracle_fail(
                        "a metric emitted after two overlapping record() calls on its span lacks a recorded field",
                        &format!("shape {:?} A={} B={} child={} labels {:?} expected {:?}", names, fa, fb, with_child, labels, expect),
                    );
                }
            }
        }
    }
}
