//! C13 — layers deliver exactly the transformed operations to exactly the right recorders.
//!
//! Every case builds a REAL tree of `Stack`s / `Prefix` / `Filter` / `Router` / `Fanout` over logging
//! base recorders (which record every describe / register with all fields and every call on the handles
//! they return), sends describe / register / handle-update operations into the top and
//!   * writes each operation as a `layers …` line for the Lean model (`Driver/Layers.lean`) together with
//!     what each base recorder received (grouped per base, in order of reception);
//!   * checks what was received with an implementation-side oracle written from the property text
//!     (string concatenation, `str::contains` after `to_ascii_lowercase`, brute-force longest prefix over
//!     the route list, "every recorder once"), independent of the model and of aho-corasick / radix_trie.
//!
//! Round 2: besides finished `(patterns, ci)` filters the trees contain `FilterLayer`s made by arbitrary chains
//! of the real builder calls (`default()` / `from_patterns`, `add_pattern`, `case_insensitive`, `use_dfa`; tree
//! node `G`, stack layer `G`), ONE `FilterLayer` / `PrefixLayer` value applied several times with builder calls
//! in between (`MG` / `MP`), prefixes with dots / blanks at the ends, route tables derived from one another
//! (siblings, children), op names derived from the tree's own routes and patterns, bursts of recurring calls on
//! one handle (also through clones), sizes beyond every small constant (record_many up to 2^20, names of
//! kilobytes, 40 routes, 24 fan-out children, 130 patterns), and two small-scope enumerations (`enum_router`,
//! `enum_updates`).  Answers to `u` ops are run-length encoded (`<ev>*k`).
#![allow(dead_code)]

use crate::c08::{unit_tok, UNITS};
use crate::util::*;
use metrics::{
    Counter, CounterFn, Gauge, GaugeFn, Histogram, HistogramFn, Key, KeyName, Label, Level, Metadata, Recorder,
    SharedString, Unit,
};
use metrics_util::layers::{FanoutBuilder, FilterLayer, Layer, PrefixLayer, RouterBuilder, Stack};
use metrics_util::MetricKindMask;
use std::collections::BTreeMap;
use std::sync::{Arc, Mutex};

// ---------------------------------------------------------------------------------------------
// logging doubles

/// (calling thread — `usize::MAX` outside the concurrent streams —, base recorder, event), in real-time order
type Log = Arc<Mutex<Vec<(usize, usize, String)>>>;

thread_local! {
    /// the client thread number of the concurrent streams
    static TID: std::cell::Cell<usize> = std::cell::Cell::new(usize::MAX);
}

/// Every call INTO a base recorder (or a handle made by one) is a yield point of the deterministic scheduler:
/// the calling thread parks in front of it (no-op when no scheduler is installed).
fn log_push(log: &Log, id: usize, ev: String) {
    metrics::verif::point("c13.base");
    let t = TID.with(|t| t.get());
    // free-running client threads write to a private buffer (flushed when the thread ends): no lock in the doubles,
    // so that the threads really overlap inside the layers' code
    let buffered = TBUF.with(|b| match b.borrow_mut().as_mut() {
        Some(v) => {
            v.push((t, id, ev.clone()));
            true
        }
        None => false,
    });
    if !buffered {
        log.lock().unwrap().push((t, id, ev));
    }
}

thread_local! {
    static TBUF: std::cell::RefCell<Option<Vec<(usize, usize, String)>>> = std::cell::RefCell::new(None);
}
type BoxRec = Box<dyn Recorder + Sync>;

const KINDS: [&str; 3] = ["c", "g", "h"];

fn level_idx(l: &Level) -> usize {
    [Level::TRACE, Level::DEBUG, Level::INFO, Level::WARN, Level::ERROR].iter().position(|x| x == l).unwrap()
}
fn meta_tok(m: &Metadata<'_>) -> String {
    format!("{}+{}+{}", hexs(m.target()), level_idx(m.level()), opt_hexs(m.module_path()))
}
fn key_labels(key: &Key) -> Vec<(String, String)> {
    key.labels().map(|l| (l.key().to_string(), l.value().to_string())).collect()
}

struct LogRec {
    id: usize,
    log: Log,
}

impl LogRec {
    fn describe(&self, kind: usize, name: KeyName, unit: Option<Unit>, desc: SharedString) {
        let ev = format!("D/{}/{}/{}/{}", KINDS[kind], hexs(name.as_str()), unit_tok(unit), hexs(desc.as_ref()));
        log_push(&self.log, self.id, ev);
    }
    fn register(&self, kind: usize, key: &Key, m: &Metadata<'_>) -> Arc<LogHandle> {
        let desc = format!("{}/{}/{}/{}", KINDS[kind], hexs(key.name()), pairs(&key_labels(key)), meta_tok(m));
        log_push(&self.log, self.id, format!("R/{}", desc));
        Arc::new(LogHandle { id: self.id, log: self.log.clone(), desc })
    }
}

impl Recorder for LogRec {
    fn describe_counter(&self, n: KeyName, u: Option<Unit>, d: SharedString) {
        self.describe(0, n, u, d)
    }
    fn describe_gauge(&self, n: KeyName, u: Option<Unit>, d: SharedString) {
        self.describe(1, n, u, d)
    }
    fn describe_histogram(&self, n: KeyName, u: Option<Unit>, d: SharedString) {
        self.describe(2, n, u, d)
    }
    fn register_counter(&self, key: &Key, m: &Metadata<'_>) -> Counter {
        Counter::from_arc(self.register(0, key, m))
    }
    fn register_gauge(&self, key: &Key, m: &Metadata<'_>) -> Gauge {
        Gauge::from_arc(self.register(1, key, m))
    }
    fn register_histogram(&self, key: &Key, m: &Metadata<'_>) -> Histogram {
        Histogram::from_arc(self.register(2, key, m))
    }
}

struct LogHandle {
    id: usize,
    log: Log,
    desc: String,
}
impl LogHandle {
    fn push(&self, upd: String) {
        log_push(&self.log, self.id, format!("U/{}/{}", self.desc, upd));
    }
}
impl CounterFn for LogHandle {
    fn increment(&self, v: u64) {
        self.push(format!("ci{}", v))
    }
    fn absolute(&self, v: u64) {
        self.push(format!("ca{}", v))
    }
}
impl GaugeFn for LogHandle {
    fn increment(&self, v: f64) {
        self.push(format!("gi{}", v.to_bits()))
    }
    fn decrement(&self, v: f64) {
        self.push(format!("gd{}", v.to_bits()))
    }
    fn set(&self, v: f64) {
        self.push(format!("gs{}", v.to_bits()))
    }
}
impl HistogramFn for LogHandle {
    fn record(&self, v: f64) {
        self.push(format!("hr{}", v.to_bits()))
    }
    fn record_many(&self, v: f64, count: usize) {
        self.push(format!("hm{}x{}", v.to_bits(), count))
    }
}

// ---------------------------------------------------------------------------------------------
// recorder trees

/// how a `FilterLayer` value comes into being
#[derive(Clone, Debug)]
enum FInit {
    /// `FilterLayer::default()`
    Default,
    /// `FilterLayer::from_patterns(..)`
    From(Vec<String>),
}
/// one `&mut self` builder call on a `FilterLayer`
#[derive(Clone, Debug)]
enum FOp {
    Add(String),
    Ci(bool),
    Dfa(bool),
}
/// a `FilterLayer` built by an arbitrary chain of builder calls (no call, repeated setters, add_pattern …)
#[derive(Clone, Debug)]
struct FChain {
    init: FInit,
    ops: Vec<FOp>,
}
/// a step in the life of ONE `FilterLayer` value: a builder call or `.layer(inner)`
#[derive(Clone, Debug)]
enum LStep {
    Cfg(FOp),
    Layer(Tree),
}

#[derive(Clone, Debug)]
enum LayerSpec {
    P(String),
    F { ci: bool, dfa: bool, pats: Vec<String> },
    G(FChain),
}

#[derive(Clone, Debug)]
enum Tree {
    Base(usize),
    P(String, Box<Tree>),
    F { ci: bool, dfa: bool, pats: Vec<String>, inner: Box<Tree> },
    /// `Stack::new(inner).push(l₁)…push(lₙ)`
    S(Vec<LayerSpec>, Box<Tree>),
    /// mask: 0 counter, 1 gauge, 2 histogram, 3 ALL
    R { dflt: Box<Tree>, routes: Vec<(u8, String, Tree)> },
    N(Vec<Tree>),
    /// a `FilterLayer` built by a chain of builder calls, applied once
    G(FChain, Box<Tree>),
    /// ONE `FilterLayer` value changed and applied several times; the results are collected into a `Fanout`
    MG { init: FInit, steps: Vec<LStep> },
    /// ONE `PrefixLayer` value applied to several recorders; the results are collected into a `Fanout`
    MP(String, Vec<Tree>),
}

const MASKS: [&str; 4] = ["c", "g", "h", "a"];

fn filter_tok(ci: bool, dfa: bool, pats: &[String]) -> String {
    let mut s = format!("f/{}/{}/{}", ci as u8, dfa as u8, pats.len());
    for p in pats {
        s.push('/');
        s.push_str(&hexs(p));
    }
    s
}

impl FInit {
    fn tok(&self) -> String {
        match self {
            FInit::Default => "d".into(),
            FInit::From(pats) => {
                let mut s = format!("f/{}", pats.len());
                for p in pats {
                    s.push('/');
                    s.push_str(&hexs(p));
                }
                s
            }
        }
    }
}
impl FOp {
    fn tok(&self) -> String {
        match self {
            FOp::Add(p) => format!("a/{}", hexs(p)),
            FOp::Ci(b) => format!("c/{}", *b as u8),
            FOp::Dfa(b) => format!("u/{}", *b as u8),
        }
    }
}
impl FChain {
    fn tok(&self) -> String {
        let mut s = format!("g/{}/{}", self.init.tok(), self.ops.len());
        for o in &self.ops {
            s.push('/');
            s.push_str(&o.tok());
        }
        s
    }
}

/// reference semantics of the builder, from the documentation: `from_patterns` keeps the patterns it is given
/// and is case sensitive ("Defaults to `false` i.e. searches are case sensitive"), `default()` has no pattern
/// and is case sensitive, `add_pattern` "adds a pattern to match", `case_insensitive(b)` "sets the case
/// sensitivity", `use_dfa` has no influence on what matches.  Returns (patterns, case_insensitive).
struct RefCfg {
    pats: Vec<String>,
    ci: bool,
}
impl RefCfg {
    fn new(init: &FInit) -> RefCfg {
        match init {
            FInit::Default => RefCfg { pats: vec![], ci: false },
            FInit::From(p) => RefCfg { pats: p.clone(), ci: false },
        }
    }
    fn apply(&mut self, op: &FOp) {
        match op {
            FOp::Add(p) => self.pats.push(p.clone()),
            FOp::Ci(b) => self.ci = *b,
            FOp::Dfa(_) => {}
        }
    }
    fn of_chain(ch: &FChain) -> RefCfg {
        let mut c = RefCfg::new(&ch.init);
        for o in &ch.ops {
            c.apply(o);
        }
        c
    }
}

impl LayerSpec {
    fn tok(&self) -> String {
        match self {
            LayerSpec::P(p) => format!("p/{}", hexs(p)),
            LayerSpec::F { ci, dfa, pats } => filter_tok(*ci, *dfa, pats),
            LayerSpec::G(ch) => ch.tok(),
        }
    }
}

impl Tree {
    fn tok(&self) -> String {
        match self {
            Tree::Base(id) => format!("b/{}", id),
            Tree::P(p, t) => format!("p/{}/{}", hexs(p), t.tok()),
            Tree::F { ci, dfa, pats, inner } => format!("{}/{}", filter_tok(*ci, *dfa, pats), inner.tok()),
            Tree::S(ls, t) => {
                let mut s = format!("s/{}", ls.len());
                for l in ls {
                    s.push('/');
                    s.push_str(&l.tok());
                }
                format!("{}/{}", s, t.tok())
            }
            Tree::R { dflt, routes } => {
                let mut s = format!("r/{}/{}", routes.len(), dflt.tok());
                for (m, p, t) in routes {
                    s.push_str(&format!("/{}/{}/{}", MASKS[*m as usize], hexs(p), t.tok()));
                }
                s
            }
            Tree::N(ts) => {
                let mut s = format!("n/{}", ts.len());
                for t in ts {
                    s.push('/');
                    s.push_str(&t.tok());
                }
                s
            }
            Tree::G(ch, t) => format!("{}/{}", ch.tok(), t.tok()),
            Tree::MG { init, steps } => {
                let mut s = format!("m/g/{}/{}", init.tok(), steps.len());
                for st in steps {
                    s.push('/');
                    match st {
                        LStep::Cfg(o) => s.push_str(&o.tok()),
                        LStep::Layer(t) => {
                            s.push_str("l/");
                            s.push_str(&t.tok())
                        }
                    }
                }
                s
            }
            Tree::MP(p, ts) => {
                let mut s = format!("m/p/{}/{}", hexs(p), ts.len());
                for t in ts {
                    s.push('/');
                    s.push_str(&t.tok());
                }
                s
            }
        }
    }
    /// the subtrees a `MG` node applies its layer value to
    fn mg_inners(steps: &[LStep]) -> Vec<&Tree> {
        steps.iter().filter_map(|s| if let LStep::Layer(t) = s { Some(t) } else { None }).collect()
    }
    fn bases(&self, acc: &mut Vec<usize>) {
        match self {
            Tree::Base(id) => acc.push(*id),
            Tree::P(_, t) | Tree::S(_, t) | Tree::G(_, t) => t.bases(acc),
            Tree::F { inner, .. } => inner.bases(acc),
            Tree::MG { steps, .. } => {
                for t in Tree::mg_inners(steps) {
                    t.bases(acc);
                }
            }
            Tree::MP(_, ts) => {
                for t in ts {
                    t.bases(acc);
                }
            }
            Tree::R { dflt, routes } => {
                dflt.bases(acc);
                for (_, _, t) in routes {
                    t.bases(acc);
                }
            }
            Tree::N(ts) => {
                for t in ts {
                    t.bases(acc);
                }
            }
        }
    }
    fn depth(&self) -> usize {
        match self {
            Tree::Base(_) => 0,
            Tree::P(_, t) | Tree::S(_, t) | Tree::G(_, t) => 1 + t.depth(),
            Tree::F { inner, .. } => 1 + inner.depth(),
            Tree::MG { steps, .. } => 2 + Tree::mg_inners(steps).iter().map(|t| t.depth()).max().unwrap_or(0),
            Tree::MP(_, ts) => 2 + ts.iter().map(|t| t.depth()).max().unwrap_or(0),
            Tree::R { dflt, routes } => 1 + routes.iter().map(|r| r.2.depth()).chain([dflt.depth()]).max().unwrap(),
            Tree::N(ts) => 1 + ts.iter().map(|t| t.depth()).max().unwrap_or(0),
        }
    }
    fn kinds(&self, acc: &mut [usize; 6]) {
        match self {
            Tree::Base(_) => {}
            Tree::P(_, t) => {
                acc[0] += 1;
                t.kinds(acc)
            }
            Tree::F { inner, .. } => {
                acc[1] += 1;
                inner.kinds(acc)
            }
            Tree::S(_, t) => {
                acc[2] += 1;
                t.kinds(acc)
            }
            Tree::R { dflt, routes } => {
                acc[3] += 1;
                dflt.kinds(acc);
                for r in routes {
                    r.2.kinds(acc);
                }
            }
            Tree::N(ts) => {
                acc[4] += 1;
                for t in ts {
                    t.kinds(acc);
                }
            }
            Tree::G(_, t) => {
                acc[1] += 1;
                t.kinds(acc)
            }
            Tree::MG { steps, .. } => {
                acc[1] += 1;
                acc[5] += 1;
                for t in Tree::mg_inners(steps) {
                    t.kinds(acc);
                }
            }
            Tree::MP(_, ts) => {
                acc[0] += 1;
                acc[5] += 1;
                for t in ts {
                    t.kinds(acc);
                }
            }
        }
    }
}

fn filter_layer(ci: bool, dfa: bool, pats: &[String]) -> FilterLayer {
    let mut f = FilterLayer::from_patterns(pats.iter());
    f.case_insensitive(ci).use_dfa(dfa);
    f
}

fn init_layer(init: &FInit) -> FilterLayer {
    match init {
        FInit::Default => FilterLayer::default(),
        FInit::From(pats) => FilterLayer::from_patterns(pats.iter()),
    }
}
fn apply_fop(f: &mut FilterLayer, op: &FOp) {
    match op {
        FOp::Add(p) => {
            f.add_pattern(p);
        }
        FOp::Ci(b) => {
            f.case_insensitive(*b);
        }
        FOp::Dfa(b) => {
            f.use_dfa(*b);
        }
    }
}
/// the real `FilterLayer` after the real builder calls of the chain (nothing is set that the chain does not set)
fn chain_layer(ch: &FChain) -> FilterLayer {
    let mut f = init_layer(&ch.init);
    for o in &ch.ops {
        apply_fop(&mut f, o);
    }
    f
}

// A layer list becomes ONE statically typed `Stack<…>` for up to four pushes; longer lists continue on a
// `Stack` over the boxed stack built so far (a generic recursion must end somewhere).
macro_rules! push_fn {
    ($name:ident, $next:ident) => {
        fn $name<R: Recorder + Sync + 'static>(st: Stack<R>, layers: &[LayerSpec]) -> BoxRec {
            match layers.split_first() {
                None => Box::new(st),
                Some((LayerSpec::P(p), rest)) => $next(st.push(PrefixLayer::new(p.clone())), rest),
                Some((LayerSpec::F { ci, dfa, pats }, rest)) => $next(st.push(filter_layer(*ci, *dfa, pats)), rest),
                Some((LayerSpec::G(ch), rest)) => $next(st.push(chain_layer(ch)), rest),
            }
        }
    };
}
push_fn!(push4, push3);
push_fn!(push3, push2);
push_fn!(push2, push1);
push_fn!(push1, push0);
fn push0<R: Recorder + Sync + 'static>(st: Stack<R>, layers: &[LayerSpec]) -> BoxRec {
    if layers.is_empty() {
        Box::new(st)
    } else {
        push4(Stack::new(Box::new(st) as BoxRec), layers)
    }
}

fn mask_of(m: u8) -> MetricKindMask {
    match m {
        0 => MetricKindMask::COUNTER,
        1 => MetricKindMask::GAUGE,
        2 => MetricKindMask::HISTOGRAM,
        _ => MetricKindMask::ALL,
    }
}

fn build(t: &Tree, log: &Log) -> BoxRec {
    match t {
        Tree::Base(id) => Box::new(LogRec { id: *id, log: log.clone() }),
        Tree::P(p, inner) => Box::new(PrefixLayer::new(p.clone()).layer(build(inner, log))),
        Tree::F { ci, dfa, pats, inner } => Box::new(filter_layer(*ci, *dfa, pats).layer(build(inner, log))),
        Tree::S(layers, inner) => push4(Stack::new(build(inner, log)), layers),
        Tree::R { dflt, routes } => {
            let mut b = RouterBuilder::from_recorder(build(dflt, log));
            for (m, p, t) in routes {
                b.add_route(mask_of(*m), p, build(t, log));
            }
            Box::new(b.build())
        }
        Tree::N(ts) => {
            let mut b = FanoutBuilder::default();
            for t in ts {
                b = b.add_recorder(build(t, log));
            }
            Box::new(b.build())
        }
        Tree::G(ch, inner) => Box::new(chain_layer(ch).layer(build(inner, log))),
        Tree::MG { init, steps } => {
            // one layer value: changed, applied, changed again, applied again …
            let mut f = init_layer(init);
            let mut b = FanoutBuilder::default();
            for st in steps {
                match st {
                    LStep::Cfg(o) => apply_fop(&mut f, o),
                    LStep::Layer(t) => b = b.add_recorder(f.layer(build(t, log))),
                }
            }
            Box::new(b.build())
        }
        Tree::MP(p, ts) => {
            let l = PrefixLayer::new(p.clone());
            let mut b = FanoutBuilder::default();
            for t in ts {
                b = b.add_recorder(l.layer(build(t, log)));
            }
            Box::new(b.build())
        }
    }
}

// ---------------------------------------------------------------------------------------------
// implementation-side oracle (from the property text; no model, no trie, no automaton)

type Got = BTreeMap<usize, Vec<String>>;

fn silent(t: &Tree, got: &Got) -> Result<(), String> {
    let mut bs = vec![];
    t.bases(&mut bs);
    for b in bs {
        if got.get(&b).map_or(false, |v| !v.is_empty()) {
            return Err(format!("base {} must receive nothing but received {:?}", b, got[&b]));
        }
    }
    Ok(())
}

fn pat_matches(pats: &[String], ci: bool, name: &str) -> bool {
    pats.iter().any(|p| {
        if ci {
            name.to_ascii_lowercase().contains(&p.to_ascii_lowercase())
        } else {
            name.contains(p.as_str())
        }
    })
}

fn mask_covers(m: u8, kind: usize) -> bool {
    m == 3 || m as usize == kind
}

/// brute force: indices of the routes for `kind` whose pattern is a prefix of `name` and of maximal length
fn longest_routes(routes: &[(u8, String, Tree)], kind: usize, name: &str) -> Vec<usize> {
    let matching: Vec<usize> = (0..routes.len())
        .filter(|i| mask_covers(routes[*i].0, kind) && name.as_bytes().starts_with(routes[*i].1.as_bytes()))
        .collect();
    let best = matching.iter().map(|i| routes[*i].1.len()).max();
    matching.into_iter().filter(|i| Some(routes[*i].1.len()) == best).collect()
}

/// Does `got` (events per base recorder) agree with the property for an operation of `kind` entering `t`
/// under the name `name`?  `expect(name_at_base)` = the events a base recorder reached under that name
/// must have received.  For two routes with the same pattern for the same kind the later one counts
/// (`add_route`: "If a matching route already exists, it will be overwritten").
fn check(
    t: &Tree,
    kind: usize,
    name: &str,
    expect: &dyn Fn(&str) -> Vec<String>,
    got: &Got,
) -> Result<(), String> {
    match t {
        Tree::Base(id) => {
            let want = expect(name);
            let have = got.get(id).cloned().unwrap_or_default();
            if want == have {
                Ok(())
            } else {
                Err(format!("base {} (reached as {:?}) should have received {:?} but received {:?}", id, name, want, have))
            }
        }
        Tree::P(p, inner) => check(inner, kind, &format!("{}.{}", p, name), expect, got),
        Tree::F { ci, pats, inner, .. } => {
            if pat_matches(pats, *ci, name) {
                silent(inner, got).map_err(|e| format!("filter {:?} ci={} matches {:?}: {}", pats, ci, name, e))
            } else {
                check(inner, kind, name, expect, got)
            }
        }
        Tree::S(layers, inner) => {
            // the last pushed layer sees the operation first
            let mut cur = name.to_string();
            for l in layers.iter().rev() {
                match l {
                    LayerSpec::P(p) => cur = format!("{}.{}", p, cur),
                    LayerSpec::F { ci, pats, .. } => {
                        if pat_matches(pats, *ci, &cur) {
                            return silent(inner, got)
                                .map_err(|e| format!("stacked filter {:?} ci={} matches {:?}: {}", pats, ci, cur, e));
                        }
                    }
                    LayerSpec::G(ch) => {
                        let c = RefCfg::of_chain(ch);
                        if pat_matches(&c.pats, c.ci, &cur) {
                            return silent(inner, got).map_err(|e| {
                                format!("stacked filter built by {:?} (patterns {:?} ci={}) matches {:?}: {}", ch, c.pats, c.ci, cur, e)
                            });
                        }
                    }
                }
            }
            check(inner, kind, &cur, expect, got)
        }
        Tree::G(ch, inner) => {
            let c = RefCfg::of_chain(ch);
            if pat_matches(&c.pats, c.ci, name) {
                silent(inner, got).map_err(|e| {
                    format!("filter built by {:?} (patterns {:?} ci={}) matches {:?}: {}", ch, c.pats, c.ci, name, e)
                })
            } else {
                check(inner, kind, name, expect, got)
                    .map_err(|e| format!("filter built by {:?} (patterns {:?} ci={}) does not match {:?}: {}", ch, c.pats, c.ci, name, e))
            }
        }
        Tree::MG { init, steps } => {
            // every `.layer()` uses the layer value as it is at that moment
            let mut c = RefCfg::new(init);
            let mut n = 0;
            for st in steps {
                match st {
                    LStep::Cfg(o) => c.apply(o),
                    LStep::Layer(t) => {
                        let r = if pat_matches(&c.pats, c.ci, name) { silent(t, got) } else { check(t, kind, name, expect, got) };
                        r.map_err(|e| {
                            format!("reused FilterLayer, application {} (patterns {:?} ci={} at that moment), name {:?}: {}", n, c.pats, c.ci, name, e)
                        })?;
                        n += 1;
                    }
                }
            }
            Ok(())
        }
        Tree::MP(p, ts) => {
            for (i, t) in ts.iter().enumerate() {
                check(t, kind, &format!("{}.{}", p, name), expect, got)
                    .map_err(|e| format!("reused PrefixLayer {:?}, application {}: {}", p, i, e))?;
            }
            Ok(())
        }
        Tree::R { dflt, routes } => {
            let cands = longest_routes(routes, kind, name);
            if cands.is_empty() {
                for (i, r) in routes.iter().enumerate() {
                    silent(&r.2, got).map_err(|e| format!("router: no route matches {:?}, target {}: {}", name, i, e))?;
                }
                check(dflt, kind, name, expect, got).map_err(|e| format!("router default for {:?}: {}", name, e))
            } else {
                let mut last_err = String::new();
                for c in cands.last() {
                    let mut ok = check(&routes[*c].2, kind, name, expect, got);
                    if ok.is_ok() {
                        ok = silent(dflt, got).map_err(|e| format!("default: {}", e));
                    }
                    for (i, r) in routes.iter().enumerate() {
                        if ok.is_ok() && i != *c {
                            ok = silent(&r.2, got).map_err(|e| format!("target {}: {}", i, e));
                        }
                    }
                    match ok {
                        Ok(()) => return Ok(()),
                        Err(e) => last_err = e,
                    }
                }
                Err(format!(
                    "router: {:?} kind {} must go to the target of the longest route (one of {:?}, pattern {:?}): {}",
                    name, KINDS[kind], cands, routes[cands[0]].1, last_err
                ))
            }
        }
        Tree::N(ts) => {
            for (i, t) in ts.iter().enumerate() {
                check(t, kind, name, expect, got).map_err(|e| format!("fanout child {}: {}", i, e))?;
            }
            Ok(())
        }
    }
}

/// `hm<v>x<n>` ↦ n × `hr<v>` (what the property counts: each update reaches each recorder once)
fn normalise_updates(evs: &[String]) -> Vec<String> {
    let mut out = vec![];
    for e in evs {
        let (head, upd) = e.rsplit_once('/').unwrap();
        if let Some(rest) = upd.strip_prefix("hm") {
            let (v, n) = rest.split_once('x').unwrap();
            for _ in 0..n.parse::<usize>().unwrap() {
                out.push(format!("{}/hr{}", head, v));
            }
        } else {
            out.push(e.clone());
        }
    }
    out
}

// ---------------------------------------------------------------------------------------------
// operations

#[derive(Clone, Debug)]
enum Upd {
    CInc(u64),
    CAbs(u64),
    GInc(f64),
    GDec(f64),
    GSet(f64),
    HRec(f64),
    HMany(f64, usize),
}
impl Upd {
    fn tok(&self) -> String {
        match self {
            Upd::CInc(v) => format!("ci{}", v),
            Upd::CAbs(v) => format!("ca{}", v),
            Upd::GInc(v) => format!("gi{}", v.to_bits()),
            Upd::GDec(v) => format!("gd{}", v.to_bits()),
            Upd::GSet(v) => format!("gs{}", v.to_bits()),
            Upd::HRec(v) => format!("hr{}", v.to_bits()),
            Upd::HMany(v, n) => format!("hm{}x{}", v.to_bits(), n),
        }
    }
    fn name(&self) -> &'static str {
        match self {
            Upd::CInc(_) => "increment",
            Upd::CAbs(_) => "absolute",
            Upd::GInc(_) => "g.increment",
            Upd::GDec(_) => "g.decrement",
            Upd::GSet(_) => "g.set",
            Upd::HRec(_) => "record",
            Upd::HMany(_, _) => "record_many",
        }
    }
}

#[derive(Clone, Debug)]
enum SOp {
    D { kind: usize, name: String, unit: Option<Unit>, desc: String },
    R { kind: usize, name: String, labels: Vec<(String, String)>, target: String, level: usize, module: Option<String> },
    /// `via_clone`: the call is made on a fresh clone of the handle (handles are `Arc`s), which is then dropped
    U { handle: usize, upd: Upd, via_clone: bool },
    /// the recorder tree is dropped; the handles obtained so far live on (only `U` may follow)
    X,
}

/// what the `metrics` macros put into `Metadata` (target and module path of the calling module, level INFO)
const MACRO_MOD: &str = module_path!();

fn leak(s: &str) -> &'static str {
    Box::leak(s.to_string().into_boxed_str())
}

/// The five ways a describe reaches the top recorder (`variant` rotates with the position in the script): name and
/// description owned / `const` (`KeyName::from_const_str`, `SharedString::const_str`) / shared (`Arc<str>`), the
/// trait method on the tree itself / on `&dyn Recorder` obtained through `with_local_recorder` + `with_recorder`
/// / the `describe_*!` macros.  All of them must be indistinguishable below the layers.
fn do_describe(top: &BoxRec, variant: usize, kind: usize, name: &str, unit: Option<Unit>, desc: &str, out: &mut Out) {
    let small = name.len() + desc.len() <= 600;
    let v = if (variant == 1 && !small) || (variant == 4 && unit.is_none()) { 0 } else { variant };
    let (kn, d): (KeyName, SharedString) = match v {
        1 => (KeyName::from_const_str(leak(name)), SharedString::const_str(leak(desc))),
        2 => (
            KeyName::from(SharedString::from_shared(Arc::from(name))),
            SharedString::from_shared(Arc::from(desc)),
        ),
        _ => (KeyName::from(name.to_string()), desc.to_string().into()),
    };
    out.count(["describe via: owned strings", "describe via: const strings", "describe via: Arc<str> strings", "describe via: with_local_recorder + with_recorder", "describe via: describe_*! macro"][v]);
    match v {
        3 => metrics::with_local_recorder(top.as_ref(), || {
            metrics::with_recorder(|r| match kind {
                0 => r.describe_counter(kn, unit, d),
                1 => r.describe_gauge(kn, unit, d),
                _ => r.describe_histogram(kn, unit, d),
            })
        }),
        4 => metrics::with_local_recorder(top.as_ref(), || match kind {
            0 => metrics::describe_counter!(name.to_string(), unit.unwrap(), desc.to_string()),
            1 => metrics::describe_gauge!(name.to_string(), unit.unwrap(), desc.to_string()),
            _ => metrics::describe_histogram!(name.to_string(), unit.unwrap(), desc.to_string()),
        }),
        _ => match kind {
            0 => top.describe_counter(kn, unit, d),
            1 => top.describe_gauge(kn, unit, d),
            _ => top.describe_histogram(kn, unit, d),
        },
    }
}

/// The ways a register reaches the top recorder: `Key::from_parts` over owned strings / `Key::from_static_parts`
/// (what the macros build for literals) / an `Arc<str>` name / a clone of a key whose hash has already been
/// computed and cached / `Key::from_name(..).with_extra_labels(..)`; and — when the operation's metadata is what
/// the macros produce — the `counter!` / `gauge!` / `histogram!` macros under `with_local_recorder`.
fn do_register(
    top: &BoxRec,
    variant: usize,
    kind: usize,
    name: &str,
    labels: &[(String, String)],
    md: &Metadata<'_>,
    macro_meta: bool,
    out: &mut Out,
) -> AnyHandle {
    let mk_labels = || labels.iter().map(|(k, v)| Label::new(k.clone(), v.clone())).collect::<Vec<_>>();
    let small = name.len() + labels.iter().map(|(k, v)| k.len() + v.len()).sum::<usize>() <= 600;
    let v = if variant == 1 && !small { 0 } else { variant };
    if v == 4 && macro_meta {
        out.count("register via: counter!/gauge!/histogram! macro under with_local_recorder");
        return metrics::with_local_recorder(top.as_ref(), || {
            if labels.is_empty() {
                match kind {
                    0 => AnyHandle::C(metrics::counter!(name.to_string())),
                    1 => AnyHandle::G(metrics::gauge!(name.to_string())),
                    _ => AnyHandle::H(metrics::histogram!(name.to_string())),
                }
            } else {
                match kind {
                    0 => AnyHandle::C(metrics::counter!(name.to_string(), mk_labels())),
                    1 => AnyHandle::G(metrics::gauge!(name.to_string(), mk_labels())),
                    _ => AnyHandle::H(metrics::histogram!(name.to_string(), mk_labels())),
                }
            }
        });
    }
    out.count(["register via: Key::from_parts (owned)", "register via: Key::from_static_parts", "register via: Arc<str> name", "register via: clone of a key with cached hash", "register via: Key::from_name + with_extra_labels"][v]);
    let key = match v {
        1 => {
            let ls: &'static [Label] = Box::leak(
                labels.iter().map(|(k, v)| Label::from_static_parts(leak(k), leak(v))).collect::<Vec<_>>().into_boxed_slice(),
            );
            Key::from_static_parts(leak(name), ls)
        }
        2 => Key::from_parts(SharedString::from_shared(Arc::from(name)), mk_labels()),
        3 => {
            let k = Key::from_parts(name.to_string(), mk_labels());
            let _ = k.get_hash();
            k.clone()
        }
        4 => Key::from_name(name.to_string()).with_extra_labels(mk_labels()),
        _ => Key::from_parts(name.to_string(), mk_labels()),
    };
    match kind {
        0 => AnyHandle::C(top.register_counter(&key, md)),
        1 => AnyHandle::G(top.register_gauge(&key, md)),
        _ => AnyHandle::H(top.register_histogram(&key, md)),
    }
}

enum AnyHandle {
    C(Counter),
    G(Gauge),
    H(Histogram),
}

struct Registered {
    handle: AnyHandle,
    kind: usize,
    name: String,
    labels: String,
    meta: String,
}

fn drain(log: &Log) -> Got {
    let mut got: Got = BTreeMap::new();
    for (_, id, ev) in log.lock().unwrap().drain(..) {
        got.entry(id).or_default().push(ev);
    }
    got
}

fn show(got: &Got) -> String {
    let parts: Vec<String> =
        got.iter().filter(|(_, evs)| !evs.is_empty()).map(|(id, evs)| format!("{}={}", id, evs.join(";"))).collect();
    if parts.is_empty() {
        return "none".into();
    }
    parts.join("|")
}

/// like `show`, with k > 1 consecutive identical events of one recorder written once as `<ev>*k`
fn show_rle(got: &Got) -> String {
    let mut parts: Vec<String> = vec![];
    for (id, evs) in got.iter().filter(|(_, evs)| !evs.is_empty()) {
        let mut items: Vec<String> = vec![];
        let mut i = 0;
        while i < evs.len() {
            let mut j = i + 1;
            while j < evs.len() && evs[j] == evs[i] {
                j += 1;
            }
            items.push(if j - i > 1 { format!("{}*{}", evs[i], j - i) } else { evs[i].clone() });
            i = j;
        }
        parts.push(format!("{}={}", id, items.join(";")));
    }
    if parts.is_empty() {
        return "none".into();
    }
    parts.join("|")
}

fn name_class(s: &str) -> &'static str {
    if s.is_empty() {
        "empty"
    } else if s.is_ascii() {
        "ascii"
    } else {
        "non-ascii"
    }
}

/// statistics only: which branches does the operation take (reference semantics)
fn trace(t: &Tree, kind: usize, name: &str, out: &mut Out) {
    match t {
        Tree::Base(_) => {}
        Tree::P(p, inner) => {
            out.count(if p.is_empty() { "prefix: empty prefix" } else { "prefix: non-empty prefix" });
            if p.ends_with('.') || p.starts_with('.') {
                out.count("prefix: starts or ends with '.'");
            }
            if p.trim() != p {
                out.count("prefix: starts or ends with white space");
            }
            trace(inner, kind, &format!("{}.{}", p, name), out)
        }
        Tree::F { ci, pats, inner, .. } => {
            if trace_filter(pats, *ci, name, out) {
                trace(inner, kind, name, out)
            }
        }
        Tree::S(layers, inner) => {
            out.count(&format!("stack: {} layers", layers.len().min(5)));
            let mut cur = name.to_string();
            for l in layers.iter().rev() {
                match l {
                    LayerSpec::P(p) => cur = format!("{}.{}", p, cur),
                    LayerSpec::F { ci, pats, .. } => {
                        if !trace_filter(pats, *ci, &cur, out) {
                            return;
                        }
                    }
                    LayerSpec::G(ch) => {
                        trace_chain(ch, out);
                        let c = RefCfg::of_chain(ch);
                        if !trace_filter(&c.pats, c.ci, &cur, out) {
                            return;
                        }
                    }
                }
            }
            trace(inner, kind, &cur, out)
        }
        Tree::R { dflt, routes } => {
            let any_mask = routes.iter().any(|r| mask_covers(r.0, kind));
            let matching =
                routes.iter().filter(|r| mask_covers(r.0, kind) && name.starts_with(r.1.as_str())).count();
            let cands = longest_routes(routes, kind, name);
            let other_kind_match =
                routes.iter().any(|r| !mask_covers(r.0, kind) && name.starts_with(r.1.as_str()));
            if !any_mask {
                out.count("router: default (no route for this kind at all)");
            } else if cands.is_empty() {
                out.count(if other_kind_match {
                    "router: default (only routes of another kind match)"
                } else {
                    "router: default (no route is a prefix)"
                });
            } else if cands.len() > 1 {
                out.count("router: longest route duplicated");
            } else if matching > 1 {
                out.count("router: longest of several matching routes");
            } else {
                out.count("router: single matching route");
            }
            // does the name walk past the chosen route into parts of the trie that belong to routes which do not match?
            let chosen_len = cands.last().map(|c| routes[*c].1.len());
            let lcp = |a: &[u8], b: &[u8]| a.iter().zip(b.iter()).take_while(|(x, y)| x == y).count();
            let others: Vec<&str> = routes
                .iter()
                .filter(|r| mask_covers(r.0, kind) && !name.starts_with(r.1.as_str()))
                .map(|r| r.1.as_str())
                .collect();
            if others.iter().any(|r| lcp(r.as_bytes(), name.as_bytes()) > chosen_len.unwrap_or(0)) {
                out.count("router: name shares more bytes with a non-matching route than the chosen route is long");
            }
            let mut branch = false;
            for (i, r1) in others.iter().enumerate() {
                for r2 in &others[..i] {
                    let b = lcp(r1.as_bytes(), r2.as_bytes());
                    if r1 != r2
                        && name.as_bytes().starts_with(&r1.as_bytes()[..b])
                        && b > chosen_len.unwrap_or(0)
                        && !routes.iter().any(|r| mask_covers(r.0, kind) && r.1.as_bytes() == &r1.as_bytes()[..b])
                    {
                        branch = true;
                    }
                }
            }
            if branch {
                out.count(if chosen_len.is_some() {
                    "router: name passes a value-less branch point of two non-matching routes below the chosen route"
                } else {
                    "router: name passes a value-less branch point of two non-matching routes, no route matches"
                });
            }
            out.count(&format!("router: {} routes", bucket(routes.len())));
            if let Some(c) = cands.last() {
                if routes[*c].1.is_empty() {
                    out.count("router: chosen route is the empty pattern");
                }
                if routes[*c].1 == name {
                    out.count("router: name equals the chosen route");
                }
                trace(&routes[*c].2, kind, name, out)
            } else {
                trace(dflt, kind, name, out)
            }
        }
        Tree::N(ts) => {
            out.count(&format!("fanout: width {}", bucket(ts.len())));
            for t in ts {
                trace(t, kind, name, out);
            }
        }
        Tree::G(ch, inner) => {
            trace_chain(ch, out);
            let c = RefCfg::of_chain(ch);
            if trace_filter(&c.pats, c.ci, name, out) {
                trace(inner, kind, name, out)
            }
        }
        Tree::MG { init, steps } => {
            let mut c = RefCfg::new(init);
            let (mut applied, mut changed_after_apply, mut verdicts) = (0, false, vec![]);
            for st in steps {
                match st {
                    LStep::Cfg(o) => {
                        c.apply(o);
                        if applied > 0 && !matches!(o, FOp::Dfa(_)) {
                            changed_after_apply = true;
                        }
                    }
                    LStep::Layer(t) => {
                        applied += 1;
                        let pass = trace_filter(&c.pats, c.ci, name, out);
                        verdicts.push(pass);
                        if pass {
                            trace(t, kind, name, out)
                        }
                    }
                }
            }
            out.count(&format!("layer reuse: FilterLayer applied {} times", bucket(applied)));
            if changed_after_apply {
                out.count("layer reuse: FilterLayer changed after an application");
            }
            if verdicts.iter().any(|v| *v) && verdicts.iter().any(|v| !*v) {
                out.count("layer reuse: applications of one FilterLayer value disagree on this name");
            }
        }
        Tree::MP(p, ts) => {
            out.count(&format!("layer reuse: PrefixLayer applied {} times", bucket(ts.len())));
            for t in ts {
                trace(t, kind, &format!("{}.{}", p, name), out);
            }
        }
    }
}

fn len_bucket(n: usize) -> &'static str {
    match n {
        0..=15 => "0-15",
        16..=149 => "16-149",
        150..=999 => "150-999",
        _ => "1000+",
    }
}

fn bucket(n: usize) -> String {
    match n {
        0..=5 => n.to_string(),
        6..=9 => "6-9".into(),
        10..=19 => "10-19".into(),
        20..=99 => "20-99".into(),
        _ => "100+".into(),
    }
}

fn trace_chain(ch: &FChain, out: &mut Out) {
    out.count(match ch.init {
        FInit::Default => "filter builder: FilterLayer::default()",
        FInit::From(_) => "filter builder: from_patterns",
    });
    let (mut adds, mut cis, mut dfas) = (0, 0, 0);
    for o in &ch.ops {
        match o {
            FOp::Add(_) => adds += 1,
            FOp::Ci(_) => cis += 1,
            FOp::Dfa(_) => dfas += 1,
        }
    }
    out.count(&format!("filter builder: add_pattern × {}", bucket(adds)));
    out.count(&format!("filter builder: case_insensitive called {} times", cis.min(3)));
    out.count(&format!("filter builder: use_dfa called {} times", dfas.min(3)));
    let c = RefCfg::of_chain(ch);
    if c.pats.len() > 100 {
        out.count("filter: more than 100 patterns (aho-corasick's automatic choice is no longer the DFA)");
    }
    for (i, p) in c.pats.iter().enumerate() {
        if c.pats[..i].iter().any(|q| q != p && q.eq_ignore_ascii_case(p)) {
            out.count("filter builder: pattern differs only in ASCII case from an earlier one");
            break;
        }
    }
}

fn trace_filter(pats: &[String], ci: bool, name: &str, out: &mut Out) -> bool {
    let m = pat_matches(pats, ci, name);
    if m && ci && !pat_matches(pats, false, name) {
        out.count("filter: dropped (only thanks to case folding)");
    } else if m {
        out.count("filter: dropped");
    } else if !ci && pat_matches(pats, true, name) {
        out.count("filter: passed (would match case-insensitively)");
    } else {
        out.count("filter: passed");
    }
    !m
}

fn run_case(out: &mut Out, tree: &Tree, script: &[SOp]) {
    let log: Log = Arc::new(Mutex::new(vec![]));
    let mut top: Option<BoxRec> = Some(build(tree, &log));
    out.op(&format!("layers new {}", tree.tok()), "ok");
    let mut ks = [0usize; 6];
    tree.kinds(&mut ks);
    out.count(&format!("tree: depth {}", tree.depth().min(6)));
    for (i, n) in ["prefix", "filter", "stack", "router", "fanout", "reused layer value"].iter().enumerate() {
        if ks[i] > 0 {
            out.count(&format!("tree: has {}", n));
        }
    }
    if ks.iter().filter(|k| **k > 0).count() >= 2 {
        out.nontrivial();
    }
    let mut handles: Vec<Registered> = vec![];
    let mut history: BTreeMap<usize, Vec<String>> = BTreeMap::new();
    for (opi, op) in script.iter().enumerate() {
        match op {
            SOp::X => {
                // the whole tree goes away (every layer, router, fan-out and base recorder); handles stay
                drop(top.take());
                out.op("layers drop", "ok");
                out.count("op: recorder tree dropped, handles kept");
                let got = drain(&log);
                if !got.is_empty() {
                    out.oracle_fail("dropping the recorder tree delivered something", &format!("tree {:?}: {:?}", tree, got));
                }
            }
            SOp::D { kind, name, unit, desc } => {
                let topr = top.as_ref().expect("generator: describe after drop");
                do_describe(topr, (opi + name.len()) % 5, *kind, name, *unit, desc, out);
                let got = drain(&log);
                out.op(
                    &format!("layers d {} {} {} {}", KINDS[*kind], hexs(name), unit_tok(*unit), hexs(desc)),
                    &show(&got),
                );
                out.count("op: describe");
                out.count(&format!("name: {}", name_class(name)));
                out.count(&format!("name: {} bytes", len_bucket(name.len())));
                trace(tree, *kind, name, out);
                let (k, u, d) = (KINDS[*kind], unit_tok(*unit), hexs(desc));
                let expect = move |n: &str| vec![format!("D/{}/{}/{}/{}", k, hexs(n), u, d)];
                if let Err(e) = check(tree, *kind, name, &expect, &got) {
                    out.oracle_fail(
                        "describe not delivered as the property demands",
                        &format!("tree {:?}; describe {} {:?}: {}", tree, k, name, e),
                    );
                }
                out.count(&format!("delivered to {} recorders", got.len().min(4)));
            }
            SOp::R { kind, name, labels, target, level, module } => {
                let lv = [Level::TRACE, Level::DEBUG, Level::INFO, Level::WARN, Level::ERROR][*level];
                let md = Metadata::new(target.as_str(), lv, module.as_deref());
                let macro_meta = target == MACRO_MOD && *level == 2 && module.as_deref() == Some(MACRO_MOD);
                let topr = top.as_ref().expect("generator: register after drop");
                // a macro-shaped metadata always takes the macro path when its turn comes, and one time in two otherwise
                let variant = if macro_meta && opi % 2 == 0 { 4 } else { (opi + name.len()) % 5 };
                let h = do_register(topr, variant, *kind, name, labels, &md, macro_meta, out);
                let got = drain(&log);
                let (ltok, mtok) = (pairs(labels), meta_tok(&md));
                out.op(&format!("layers r {} {} {} {}", KINDS[*kind], hexs(name), ltok, mtok), &show(&got));
                out.count("op: register");
                out.count(&format!("name: {}", name_class(name)));
                out.count(&format!("labels: {}", labels.len()));
                trace(tree, *kind, name, out);
                let k = KINDS[*kind];
                let (l2, m2) = (ltok.clone(), mtok.clone());
                let expect = move |n: &str| vec![format!("R/{}/{}/{}/{}", k, hexs(n), l2, m2)];
                if let Err(e) = check(tree, *kind, name, &expect, &got) {
                    out.oracle_fail(
                        "register not delivered as the property demands",
                        &format!("tree {:?}; register {} {:?}: {}", tree, k, name, e),
                    );
                }
                out.count(&format!("delivered to {} recorders", got.len().min(4)));
                handles.push(Registered { handle: h, kind: *kind, name: name.clone(), labels: ltok, meta: mtok });
            }
            SOp::U { handle, upd, via_clone } => {
                let reg = &handles[*handle];
                if top.is_none() {
                    out.count("update: after the recorder tree was dropped");
                }
                let cloned = if *via_clone {
                    Some(match &reg.handle {
                        AnyHandle::C(c) => AnyHandle::C(c.clone()),
                        AnyHandle::G(g) => AnyHandle::G(g.clone()),
                        AnyHandle::H(h) => AnyHandle::H(h.clone()),
                    })
                } else {
                    None
                };
                match (cloned.as_ref().unwrap_or(&reg.handle), upd) {
                    (AnyHandle::C(c), Upd::CInc(v)) => c.increment(*v),
                    (AnyHandle::C(c), Upd::CAbs(v)) => c.absolute(*v),
                    (AnyHandle::G(g), Upd::GInc(v)) => g.increment(*v),
                    (AnyHandle::G(g), Upd::GDec(v)) => g.decrement(*v),
                    (AnyHandle::G(g), Upd::GSet(v)) => g.set(*v),
                    (AnyHandle::H(h), Upd::HRec(v)) => h.record(*v),
                    (AnyHandle::H(h), Upd::HMany(v, n)) => h.record_many(*v, *n),
                    _ => panic!("generator produced an update of the wrong kind"),
                }
                drop(cloned);
                let got = drain(&log);
                // compared as samples: a received record_many(v, n) is shown as n × record(v)
                let norm: Got = got.iter().map(|(k, v)| (*k, normalise_updates(v))).collect();
                out.op(&format!("layers u {} {}", handle, upd.tok()), &show_rle(&norm));
                if *via_clone {
                    out.count("update: through a clone of the handle");
                }
                // history of calls on this handle: is this call a repetition?
                let hist = history.entry(*handle).or_insert_with(Vec::new);
                if hist.last() == Some(&upd.tok()) {
                    out.count("update: identical to the previous call on the same handle");
                } else if hist.contains(&upd.tok()) {
                    out.count("update: identical to an earlier call on the same handle, other calls in between");
                }
                hist.push(upd.tok());
                if let Upd::HMany(_, n) = upd {
                    out.count(&format!("record_many: count {}", match *n { 0..=4 => n.to_string(), 5..=255 => "5-255".into(), 256..=65535 => "256-65535".into(), _ => "65536+".into() }));
                }
                if got.values().flatten().any(|e| e.contains("/hm")) {
                    out.count("leaf received record_many itself (no fan-out on the way)");
                }
                out.count(&format!("op: update {}", upd.name()));
                // oracle: every recorder that got the registration gets the update exactly once
                // (record_many(v, n) counted as n samples), nobody else gets anything
                let (k, l, m) = (KINDS[reg.kind], reg.labels.clone(), reg.meta.clone());
                let u = upd.tok();
                let expect = move |n: &str| {
                    normalise_updates(&[format!("U/{}/{}/{}/{}/{}", k, hexs(n), l, m, u)])
                };
                if let Err(e) = check(tree, reg.kind, &reg.name, &expect, &norm) {
                    out.oracle_fail(
                        "handle update not delivered once to every recorder behind the handle",
                        &format!(
                            "tree {:?}; handle of register {} {:?}; update {}: {}",
                            tree,
                            k,
                            reg.name,
                            upd.tok(),
                            e
                        ),
                    );
                }
                out.count(&format!("update reached {} recorders", got.len().min(4)));
            }
        }
    }
}

// ---------------------------------------------------------------------------------------------
// generators

const SEGS: &[&str] = &[
    "app", "App", "APP", "db", "http", "req", "a", "ab", "abc", "x", "_total", "Z", "é", "É", "日本", "ß", "\u{212a}",
    "k", "K", "ſ", "s", "S", "🦀", ".", "..", " ",
];
const PREFIXES: &[&str] = &["", "p", "app", "APP", "é", "svc.x", "a"];
/// prefixes a "tidying" `PrefixLayer::new` / `prefix_key` would alter: dots and white space at either end
const ODD_PREFIXES: &[&str] = &["a.", ".a", ".", "..", "app..", " a", "a ", " ", "a\t", "\n", "x. ", "日本."];

fn gen_prefix(r: &mut Rng) -> String {
    if r.chance(1, 4) {
        r.pick_str(ODD_PREFIXES).to_string()
    } else {
        r.pick_str(PREFIXES).to_string()
    }
}

struct Pool {
    names: Vec<String>,
    /// names derived from the route tables and filter patterns of the tree under test (see `hot_names`)
    hot: Vec<String>,
}

/// the same string with its last character replaced by a "neighbour": same high nibble of the last byte
/// (siblings below one nibble node of a radix trie), another high nibble, or one bit flipped
fn sibling(r: &mut Rng, s: &str) -> String {
    let mut cs: Vec<char> = s.chars().collect();
    match cs.pop() {
        None => r.pick_str(SEGS).to_string(),
        Some(c) if c.is_ascii() => {
            let b = c as u8;
            let nb = match r.below(3) {
                0 => (b & 0xf0) | ((b.wrapping_add(1 + r.below(15) as u8)) & 0x0f),
                1 => b ^ (0x10 << r.below(3)),
                _ => b ^ (1 << r.below(7)),
            };
            let nb = if nb == b || nb >= 0x80 { b ^ 1 } else { nb };
            cs.push(nb as char);
            cs.into_iter().collect()
        }
        Some(c) => {
            // a neighbouring code point: shares all but the last UTF-8 byte (or its high nibble)
            let n = char::from_u32(c as u32 ^ (1 << r.below(5))).unwrap_or('é');
            cs.push(n);
            cs.into_iter().collect()
        }
    }
}

fn common_prefix(a: &str, b: &str) -> String {
    a.chars().zip(b.chars()).take_while(|(x, y)| x == y).map(|(x, _)| x).collect()
}

/// Names that probe the decision structures of THIS tree: for every route pattern / filter pattern, as seen
/// from the top of the tree (the prefixes added above the node are stripped when the pattern starts with them).
fn hot_names(t: &Tree, ctx: &str, acc: &mut Vec<String>) {
    let strip = |p: &str| -> Option<String> { p.strip_prefix(ctx).map(|x| x.to_string()) };
    let mut chain_pats = |c: &RefCfg, acc: &mut Vec<String>| {
        for p in c.pats.iter().take(6) {
            acc.push(p.clone());
            if let Some(x) = strip(p) {
                acc.push(x);
            }
        }
    };
    match t {
        Tree::Base(_) => {}
        Tree::P(p, inner) => hot_names(inner, &format!("{}.{}", p, ctx), acc),
        Tree::F { pats, inner, .. } => {
            chain_pats(&RefCfg { pats: pats.clone(), ci: false }, acc);
            hot_names(inner, ctx, acc)
        }
        Tree::G(ch, inner) => {
            chain_pats(&RefCfg::of_chain(ch), acc);
            hot_names(inner, ctx, acc)
        }
        Tree::S(layers, inner) => {
            let mut ctx2 = ctx.to_string();
            for l in layers.iter().rev() {
                match l {
                    LayerSpec::P(p) => ctx2 = format!("{}.{}", p, ctx2),
                    LayerSpec::F { pats, .. } => chain_pats(&RefCfg { pats: pats.clone(), ci: false }, acc),
                    LayerSpec::G(ch) => chain_pats(&RefCfg::of_chain(ch), acc),
                }
            }
            hot_names(inner, &ctx2, acc)
        }
        Tree::R { dflt, routes } => {
            for (_, p, t) in routes {
                if let Some(x) = strip(p) {
                    acc.push(x);
                }
                hot_names(t, ctx, acc);
            }
            hot_names(dflt, ctx, acc)
        }
        Tree::N(ts) => {
            for t in ts {
                hot_names(t, ctx, acc);
            }
        }
        Tree::MG { init, steps } => {
            let mut c = RefCfg::new(init);
            for st in steps {
                match st {
                    LStep::Cfg(o) => c.apply(o),
                    LStep::Layer(t) => hot_names(t, ctx, acc),
                }
            }
            chain_pats(&c, acc);
        }
        Tree::MP(p, ts) => {
            for t in ts {
                hot_names(t, &format!("{}.{}", p, ctx), acc);
            }
        }
    }
}

fn flip_case(r: &mut Rng, s: &str) -> String {
    s.chars()
        .map(|c| {
            if c.is_ascii_alphabetic() && r.chance(1, 2) {
                if c.is_ascii_lowercase() {
                    c.to_ascii_uppercase()
                } else {
                    c.to_ascii_lowercase()
                }
            } else {
                c
            }
        })
        .collect()
}

fn gen_base_name(r: &mut Rng) -> String {
    let mut s = String::new();
    if r.chance(1, 3) {
        s.push_str(r.pick_str(PREFIXES));
        s.push('.');
    }
    for i in 0..r.range(1, 3) {
        if i > 0 && r.chance(1, 2) {
            s.push('.');
        }
        s.push_str(r.pick_str(SEGS));
    }
    s
}

fn char_prefix(r: &mut Rng, s: &str) -> String {
    let cs: Vec<char> = s.chars().collect();
    cs[..r.range(0, cs.len())].iter().collect()
}
fn char_infix(r: &mut Rng, s: &str) -> String {
    let cs: Vec<char> = s.chars().collect();
    let a = r.range(0, cs.len());
    let b = r.range(a, cs.len());
    cs[a..b].iter().collect()
}

impl Pool {
    fn new(r: &mut Rng) -> Pool {
        let n = r.range(2, 5);
        let mut names: Vec<String> = (0..n).map(|_| gen_base_name(r)).collect();
        // size ceilings: now and then a name far beyond anything a fast path could be gated on
        if r.chance(1, 10) {
            let len = *r.pick(&[150usize, 151, 255, 256, 257, 1000, 4096]);
            let unit = r.pick_str(&["x", "ab.", "é", "Z"]);
            let mut long = names[0].clone();
            while long.len() < len {
                long.push_str(unit);
            }
            names.push(long);
        }
        Pool { names, hot: vec![] }
    }
    fn any(&self, r: &mut Rng) -> String {
        r.pick(&self.names).clone()
    }
    /// a name aimed at the route tables / pattern sets of the tree: a pattern itself, extended, cut, with its
    /// last character replaced by a neighbour, the common part of two patterns (± one more character)
    fn hot_name(&self, r: &mut Rng) -> String {
        let h = r.pick(&self.hot).clone();
        match r.weighted(&[2, 3, 3, 2, 3, 2, 1]) {
            0 => h,
            1 => format!("{}{}", h, r.pick_str(&[".x", "x", "é", ".", "_total", "\u{1}", "~", "A"])),
            2 => sibling(r, &h),
            3 => {
                let sib = sibling(r, &h);
                format!("{}{}", sib, r.pick_str(&[".x", "x", ".req", "é"]))
            }
            4 => {
                let g = r.pick(&self.hot).clone();
                let c = common_prefix(&h, &g);
                match r.below(3) {
                    0 => c,
                    1 => format!("{}{}", c, r.pick_str(&["x", "z", ".", "a", "b", "q", "é", "~", "\u{0}"])),
                    _ => {
                        let ext = format!("{}{}", c, h.chars().nth(c.chars().count()).map(|x| x.to_string()).unwrap_or_default());
                        sibling(r, &ext)
                    }
                }
            }
            5 => char_prefix(r, &h),
            _ => flip_case(r, &h),
        }
    }
    /// a name for an operation: equal to / extending / a prefix of / diverging from pool names
    fn op_name(&self, r: &mut Rng) -> String {
        if !self.hot.is_empty() && r.chance(2, 5) {
            return self.hot_name(r);
        }
        let base = self.any(r);
        match r.weighted(&[1, 7, 6, 3, 2, 2, 1]) {
            0 => String::new(),
            1 => base,
            2 => format!("{}{}", base, r.pick_str(&[".x", "_total", "é", "b", ".", "X"])),
            3 => char_prefix(r, &base),
            4 => flip_case(r, &base),
            5 => format!("{}{}", char_prefix(r, &base), r.pick_str(SEGS)),
            _ => wild_string(r, false),
        }
    }
    fn route(&self, r: &mut Rng) -> String {
        let base = self.any(r);
        match r.weighted(&[1, 4, 6, 2, 1, 1]) {
            0 => String::new(),
            1 => base,
            2 => char_prefix(r, &base),
            3 => format!("{}{}", base, r.pick_str(&[".x", "_total", "é", "b", "."])),
            4 => {
                let p = char_prefix(r, &base);
                flip_case(r, &p)
            }
            _ => format!("{}.{}", r.pick_str(PREFIXES), char_prefix(r, &base)),
        }
    }
    fn pattern(&self, r: &mut Rng) -> String {
        let base = self.any(r);
        match r.weighted(&[1, 5, 5, 2, 2, 1]) {
            0 => {
                if r.chance(1, 4) {
                    String::new()
                } else {
                    r.pick_str(SEGS).to_string()
                }
            }
            1 => {
                let s = char_infix(r, &base);
                if s.is_empty() {
                    base
                } else {
                    s
                }
            }
            2 => {
                let inf = char_infix(r, &base);
                let s = flip_case(r, &inf);
                if s.is_empty() {
                    flip_case(r, &base)
                } else {
                    s
                }
            }
            3 => r.pick_str(SEGS).to_string(),
            4 => format!("{}{}", char_infix(r, &base), r.pick_str(SEGS)),
            _ => r.pick_str(&["É", "é", "\u{212a}", "ſ", "ß", "SS", "日"]).to_string(),
        }
    }
}

/// how many patterns: mostly 0-3; now and then more than 4, and more than 100 (beyond which aho-corasick's
/// automatic choice, taken for `use_dfa(false)` and `FilterLayer::default()`, is an NFA instead of the DFA)
fn gen_pattern_count(r: &mut Rng) -> usize {
    match r.weighted(&[40, 3, 2]) {
        0 => r.weighted(&[1, 5, 4, 2]),
        1 => r.range(5, 12),
        _ => r.range(101, 130),
    }
}

fn gen_patterns(r: &mut Rng, pool: &Pool, n: usize) -> Vec<String> {
    // beyond a handful the set is padded with patterns that (mostly) do not occur in any name
    (0..n).map(|i| if i < 6 || r.chance(1, 8) { pool.pattern(r) } else { format!("#{}#{}", i, r.pick_str(SEGS)) }).collect()
}

fn gen_filter(r: &mut Rng, pool: &Pool) -> (bool, bool, Vec<String>) {
    let n = gen_pattern_count(r);
    ((r.chance(1, 2)), r.chance(1, 2), gen_patterns(r, pool, n))
}

fn gen_fop(r: &mut Rng, pool: &Pool, sofar: &[String]) -> FOp {
    match r.weighted(&[5, 3, 2]) {
        0 => FOp::Add(if !sofar.is_empty() && r.chance(1, 2) {
            // a pattern related to one that is already there: the same again, or the same in another case
            let q = r.pick(sofar).clone();
            match r.below(4) {
                0 => q,
                1 => q.to_ascii_uppercase(),
                2 => q.to_ascii_lowercase(),
                _ => flip_case(r, &q),
            }
        } else {
            pool.pattern(r)
        }),
        1 => FOp::Ci(r.chance(1, 2)),
        _ => FOp::Dfa(r.chance(1, 2)),
    }
}

fn gen_finit(r: &mut Rng, pool: &Pool) -> FInit {
    if r.chance(1, 3) {
        FInit::Default
    } else {
        let n = gen_pattern_count(r);
        FInit::From(gen_patterns(r, pool, n))
    }
}

/// a `FilterLayer` made by 0-6 builder calls (possibly none: the defaults stay; possibly the same setter twice)
fn gen_chain(r: &mut Rng, pool: &Pool) -> FChain {
    let init = gen_finit(r, pool);
    let mut c = RefCfg::new(&init);
    let mut ops = vec![];
    for _ in 0..r.weighted(&[2, 3, 3, 2, 1, 1, 1]) {
        let o = gen_fop(r, pool, &c.pats);
        c.apply(&o);
        ops.push(o);
    }
    FChain { init, ops }
}

fn gen_layer(r: &mut Rng, pool: &Pool) -> LayerSpec {
    match r.below(4) {
        0 | 1 => LayerSpec::P(gen_prefix(r)),
        2 => {
            let (ci, dfa, pats) = gen_filter(r, pool);
            LayerSpec::F { ci, dfa, pats }
        }
        _ => LayerSpec::G(gen_chain(r, pool)),
    }
}

/// `ctx` = what the prefix layers above this node have put in front of the name so far
fn gen_tree(
    r: &mut Rng,
    pool: &Pool,
    depth: usize,
    next: &mut usize,
    budget: &mut isize,
    root: bool,
    ctx: &str,
) -> Tree {
    let leaf = depth == 0 || *budget <= 0;
    let k = if leaf { 0 } else { r.weighted(&[if root { 0 } else { 2 }, 2, 1, 4, 5, 3, 2, 1, 1]) };
    *budget -= 1;
    match k {
        0 => {
            *next += 1;
            Tree::Base(*next - 1)
        }
        1 => {
            let p = gen_prefix(r);
            let ctx2 = format!("{}.{}", p, ctx);
            Tree::P(p, Box::new(gen_tree(r, pool, depth - 1, next, budget, false, &ctx2)))
        }
        2 => {
            let (ci, dfa, pats) = gen_filter(r, pool);
            Tree::F { ci, dfa, pats, inner: Box::new(gen_tree(r, pool, depth - 1, next, budget, false, ctx)) }
        }
        3 => {
            // size ceilings: now and then far more pushes than the usual handful (mostly prefixes then)
            let many = r.chance(1, 15);
            let n = if many { *r.pick(&[8usize, 9, 16, 17, 33, 40]) } else { r.weighted(&[1, 3, 4, 3, 2, 1, 1]) };
            let layers: Vec<LayerSpec> =
                (0..n).map(|i| if many && i % 7 != 3 { LayerSpec::P(r.pick_str(&["", "p", "a", "é"]).to_string()) } else { gen_layer(r, pool) }).collect();
            let mut ctx2 = ctx.to_string();
            for l in layers.iter().rev() {
                if let LayerSpec::P(p) = l {
                    ctx2 = format!("{}.{}", p, ctx2);
                }
            }
            Tree::S(layers, Box::new(gen_tree(r, pool, depth - 1, next, budget, false, &ctx2)))
        }
        4 => {
            let dflt = Box::new(gen_tree(r, pool, depth - 1, next, budget, false, ctx));
            // size ceilings: now and then far more routes than the usual handful (then with plain targets)
            let many = r.chance(1, 12);
            let n = if many { r.range(7, 40) } else { r.weighted(&[1, 2, 4, 4, 3, 2]) };
            let mut routes: Vec<(u8, String, Tree)> = vec![];
            // half of the patterns are prefixes of one focus name, so that several routes overlap on it
            let focus = pool.any(r);
            for _ in 0..n {
                let mask = r.weighted(&[2, 2, 2, 3]) as u8;
                // duplicated patterns on purpose
                let pat = if !routes.is_empty() && r.chance(1, 4) {
                    routes[r.below(routes.len())].1.clone()
                } else if !routes.is_empty() && r.chance(1, 3) {
                    // a relative of an existing route: a sibling (same parent, neighbouring last character), a
                    // child, or a child of a sibling — route tables whose trie has interior nodes without a value
                    let q = routes[r.below(routes.len())].1.clone();
                    match r.below(4) {
                        0 => sibling(r, &q),
                        1 => format!("{}{}", q, r.pick_str(&[".bar", ".baz", "a", "b", "q", ".", "é"])),
                        2 => {
                            let sib = sibling(r, &q);
                            format!("{}{}", sib, r.pick_str(&["a", ".x", "é"]))
                        }
                        _ => {
                            let cut = char_prefix(r, &q);
                            format!("{}{}", cut, r.pick_str(&["a", "b", "q", "."]))
                        }
                    }
                } else {
                    let tail = if r.chance(1, 2) { char_prefix(r, &focus) } else { pool.route(r) };
                    // below prefix layers: mostly routes that take the added prefixes into account
                    match r.below(8) {
                        0 => tail,
                        1 => char_prefix(r, ctx),
                        _ => format!("{}{}", ctx, tail),
                    }
                };
                let sub = if many { 0 } else { depth.saturating_sub(2) };
                routes.push((mask, pat, gen_tree(r, pool, sub, next, budget, false, ctx)));
            }
            Tree::R { dflt, routes }
        }
        5 => {
            // size ceilings: now and then a wide fan-out (plain children)
            if r.chance(1, 10) {
                let w = if r.chance(1, 3) { *r.pick(&[31usize, 32, 33, 64, 65, 70]) } else { r.range(6, 24) };
                return Tree::N((0..w).map(|_| gen_tree(r, pool, 0, next, budget, false, ctx)).collect());
            }
            let w = r.weighted(&[1, 2, 5, 4, 2]);
            Tree::N((0..w).map(|_| gen_tree(r, pool, depth - 1, next, budget, false, ctx)).collect())
        }
        6 => {
            let ch = gen_chain(r, pool);
            Tree::G(ch, Box::new(gen_tree(r, pool, depth - 1, next, budget, false, ctx)))
        }
        7 => {
            // one FilterLayer value: builder calls and applications interleaved
            let init = gen_finit(r, pool);
            let mut c = RefCfg::new(&init);
            let mut steps = vec![];
            let napply = r.range(2, 4);
            let mut applied = 0;
            while applied < napply {
                if r.chance(1, 2) {
                    let o = gen_fop(r, pool, &c.pats);
                    c.apply(&o);
                    steps.push(LStep::Cfg(o));
                } else {
                    steps.push(LStep::Layer(gen_tree(r, pool, depth.saturating_sub(2), next, budget, false, ctx)));
                    applied += 1;
                }
            }
            if r.chance(1, 2) {
                // a change after the last application must not reach any of the recorders already built
                let o = gen_fop(r, pool, &c.pats);
                steps.push(LStep::Cfg(o));
            }
            Tree::MG { init, steps }
        }
        _ => {
            let p = gen_prefix(r);
            let ctx2 = format!("{}.{}", p, ctx);
            let n = r.range(2, 4);
            Tree::MP(p, (0..n).map(|_| gen_tree(r, pool, depth.saturating_sub(2), next, budget, false, &ctx2)).collect())
        }
    }
}

const F64S: [f64; 8] = [0.0, -0.0, 1.0, 2.5, -7.25, f64::NAN, f64::INFINITY, 1e300];

fn gen_upd(r: &mut Rng, kind: usize) -> Upd {
    let v = *r.pick(&F64S);
    match kind {
        0 => {
            let n = *r.pick(&[0u64, 1, 5, 1 << 40, u64::MAX]);
            if r.chance(2, 3) {
                Upd::CInc(n)
            } else {
                Upd::CAbs(n)
            }
        }
        1 => match r.below(3) {
            0 => Upd::GInc(v),
            1 => Upd::GDec(v),
            _ => Upd::GSet(v),
        },
        _ => {
            if r.chance(1, 2) {
                Upd::HRec(v)
            } else if r.chance(1, 5) {
                // size ceilings: counts beyond u8 / any small clamp (65536+ is in the corpus)
                Upd::HMany(v, *r.pick(&[5usize, 8, 17, 64, 255, 256, 257, 1000]))
            } else {
                Upd::HMany(v, r.weighted(&[1, 2, 2, 2, 1]))
            }
        }
    }
}

fn gen_script(r: &mut Rng, pool: &Pool, n: usize) -> Vec<SOp> {
    let mut script = vec![];
    let mut kinds: Vec<usize> = vec![];
    // one case in five drops the recorder tree somewhere in the second half of the script: from then on only
    // updates through the handles that outlive it
    let drop_at = if r.chance(1, 5) { Some(r.range(n / 2, n.max(1) - 1)) } else { None };
    let mut dropped = false;
    for i in 0..n {
        if Some(i) == drop_at && !kinds.is_empty() {
            script.push(SOp::X);
            dropped = true;
        }
        let c = if dropped {
            2
        } else if kinds.is_empty() {
            r.weighted(&[3, 5])
        } else {
            r.weighted(&[3, 4, 4])
        };
        match c {
            0 => script.push(SOp::D {
                kind: r.below(3),
                name: pool.op_name(r),
                unit: if r.chance(1, 3) { None } else { Some(*r.pick(&UNITS)) },
                desc: wild_string(r, false),
            }),
            1 => {
                let kind = r.below(3);
                // size ceilings: now and then far more labels than any inline capacity (4, 8, 16, 32)
                let nl = if r.chance(1, 12) { *r.pick(&[4usize, 5, 8, 9, 16, 17, 33, 64]) } else { r.weighted(&[3, 3, 2, 1]) };
                let labels = (0..nl).map(|_| (wild_string(r, true), wild_string(r, false))).collect();
                kinds.push(kind);
                // a fifth of the registrations carry exactly the metadata the macros produce (and go through them)
                let macro_meta = r.chance(1, 5);
                script.push(SOp::R {
                    kind,
                    name: pool.op_name(r),
                    labels,
                    target: if macro_meta { MACRO_MOD.to_string() } else { r.pick_str(&["mv", "", "a::b", "é", MACRO_MOD]).to_string() },
                    level: if macro_meta { 2 } else { r.below(5) },
                    module: if macro_meta {
                        Some(MACRO_MOD.to_string())
                    } else if r.chance(1, 2) {
                        None
                    } else {
                        Some(r.pick_str(&["mv::m", "", MACRO_MOD]).to_string())
                    },
                });
            }
            _ => {
                let h = r.below(kinds.len());
                if r.chance(1, 3) {
                    // a burst of calls on ONE handle in which calls recur, back to back or with other calls in
                    // between (a handle that remembered anything about earlier calls would show here)
                    let a = gen_upd(r, kinds[h]);
                    let b = gen_upd(r, kinds[h]);
                    let pat: &[u8] = *r.pick(&[&[0u8, 0][..], &[0, 1, 0], &[0, 0, 0], &[0, 1, 1, 0], &[0, 1, 0, 1]]);
                    for x in pat {
                        let upd = if *x == 0 { a.clone() } else { b.clone() };
                        script.push(SOp::U { handle: h, upd, via_clone: r.chance(1, 4) });
                    }
                } else {
                    script.push(SOp::U { handle: h, upd: gen_upd(r, kinds[h]), via_clone: r.chance(1, 4) });
                }
            }
        }
    }
    script
}

// ---------------------------------------------------------------------------------------------
// corpus: hand-picked trees, every name × every kind × describe / register / updates

fn s(x: &str) -> String {
    x.to_string()
}
fn b(id: usize) -> Tree {
    Tree::Base(id)
}

fn full_script(names: &[&str]) -> Vec<SOp> {
    let mut script = vec![];
    let mut nh = 0;
    for name in names {
        for kind in 0..3 {
            script.push(SOp::D { kind, name: s(name), unit: Some(Unit::Bytes), desc: s("d\n\"x") });
            script.push(SOp::R {
                kind,
                name: s(name),
                labels: vec![(s("k"), s("v")), (s("k"), s(""))],
                target: s("mv"),
                level: 2,
                module: None,
            });
            let upds = match kind {
                0 => vec![Upd::CInc(3), Upd::CAbs(u64::MAX), Upd::CAbs(u64::MAX), Upd::CInc(3)],
                1 => vec![Upd::GInc(1.5), Upd::GDec(f64::NAN), Upd::GSet(-0.0), Upd::GSet(-0.0), Upd::GInc(1.5), Upd::GSet(-0.0)],
                _ => vec![Upd::HRec(2.5), Upd::HMany(1.0, 3), Upd::HMany(1.0, 0), Upd::HRec(2.5), Upd::HMany(1.0, 3)],
            };
            for (i, u) in upds.into_iter().enumerate() {
                script.push(SOp::U { handle: nh, upd: u, via_clone: i % 3 == 2 });
            }
            nh += 1;
        }
    }
    script
}

fn corpus() -> Vec<(&'static str, Tree, Vec<SOp>)> {
    let names = ["", "a", "ab", "abc", "abd", "abcd", "b", "A", "AB", ".", "a.", "é", "ébc", "日本", "日"];
    let overlapping = Tree::R {
        dflt: Box::new(b(0)),
        routes: vec![
            (3, s("a"), b(1)),
            (0, s("ab"), b(2)),
            (3, s("abc"), b(3)),
            (1, s("abcd"), b(4)),
            (2, s("é"), b(5)),
            (3, s("日本"), b(6)),
        ],
    };
    let empty_route = Tree::R {
        dflt: Box::new(b(0)),
        routes: vec![(0, s(""), b(1)), (3, s("ab"), b(2)), (1, s(""), b(3)), (1, s(""), b(4))],
    };
    let dup = Tree::R {
        dflt: Box::new(b(0)),
        routes: vec![(3, s("ab"), b(1)), (0, s("ab"), b(2)), (3, s("a"), b(3)), (1, s("ab"), b(4)), (3, s("ab"), b(5))],
    };
    let only_hist = Tree::R { dflt: Box::new(b(0)), routes: vec![(2, s("a"), b(1))] };
    let no_routes = Tree::R { dflt: Box::new(b(0)), routes: vec![] };
    let fnames = ["", "abc", "ABC", "xaBcx", "ab", "k", "K", "\u{212a}", "é", "É", "s", "ſ", "straße", "STRASSE"];
    let filt = |ci: bool, dfa: bool, pats: &[&str]| Tree::F {
        ci,
        dfa,
        pats: pats.iter().map(|p| s(p)).collect(),
        inner: Box::new(b(0)),
    };
    let stack3 = Tree::S(
        vec![
            LayerSpec::P(s("in")),
            LayerSpec::F { ci: false, dfa: true, pats: vec![s("out.a")] },
            LayerSpec::P(s("out")),
            LayerSpec::F { ci: true, dfa: false, pats: vec![s("OUT")] },
        ],
        Box::new(b(0)),
    );
    let long_stack = Tree::S(
        (0..7)
            .map(|i| if i % 3 == 2 { LayerSpec::F { ci: i == 5, dfa: true, pats: vec![s("p2.p1.p0.A")] } } else { LayerSpec::P(format!("p{}", i)) })
            .collect(),
        Box::new(b(0)),
    );
    let fan = Tree::N(vec![
        b(0),
        Tree::N(vec![]),
        Tree::N(vec![b(1), Tree::N(vec![b(2), b(3)])]),
        Tree::F { ci: false, dfa: true, pats: vec![s("b")], inner: Box::new(b(4)) },
        Tree::P(s(""), Box::new(b(5))),
    ]);
    let mixed = Tree::S(
        vec![LayerSpec::F { ci: true, dfa: true, pats: vec![s("DROP")] }, LayerSpec::P(s("app"))],
        Box::new(Tree::R {
            dflt: Box::new(b(0)),
            routes: vec![
                (3, s("app."), Tree::N(vec![b(1), b(2)])),
                (0, s("app.a"), Tree::P(s("c"), Box::new(b(3)))),
                (3, s("a"), b(4)),
            ],
        }),
    );
    // route tables whose radix trie has interior nodes WITHOUT a value (the common part of two sibling routes),
    // and names that walk through such a node without reaching either sibling
    let siblings = Tree::R {
        dflt: Box::new(b(0)),
        routes: vec![
            (3, s("foo"), b(1)),
            (3, s("foo.bar"), b(2)),
            (3, s("foo.baz"), b(3)),
            (3, s("app"), b(4)),
            (0, s("app.db.a"), b(5)),
            (0, s("app.db.q"), b(6)),
            (1, s("日本"), b(7)),
            (1, s("日本語x"), b(8)),
            (1, s("日本誠x"), b(9)),
        ],
    };
    let sibling_names = [
        "foo", "foo.", "foo.b", "foo.ba", "foo.bax", "foo.bay.requests", "foo.bar", "foo.barn", "foo.baz.x", "foo.c", "fo",
        "app.db.", "app.db.z", "app.db.a", "app.db.b", "app.db.r", "app.d", "日本語", "日本誠", "日本語y", "日本",
    ];
    let rootless_siblings = Tree::R {
        dflt: Box::new(b(0)),
        routes: vec![(3, s("ab"), b(1)), (3, s("aq"), b(2)), (0, s("xyz1"), b(3)), (0, s("xyz2"), b(4)), (3, s(""), b(5))],
    };
    let chain = |init: FInit, ops: Vec<FOp>| Tree::G(FChain { init, ops }, Box::new(b(0)));
    let from = |pats: &[&str]| FInit::From(pats.iter().map(|p| s(p)).collect());
    let bnames = ["tokio.x", "Tokio.x", "TOKIO", "x.tokio", "hyper", "Hyper", "", "bb8", "BB8"];
    let reuse_filter = Tree::MG {
        init: from(&["tokio"]),
        steps: vec![
            LStep::Layer(b(0)),
            LStep::Cfg(FOp::Add(s("hyper"))),
            LStep::Layer(b(1)),
            LStep::Cfg(FOp::Ci(true)),
            LStep::Layer(Tree::N(vec![b(2), b(3)])),
            LStep::Cfg(FOp::Ci(false)),
            LStep::Cfg(FOp::Dfa(false)),
            LStep::Layer(b(4)),
            LStep::Cfg(FOp::Add(s(""))),
            LStep::Layer(b(5)),
            LStep::Cfg(FOp::Add(s("never applied"))),
        ],
    };
    let reuse_prefix = Tree::MP(s("svc."), vec![b(0), Tree::P(s(" "), Box::new(b(1))), Tree::MP(s(""), vec![b(2), b(3)])]);
    let odd_prefix = Tree::N(
        ODD_PREFIXES.iter().enumerate().map(|(i, p)| Tree::P(s(p), Box::new(b(i)))).collect::<Vec<_>>(),
    );
    let odd_prefix_stack = Tree::S(ODD_PREFIXES.iter().take(4).map(|p| LayerSpec::P(s(p))).collect(), Box::new(b(0)));
    let many_pats = |init_default: bool, dfa: Option<bool>, ci: bool| {
        let pats: Vec<String> = (0..120).map(|i| if i == 77 { s("NeedLe") } else { format!("#{}#", i) }).collect();
        let mut ops: Vec<FOp> = vec![];
        let init = if init_default {
            ops.extend(pats.iter().map(|p| FOp::Add(p.clone())));
            FInit::Default
        } else {
            FInit::From(pats)
        };
        if let Some(d) = dfa {
            ops.push(FOp::Dfa(d));
        }
        if ci {
            ops.push(FOp::Ci(true));
        }
        Tree::G(FChain { init, ops }, Box::new(b(0)))
    };
    let mnames = ["needle", "xNeedLex", "NEEDLE", "#5#", "a#119#", "#120#", "", "nee"];
    let big_counts = {
        let tree = Tree::N(vec![b(0), Tree::N(vec![b(1), b(2)]), Tree::P(s("p"), Box::new(b(3)))]);
        let mut script = vec![];
        script.push(SOp::R { kind: 2, name: s("h"), labels: vec![], target: s("mv"), level: 2, module: None });
        for n in [5usize, 255, 256, 257, 65535, 65536, 65537, 70000] {
            script.push(SOp::U { handle: 0, upd: Upd::HMany(1.5, n), via_clone: n % 2 == 0 });
        }
        (tree, script)
    };
    let big_counts_leaf = {
        let mut script = vec![SOp::R { kind: 2, name: s("h"), labels: vec![], target: s("mv"), level: 2, module: None }];
        for n in [256usize, 65537, 1 << 20] {
            script.push(SOp::U { handle: 0, upd: Upd::HMany(1.5, n), via_clone: false });
        }
        (Tree::P(s("p"), Box::new(b(0))), script)
    };
    let long_a = "a.".repeat(100);
    let long_name = format!("{}x", long_a);
    let long_names: Vec<String> = vec![long_a.clone(), long_name.clone(), format!("{}{}", long_a, "é".repeat(2000)), "n".repeat(149), "n".repeat(150), "n".repeat(151)];
    let long_tree = Tree::S(
        vec![LayerSpec::P(s("p")), LayerSpec::G(FChain { init: FInit::Default, ops: vec![FOp::Add(format!("{}x", "a.".repeat(50)))] })],
        Box::new(Tree::R { dflt: Box::new(b(0)), routes: vec![(3, format!("p.{}", long_a), b(1)), (3, format!("p.{}", "n".repeat(150)), b(2)), (3, s("p."), b(3))] }),
    );
    let long_refs: Vec<&str> = long_names.iter().map(|x| x.as_str()).collect();
    let wide = Tree::N((0..24).map(|i| if i % 5 == 4 { Tree::P(s("w"), Box::new(b(i))) } else { b(i) }).collect());
    let many_routes = Tree::R {
        dflt: Box::new(b(0)),
        routes: (0..40usize).map(|i| ((i % 4) as u8, format!("r{}", "ab".repeat(i % 7)) + &format!("{}", i % 3), b(i + 1))).collect(),
    };
    let mr_names = ["r", "r0", "r1", "rab", "rab1", "rabab2x", "rababab", "rabababababab0", "rabababababab0.x", "x"];
    // handles that outlive the tree that made them (every layer kind on the way)
    let outlive = {
        let tree = Tree::S(
            vec![LayerSpec::P(s("o"))],
            Box::new(Tree::R {
                dflt: Box::new(Tree::N(vec![b(0), Tree::N(vec![b(1), Tree::P(s("q"), Box::new(b(2)))])])),
                routes: vec![(3, s("o.r"), Tree::N(vec![b(3), b(4)])), (0, s("o.f"), Tree::F { ci: true, dfa: true, pats: vec![s("DROP")], inner: Box::new(b(5)) })],
            }),
        );
        let mut script = vec![];
        for (i, nm) in ["x", "r1", "f.c", "f.drop"].iter().enumerate() {
            for kind in 0..3 {
                script.push(SOp::R { kind, name: s(nm), labels: vec![(s("k"), s("v"))], target: s("mv"), level: (i + kind) % 5, module: None });
            }
        }
        script.push(SOp::U { handle: 0, upd: Upd::CInc(1), via_clone: false });
        script.push(SOp::X);
        for h in 0..12 {
            let upds = match h % 3 {
                0 => vec![Upd::CInc(7), Upd::CAbs(9), Upd::CInc(7)],
                1 => vec![Upd::GSet(1.5), Upd::GInc(2.0), Upd::GDec(f64::NAN)],
                _ => vec![Upd::HRec(0.5), Upd::HMany(2.0, 3), Upd::HMany(2.0, 0)],
            };
            for (j, u) in upds.into_iter().enumerate() {
                script.push(SOp::U { handle: h, upd: u, via_clone: j == 1 });
            }
        }
        (tree, script)
    };
    // counts beyond any bounded memo a layer could keep: 1100 distinct names (and as many live handles) through ONE
    // filter, ONE router and ONE fan-out instance, the first names coming round again at the end
    let many_names = {
        let tree = Tree::S(
            vec![LayerSpec::F { ci: true, dfa: false, pats: vec![s("Z7"), s("n99")] }],
            Box::new(Tree::R {
                dflt: Box::new(Tree::N(vec![b(0), b(1)])),
                routes: vec![(3, s("n1"), b(2)), (0, s("n10"), b(3)), (3, s("n2"), Tree::N(vec![b(4), b(5)]))],
            }),
        );
        let mut script = vec![];
        let total = 1100usize;
        for i in 0..total + 40 {
            let nm = if i % 11 == 10 { format!("n{}z7", i % total) } else { format!("n{}", i % total) };
            let kind = i % 3;
            if i % 4 == 3 {
                script.push(SOp::D { kind, name: nm.clone(), unit: Some(Unit::Count), desc: s("d") });
            }
            script.push(SOp::R { kind, name: nm, labels: vec![], target: s("mv"), level: 2, module: None });
            let upd = match kind {
                0 => Upd::CInc(i as u64),
                1 => Upd::GSet(i as f64),
                _ => Upd::HRec(i as f64),
            };
            script.push(SOp::U { handle: i, upd, via_clone: false });
        }
        // every 50th of the early handles once more, after everything else
        for h in (0..total).step_by(50) {
            let upd = match h % 3 {
                0 => Upd::CAbs(1),
                1 => Upd::GInc(1.0),
                _ => Upd::HMany(1.0, 2),
            };
            script.push(SOp::U { handle: h, upd, via_clone: true });
        }
        (tree, script)
    };
    let wide65 = Tree::N((0..65).map(|i| if i == 32 { Tree::N(vec![b(100), b(101)]) } else { b(i) }).collect());
    let stack40 = Tree::S((0..40).map(|i| if i == 20 { LayerSpec::F { ci: false, dfa: true, pats: vec![s("p19.p18")] } } else { LayerSpec::P(format!("p{}", i)) }).collect(), Box::new(b(0)));
    let many_labels = {
        let mut script = vec![];
        for (h, n) in [4usize, 5, 8, 9, 16, 17, 32, 33, 100].iter().enumerate() {
            script.push(SOp::R {
                kind: h % 3,
                name: s("app.l"),
                labels: (0..*n).map(|i| (format!("k{}", i % 7), format!("v{}", i))).collect(),
                target: s("mv"),
                level: 2,
                module: None,
            });
            let upd = match h % 3 {
                0 => Upd::CInc(1),
                1 => Upd::GSet(1.0),
                _ => Upd::HRec(1.0),
            };
            script.push(SOp::U { handle: h, upd, via_clone: false });
        }
        let tree = Tree::P(
            s("p"),
            Box::new(Tree::R { dflt: Box::new(b(0)), routes: vec![(3, s("p.app"), Tree::N(vec![b(1), Tree::F { ci: false, dfa: true, pats: vec![s("zz")], inner: Box::new(b(2)) }]))] }),
        );
        (tree, script)
    };
    vec![
        ("handles-outlive-tree", outlive.0, outlive.1),
        ("many-distinct-names", many_names.0, many_names.1),
        ("fanout-65-wide", wide65, full_script(&["a", ""])),
        ("stack-40-pushes", stack40, full_script(&["a", "p18", ""])),
        ("labels-4-to-100", many_labels.0, many_labels.1),
        ("router-sibling-routes", siblings, full_script(&sibling_names)),
        ("router-sibling-routes-no-parent", rootless_siblings, full_script(&["a", "ab", "ac", "ar", "ax", "xyz", "xyz3", "xy", "", "b"])),
        ("filter-builder-default-add", chain(FInit::Default, vec![FOp::Add(s("tokio")), FOp::Add(s("Tokio")), FOp::Add(s("bb8"))]), full_script(&bnames)),
        ("filter-builder-default-untouched", chain(FInit::Default, vec![]), full_script(&bnames)),
        ("filter-builder-from-untouched", chain(from(&["tokio", "bb8"]), vec![]), full_script(&bnames)),
        ("filter-builder-add-case-variants-ci", chain(from(&["tokio"]), vec![FOp::Ci(true), FOp::Add(s("TOKIO")), FOp::Add(s("Hyper"))]), full_script(&bnames)),
        ("filter-builder-ci-on-then-off", chain(from(&["tokio"]), vec![FOp::Ci(true), FOp::Dfa(false), FOp::Ci(false)]), full_script(&bnames)),
        ("filter-builder-ci-off-then-on", chain(from(&["tokio"]), vec![FOp::Ci(false), FOp::Ci(true), FOp::Dfa(true)]), full_script(&bnames)),
        ("filter-builder-add-empty", chain(from(&["tokio"]), vec![FOp::Add(s(""))]), full_script(&["", "a"])),
        ("filter-builder-add-duplicate", chain(from(&["tokio", "tokio"]), vec![FOp::Add(s("tokio")), FOp::Add(s("hyper")), FOp::Add(s("hyper"))]), full_script(&bnames)),
        ("filter-reused-layer-value", reuse_filter, full_script(&bnames)),
        ("prefix-reused-layer-value", reuse_prefix, full_script(&["", "a", ".a"])),
        ("prefix-dots-and-blanks", odd_prefix, full_script(&["", "a", ".a", " a "])),
        ("prefix-dots-and-blanks-stacked", odd_prefix_stack, full_script(&["", "a", "."])),
        ("filter-120-patterns-dfa-forced", many_pats(false, Some(true), false), full_script(&mnames)),
        ("filter-120-patterns-auto", many_pats(false, Some(false), false), full_script(&mnames)),
        ("filter-120-patterns-auto-ci", many_pats(false, Some(false), true), full_script(&mnames)),
        ("filter-120-patterns-default-added-ci", many_pats(true, None, true), full_script(&mnames)),
        ("record-many-large-fanout", big_counts.0, big_counts.1),
        ("record-many-large-leaf", big_counts_leaf.0, big_counts_leaf.1),
        ("long-names", long_tree, full_script(&long_refs)),
        ("fanout-wide", wide, full_script(&["a"])),
        ("router-40-routes", many_routes, full_script(&mr_names)),
        ("router-overlapping", overlapping, full_script(&names)),
        ("router-empty-route", empty_route, full_script(&names)),
        ("router-duplicates", dup, full_script(&names)),
        ("router-single-kind", only_hist, full_script(&names)),
        ("router-no-routes", no_routes, full_script(&["", "a"])),
        ("filter-cs", filt(false, true, &["abc", "k", "é", "ss"]), full_script(&fnames)),
        ("filter-ci-dfa", filt(true, true, &["aBc", "K", "É", "SS"]), full_script(&fnames)),
        ("filter-ci-nfa", filt(true, false, &["aBc", "\u{212a}", "é", "ſ"]), full_script(&fnames)),
        ("filter-empty-pattern", filt(false, true, &[""]), full_script(&["", "a"])),
        ("filter-no-patterns", filt(true, true, &[]), full_script(&["", "a"])),
        ("prefix-empty", Tree::P(s(""), Box::new(Tree::P(s("é"), Box::new(b(0))))), full_script(&["", "a", "."])),
        ("stack-order", stack3, full_script(&["a", "b", "out", "x"])),
        ("stack-long", long_stack, full_script(&["a", "A", "b"])),
        ("fanout-nested", fan, full_script(&["a", "b", ""])),
        ("mixed", mixed, full_script(&["", "a", "b", "drop", "xDrOpx", "a.DROP"])),
    ]
}

/// Small-scope enumeration for the router: EVERY route table of at most three distinct patterns drawn from
/// all strings over {a, b, q} up to `max_len` (a / b share the high nibble of their byte, a / q do not: both
/// kinds of branching of a radix trie over nibbles), against EVERY name over the same alphabet up to
/// `max_len + 1`.  Masks and kinds rotate with the table number.
fn enum_router(out: &mut Out, max_len: usize, stride: usize, offset: usize) {
    let mut strs: Vec<String> = vec![String::new()];
    let mut frontier = vec![String::new()];
    let mut names = strs.clone();
    for l in 0..max_len + 1 {
        let mut next = vec![];
        for f in &frontier {
            for c in ["a", "b", "q"] {
                next.push(format!("{}{}", f, c));
            }
        }
        if l < max_len {
            strs.extend(next.iter().cloned());
        }
        names.extend(next.iter().cloned());
        frontier = next;
    }
    let n = strs.len();
    let mut tables: Vec<Vec<usize>> = vec![vec![]];
    for i in 0..n {
        tables.push(vec![i]);
        for j in i + 1..n {
            tables.push(vec![i, j]);
            for k in j + 1..n {
                tables.push(vec![i, j, k]);
            }
        }
    }
    for (ti, tab) in tables.iter().enumerate() {
        if ti % stride != offset % stride {
            continue;
        }
        let kind = ti % 3;
        // every route covers `kind` (its own mask or ALL); one extra route of another kind is a decoy
        let mut routes: Vec<(u8, String, Tree)> =
            tab.iter().enumerate().map(|(x, i)| (if (ti + x) % 2 == 0 { 3 } else { kind as u8 }, strs[*i].clone(), b(x + 1))).collect();
        if ti % 5 == 0 {
            routes.push((((kind + 1) % 3) as u8, s("a"), b(9)));
        }
        let tree = Tree::R { dflt: Box::new(b(0)), routes };
        let script: Vec<SOp> = names
            .iter()
            .enumerate()
            .map(|(x, nm)| {
                if (x + ti) % 2 == 0 {
                    SOp::D { kind, name: nm.clone(), unit: None, desc: String::new() }
                } else {
                    SOp::R { kind, name: nm.clone(), labels: vec![], target: s("mv"), level: 2, module: None }
                }
            })
            .collect();
        out.case(&format!("enum-router len<={} table={}", max_len, ti));
        out.count("case: enumerated route table");
        run_case(out, &tree, &script);
    }
}

/// Small-scope enumeration for handles: EVERY sequence of `len` calls from a small alphabet of calls (two
/// values per call type) on ONE handle of each kind, behind a nested fan-out and behind no fan-out.
fn enum_updates(out: &mut Out, len: usize) {
    let tree = Tree::N(vec![b(0), Tree::N(vec![b(1), Tree::P(s("p"), Box::new(b(2)))])]);
    let alphabets: [Vec<Upd>; 3] = [
        vec![Upd::CInc(1), Upd::CInc(2), Upd::CAbs(1), Upd::CAbs(2)],
        vec![Upd::GSet(5.0), Upd::GSet(6.0), Upd::GInc(1.0), Upd::GDec(1.0), Upd::GInc(5.0)],
        vec![Upd::HRec(5.0), Upd::HRec(6.0), Upd::HMany(5.0, 2), Upd::HMany(5.0, 1)],
    ];
    for (kind, alpha) in alphabets.iter().enumerate() {
        let total = alpha.len().pow(len as u32);
        let mut script = vec![];
        for seq in 0..total {
            // a fresh handle per sequence
            script.push(SOp::R { kind, name: s("m"), labels: vec![], target: s("mv"), level: 2, module: None });
            let mut x = seq;
            for _ in 0..len {
                script.push(SOp::U { handle: seq, upd: alpha[x % alpha.len()].clone(), via_clone: (x / alpha.len()) % 3 == 1 });
                x /= alpha.len();
            }
        }
        out.case(&format!("enum-updates kind={} len={}", KINDS[kind], len));
        out.count("case: enumerated call sequences on one handle");
        run_case(out, &tree, &script);
    }
}

/// `add_route` with EVERY value a `MetricKindMask` can take (the type is a bit set closed under `|`: NONE, the three
/// kinds, their three pairwise unions, ALL).  For each value: does `add_route` panic, and if not, which kinds does
/// the route apply to (observed by registering one metric of each kind)?  The model (`Mask.ofBits`) follows the
/// code: exactly COUNTER, GAUGE, HISTOGRAM and ALL are accepted.  Oracle, from the meaning of a mask
/// ("`mask` defines which metric kinds will match the given route"): a mask that IS accepted must apply to exactly
/// the kinds it names — never to a part of them.
fn mask_cases(out: &mut Out) {
    out.case("corpus add-route-every-mask-value");
    out.count("case: corpus");
    let prev = std::panic::take_hook();
    std::panic::set_hook(Box::new(|_| {}));
    for bits in 0u8..8 {
        let mut mask = MetricKindMask::NONE;
        for (i, m) in [MetricKindMask::COUNTER, MetricKindMask::GAUGE, MetricKindMask::HISTOGRAM].iter().enumerate() {
            if bits & (1 << i) != 0 {
                mask = mask | *m;
            }
        }
        let log: Log = Arc::new(Mutex::new(vec![]));
        let l2 = log.clone();
        let built = std::panic::catch_unwind(std::panic::AssertUnwindSafe(move || {
            let mut b = RouterBuilder::from_recorder(LogRec { id: 0, log: l2.clone() });
            b.add_route(mask, "x", LogRec { id: 1, log: l2.clone() });
            b.build()
        }));
        let answer = match built {
            Err(_) => "panic".to_string(),
            Ok(router) => {
                let key = Key::from_name("xy");
                let md = Metadata::new("mv", Level::INFO, None);
                let mut kinds = vec![];
                for kind in 0..3 {
                    match kind {
                        0 => drop(router.register_counter(&key, &md)),
                        1 => drop(router.register_gauge(&key, &md)),
                        _ => drop(router.register_histogram(&key, &md)),
                    }
                    let got = drain(&log);
                    if got.contains_key(&1) {
                        kinds.push(kind);
                    }
                }
                let named: Vec<usize> = (0..3).filter(|k| bits & (1 << k) != 0).collect();
                if kinds != named {
                    out.oracle_fail(
                        "an accepted route mask applies to other kinds than the ones it names",
                        &format!(
                            "add_route(mask with bits {:#05b} = kinds {:?}, \"x\", target) was accepted, but registering \"xy\" reaches the target for kinds {:?} (0 counter, 1 gauge, 2 histogram)",
                            bits, named, kinds
                        ),
                    );
                }
                match kinds.as_slice() {
                    [0] => "c".into(),
                    [1] => "g".into(),
                    [2] => "h".into(),
                    [0, 1, 2] => "a".into(),
                    other => format!("kinds{:?}", other),
                }
            }
        };
        out.count(&format!("add_route mask: {}", if answer == "panic" { "refused (panic)" } else { "accepted" }));
        out.op(&format!("layers mask {}", bits), &answer);
    }
    std::panic::set_hook(prev);
}

// ---------------------------------------------------------------------------------------------
// several client threads on one tree

/// one client call of a thread in the concurrent streams
#[derive(Clone, Debug)]
enum CCall {
    D { kind: usize, name: String, unit: Option<Unit>, desc: String },
    R { kind: usize, name: String, labels: Vec<(String, String)>, level: usize },
    /// an update through shared handle `i` (registered before the threads start) or own handle `i`
    U { shared: bool, i: usize, upd: Upd },
}

struct SharedReg {
    handle: AnyHandle,
    kind: usize,
    name: String,
    labels: String,
    meta: String,
}

fn clone_handle(h: &AnyHandle) -> AnyHandle {
    match h {
        AnyHandle::C(c) => AnyHandle::C(c.clone()),
        AnyHandle::G(g) => AnyHandle::G(g.clone()),
        AnyHandle::H(h) => AnyHandle::H(h.clone()),
    }
}

fn apply_upd(h: &AnyHandle, upd: &Upd) {
    match (h, upd) {
        (AnyHandle::C(c), Upd::CInc(v)) => c.increment(*v),
        (AnyHandle::C(c), Upd::CAbs(v)) => c.absolute(*v),
        (AnyHandle::G(g), Upd::GInc(v)) => g.increment(*v),
        (AnyHandle::G(g), Upd::GDec(v)) => g.decrement(*v),
        (AnyHandle::G(g), Upd::GSet(v)) => g.set(*v),
        (AnyHandle::H(h), Upd::HRec(v)) => h.record(*v),
        (AnyHandle::H(h), Upd::HMany(v, n)) => h.record_many(*v, *n),
        _ => panic!("generator produced an update of the wrong kind"),
    }
}

fn log_push_marker(log: &Log, t: usize) {
    let buffered = TBUF.with(|b| match b.borrow_mut().as_mut() {
        Some(v) => {
            v.push((t, usize::MAX, String::new()));
            true
        }
        None => false,
    });
    if !buffered {
        log.lock().unwrap().push((t, usize::MAX, String::new()));
    }
}

/// the body of client thread `t`: its calls in order, an end-of-call marker in the log after each
fn client_body(t: usize, top: &(dyn Recorder + Sync), shared: &[AnyHandle], calls: &[CCall], log: &Log, buffered: bool) {
    TID.with(|x| x.set(t));
    if buffered {
        TBUF.with(|b| *b.borrow_mut() = Some(Vec::with_capacity(calls.len() * 4)));
    }
    let mut own: Vec<AnyHandle> = vec![];
    for (ci, c) in calls.iter().enumerate() {
        match c {
            CCall::D { kind, name, unit, desc } => {
                let (kn, d): (KeyName, SharedString) = (KeyName::from(name.clone()), desc.clone().into());
                match kind {
                    0 => top.describe_counter(kn, *unit, d),
                    1 => top.describe_gauge(kn, *unit, d),
                    _ => top.describe_histogram(kn, *unit, d),
                }
            }
            CCall::R { kind, name, labels, level } => {
                let key = if (ci + t) % 2 == 0 {
                    Key::from_parts(name.clone(), labels.iter().map(|(k, v)| Label::new(k.clone(), v.clone())).collect::<Vec<_>>())
                } else {
                    let k = Key::from_parts(
                        SharedString::from_shared(Arc::from(name.as_str())),
                        labels.iter().map(|(k, v)| Label::new(k.clone(), v.clone())).collect::<Vec<_>>(),
                    );
                    let _ = k.get_hash();
                    k
                };
                let lv = [Level::TRACE, Level::DEBUG, Level::INFO, Level::WARN, Level::ERROR][*level];
                let md = Metadata::new("mv", lv, None);
                own.push(match kind {
                    0 => AnyHandle::C(top.register_counter(&key, &md)),
                    1 => AnyHandle::G(top.register_gauge(&key, &md)),
                    _ => AnyHandle::H(top.register_histogram(&key, &md)),
                });
            }
            CCall::U { shared: sh, i, upd } => apply_upd(if *sh { &shared[*i] } else { &own[*i] }, upd),
        }
        log_push_marker(log, t);
    }
    if let Some(buf) = TBUF.with(|b| b.borrow_mut().take()) {
        log.lock().unwrap().extend(buf);
    }
    TID.with(|x| x.set(usize::MAX));
}

fn ccall_line(t: usize, c: &CCall) -> String {
    match c {
        CCall::D { kind, name, unit, desc } => format!("layers cq {} d {} {} {} {}", t, KINDS[*kind], hexs(name), unit_tok(*unit), hexs(desc)),
        CCall::R { kind, name, labels, level } => {
            format!("layers cq {} r {} {} {} {}+{}+~", t, KINDS[*kind], hexs(name), pairs(labels), hexs("mv"), level)
        }
        CCall::U { shared, i, upd } => format!("layers cq {} u {} {} {}", t, if *shared { "s" } else { "o" }, i, upd.tok()),
    }
}

/// Implementation-side oracle for a concurrent run, independent of the model: the part of the global log caused by
/// each client call (thread tag + end-of-call markers) must be what the property demands of that call ALONE —
/// the same `check` as in the sequential streams, whatever the other threads were doing meanwhile.
fn conc_oracle(out: &mut Out, tree: &Tree, shared: &[SharedReg], scripts: &[Vec<CCall>], log: &[(usize, usize, String)], how: &str) {
    for (t, calls) in scripts.iter().enumerate() {
        let mut per_call: Vec<Got> = vec![BTreeMap::new()];
        for (tid, id, ev) in log.iter().filter(|e| e.0 == t) {
            let _ = tid;
            if *id == usize::MAX {
                per_call.push(BTreeMap::new());
            } else {
                per_call.last_mut().unwrap().entry(*id).or_default().push(ev.clone());
            }
        }
        if per_call.len() != calls.len() + 1 || !per_call.last().unwrap().is_empty() {
            out.oracle_fail("concurrent clients: a thread's log does not split into its calls", &format!("tree {:?}; thread {} ({}): {} calls, {} segments", tree, t, how, calls.len(), per_call.len()));
            continue;
        }
        let mut own: Vec<(usize, String, String, String)> = vec![];
        for (c, got) in calls.iter().zip(per_call.iter()) {
            let res = match c {
                CCall::D { kind, name, unit, desc } => {
                    let (k, u, d) = (KINDS[*kind], unit_tok(*unit), hexs(desc));
                    let expect = move |n: &str| vec![format!("D/{}/{}/{}/{}", k, hexs(n), u, d)];
                    check(tree, *kind, name, &expect, got)
                }
                CCall::R { kind, name, labels, level } => {
                    let (k, l, m) = (KINDS[*kind], pairs(labels), format!("{}+{}+~", hexs("mv"), level));
                    own.push((*kind, name.clone(), l.clone(), m.clone()));
                    let expect = move |n: &str| vec![format!("R/{}/{}/{}/{}", k, hexs(n), l, m)];
                    check(tree, *kind, name, &expect, got)
                }
                CCall::U { shared: sh, i, upd } => {
                    let (kind, name, l, m) = if *sh {
                        let r = &shared[*i];
                        (r.kind, r.name.clone(), r.labels.clone(), r.meta.clone())
                    } else {
                        own[*i].clone()
                    };
                    let (k, u) = (KINDS[kind], upd.tok());
                    let expect = move |n: &str| normalise_updates(&[format!("U/{}/{}/{}/{}/{}", k, hexs(n), l, m, u)]);
                    let norm: Got = got.iter().map(|(k, v)| (*k, normalise_updates(v))).collect();
                    check(tree, kind, &name, &expect, &norm)
                }
            };
            if let Err(e) = res {
                out.oracle_fail(
                    "concurrent clients: an operation was not delivered as the property demands while other threads used the same tree",
                    &format!("tree {:?}; {}; thread {} of {}, call {:?}; all scripts {:?}: {}", tree, how, t, scripts.len(), c, scripts, e),
                );
            }
        }
    }
}

fn gen_ccalls(r: &mut Rng, pool: &Pool, shared_kinds: &[usize], n: usize, small: bool) -> Vec<CCall> {
    let mut calls = vec![];
    let mut own: Vec<usize> = vec![];
    for _ in 0..n {
        let can_upd = !shared_kinds.is_empty() || !own.is_empty();
        match if can_upd { r.weighted(&[2, 5, 4]) } else { r.weighted(&[2, 5]) } {
            0 => calls.push(CCall::D {
                kind: r.below(3),
                name: pool.op_name(r),
                unit: if r.chance(1, 3) { None } else { Some(*r.pick(&UNITS)) },
                desc: r.pick_str(&["", "d", "é"]).to_string(),
            }),
            1 => {
                let kind = r.below(3);
                own.push(kind);
                calls.push(CCall::R {
                    kind,
                    name: pool.op_name(r),
                    labels: (0..r.weighted(&[3, 2, 1])).map(|_| (ident(r), wild_string(r, false))).collect(),
                    level: r.below(5),
                });
            }
            _ => {
                let use_shared = !shared_kinds.is_empty() && (own.is_empty() || r.chance(1, 2));
                let (i, kind) = if use_shared {
                    let i = r.below(shared_kinds.len());
                    (i, shared_kinds[i])
                } else {
                    let i = r.below(own.len());
                    (i, own[i])
                };
                let mut upd = gen_upd(r, kind);
                if let Upd::HMany(v, n) = upd {
                    // every sample is a grant of the scheduler: keep the counts small here
                    upd = Upd::HMany(v, if small { n % 4 } else { n % 9 });
                }
                calls.push(CCall::U { shared: use_shared, i, upd });
            }
        }
    }
    calls
}

fn conc_tok(log: &[(usize, usize, String)]) -> String {
    let evs: Vec<String> = log.iter().filter(|e| e.1 != usize::MAX).map(|(t, id, ev)| format!("{}>{}:{}", t, id, ev)).collect();
    if evs.is_empty() {
        "none".into()
    } else {
        evs.join(";")
    }
}

/// One concurrent case.  `schedule = Some(s)`: the client threads run under the deterministic scheduler (every call
/// into a base recorder is a yield point), the grants actually made are handed to the model (`layers crun`), and the
/// global log — who received what from which thread, in real-time order — must be the model's.  `None`: the threads
/// run freely from a common barrier (real parallelism; what each thread causes does not depend on the schedule —
/// `conc_complete` —, so each thread's part of the log is compared with `layers cfree`).
fn run_conc_case(out: &mut Out, tree: &Tree, prologue: &[SOp], scripts: &[Vec<CCall>], schedule: Option<&[usize]>) {
    let log: Log = Arc::new(Mutex::new(vec![]));
    let top: BoxRec = build(tree, &log);
    out.op(&format!("layers new {}", tree.tok()), "ok");
    let mut ks = [0usize; 6];
    tree.kinds(&mut ks);
    if ks.iter().filter(|k| **k > 0).count() >= 2 {
        out.nontrivial();
    }
    // shared handles: registered by the main thread before the client threads exist
    let mut shared: Vec<SharedReg> = vec![];
    for op in prologue {
        if let SOp::R { kind, name, labels, target, level, module } = op {
            let lv = [Level::TRACE, Level::DEBUG, Level::INFO, Level::WARN, Level::ERROR][*level];
            let md = Metadata::new(target.as_str(), lv, module.as_deref());
            let h = do_register(&top, 0, *kind, name, labels, &md, false, out);
            let got = drain(&log);
            let (ltok, mtok) = (pairs(labels), meta_tok(&md));
            out.op(&format!("layers r {} {} {} {}", KINDS[*kind], hexs(name), ltok, mtok), &show(&got));
            shared.push(SharedReg { handle: h, kind: *kind, name: name.clone(), labels: ltok, meta: mtok });
        }
    }
    for (t, calls) in scripts.iter().enumerate() {
        for c in calls {
            out.op(&ccall_line(t, c), "ok");
            out.count(match c {
                CCall::D { .. } => "concurrent call: describe",
                CCall::R { .. } => "concurrent call: register",
                CCall::U { shared: true, .. } => "concurrent call: update through a handle shared between the threads",
                CCall::U { shared: false, .. } => "concurrent call: update through an own handle",
            });
        }
    }
    out.count(&format!("concurrent: {} client threads", scripts.len()));
    let n = scripts.len();
    match schedule {
        Some(sched) => {
            // the tree is shared by reference (`&T: Send` because the layers are `Sync`); it is leaked for the
            // duration of the process because the scheduler's threads are `'static` (small: a handful of nodes)
            let top_ref: &'static BoxRec = Box::leak(Box::new(top));
            let shared_handles: Arc<Vec<AnyHandle>> = Arc::new(shared.iter().map(|r| clone_handle(&r.handle)).collect());
            let bodies: Vec<Box<dyn FnOnce() + Send + 'static>> = scripts
                .iter()
                .enumerate()
                .map(|(t, calls)| {
                    let (calls, sh, log) = (calls.clone(), shared_handles.clone(), log.clone());
                    Box::new(move || client_body(t, top_ref.as_ref(), &sh, &calls, &log, false)) as Box<dyn FnOnce() + Send + 'static>
                })
                .collect();
            let res = crate::sched::run(bodies, sched);
            let entries: Vec<(usize, usize, String)> = log.lock().unwrap().drain(..).collect();
            if res.deadlock || res.timed_out || !res.panicked.is_empty() {
                out.oracle_fail(
                    "concurrent clients: the run did not complete",
                    &format!("tree {:?}; scripts {:?}; schedule {:?}: deadlock={} timed_out={} panicked={:?}", tree, scripts, sched, res.deadlock, res.timed_out, res.panicked),
                );
            }
            let taken: Vec<usize> = res.trace.iter().map(|(t, _)| *t).collect();
            out.op(&format!("layers crun {} {}", n, crate::sched::sched_tok(&taken)), &format!("done {}", conc_tok(&entries)));
            let switches = taken.windows(2).filter(|w| w[0] != w[1]).count();
            out.count(&format!("concurrent (scheduled): {} thread switches", bucket(switches)));
            // was some client call interrupted (another thread's delivery between two deliveries of one call)?
            let mut open: Vec<bool> = vec![false; n];
            let mut interrupted = false;
            for (t, id, _) in &entries {
                if *id == usize::MAX {
                    open[*t] = false;
                } else {
                    if open.iter().enumerate().any(|(u, o)| *o && u != *t) {
                        interrupted = true;
                    }
                    open[*t] = true;
                }
            }
            if interrupted {
                out.count("concurrent (scheduled): a call ran while another thread was in the middle of a multi-recorder call");
            }
            conc_oracle(out, tree, &shared, scripts, &entries, &format!("deterministic schedule {}", crate::sched::sched_tok(&taken)));
        }
        None => {
            let shared_handles: Vec<AnyHandle> = shared.iter().map(|r| clone_handle(&r.handle)).collect();
            let barrier = std::sync::Barrier::new(n);
            std::thread::scope(|sc| {
                for (t, calls) in scripts.iter().enumerate() {
                    let (top, sh, log, barrier) = (&top, &shared_handles, &log, &barrier);
                    sc.spawn(move || {
                        barrier.wait();
                        client_body(t, top.as_ref(), sh, calls, log, true)
                    });
                }
            });
            let entries: Vec<(usize, usize, String)> = log.lock().unwrap().drain(..).collect();
            let per: Vec<String> = (0..n)
                .map(|t| {
                    let evs: Vec<String> =
                        entries.iter().filter(|e| e.0 == t && e.1 != usize::MAX).map(|(_, id, ev)| format!("{}:{}", id, ev)).collect();
                    format!("{}>{}", t, if evs.is_empty() { "none".to_string() } else { evs.join(";") })
                })
                .collect();
            out.op(&format!("layers cfree {}", n), &per.join("|"));
            out.count(&format!("concurrent (free-running): {} calls into base recorders", bucket(entries.iter().filter(|e| e.1 != usize::MAX).count())));
            conc_oracle(out, tree, &shared, scripts, &entries, "free-running threads");
        }
    }
}

/// hand-picked concurrent cases: two / three threads registering DIFFERENT names that go to DIFFERENT router
/// targets, through a filter that drops one of them, and updating ONE shared fanned-out handle
fn conc_corpus() -> Vec<(&'static str, Tree, Vec<SOp>, Vec<Vec<CCall>>)> {
    let tree = Tree::S(
        vec![LayerSpec::F { ci: true, dfa: true, pats: vec![s("DROP")] }, LayerSpec::P(s("app"))],
        Box::new(Tree::R {
            dflt: Box::new(Tree::N(vec![b(0), b(1)])),
            routes: vec![(3, s("app.a"), Tree::N(vec![b(2), b(3)])), (0, s("app.ab"), b(4)), (3, s("app.b"), Tree::P(s("q"), Box::new(b(5))))],
        }),
    );
    let reg = |kind: usize, name: &str| CCall::R { kind, name: s(name), labels: vec![(s("k"), s("v"))], level: 2 };
    let prologue = vec![
        SOp::R { kind: 0, name: s("a.shared"), labels: vec![], target: s("mv"), level: 2, module: None },
        SOp::R { kind: 2, name: s("zz"), labels: vec![], target: s("mv"), level: 2, module: None },
    ];
    let t0 = vec![reg(0, "a1"), CCall::U { shared: false, i: 0, upd: Upd::CInc(1) }, reg(0, "ab1"), CCall::U { shared: true, i: 0, upd: Upd::CInc(10) }, CCall::U { shared: false, i: 1, upd: Upd::CAbs(2) }];
    let t1 = vec![reg(0, "b1"), reg(0, "x.drop"), CCall::U { shared: true, i: 0, upd: Upd::CInc(20) }, CCall::U { shared: false, i: 0, upd: Upd::CInc(3) }, CCall::U { shared: true, i: 1, upd: Upd::HMany(1.5, 2) }];
    let t2 = vec![CCall::D { kind: 1, name: s("a"), unit: Some(Unit::Bytes), desc: s("d") }, reg(1, "zzz"), CCall::U { shared: false, i: 0, upd: Upd::GSet(4.0) }, CCall::U { shared: true, i: 1, upd: Upd::HRec(0.5) }];
    vec![
        ("conc-two-threads-different-targets", tree.clone(), prologue.clone(), vec![t0.clone(), t1.clone()]),
        ("conc-three-threads", tree, prologue, vec![t0, t1, t2]),
    ]
}

fn gen_schedule(r: &mut Rng, n: usize, len: usize) -> Vec<usize> {
    // runs of random length: long runs (one thread finishes a call undisturbed) and single steps (switch inside calls)
    let mut s = vec![];
    while s.len() < len {
        let t = r.below(n);
        let run = if r.chance(1, 2) { 1 } else { r.range(1, 6) };
        for _ in 0..run {
            s.push(t);
        }
    }
    s
}

fn conc_cases(cfg: &Cfg, out: &mut Out) {
    let root = Rng::new(cfg.seed ^ 0xc13c0);
    for (ci, (tag, tree, prologue, scripts)) in conc_corpus().into_iter().enumerate() {
        let mut r = root.fork(1000 + ci as u64);
        // the extreme schedules, and seeded random ones
        let n = scripts.len();
        let mut scheds: Vec<Vec<usize>> = vec![vec![], (0..400).map(|i| i % n).collect(), (0..400).map(|i| n - 1 - (i % n)).collect()];
        for _ in 0..if cfg.thorough { 40 } else { 6 } {
            scheds.push(gen_schedule(&mut r, n, 200));
        }
        for (si, sc) in scheds.iter().enumerate() {
            out.case(&format!("corpus {} schedule#{}", tag, si));
            out.count("case: corpus (concurrent, scheduled)");
            run_conc_case(out, &tree, &prologue, &scripts, Some(sc));
        }
        out.case(&format!("corpus {} free", tag));
        out.count("case: corpus (concurrent, free-running)");
        run_conc_case(out, &tree, &prologue, &scripts, None);
    }
    let (n_sched, n_free) = if cfg.thorough { (400, 80) } else { (60, 24) };
    for i in 0..n_sched + n_free {
        let mut r = root.fork(i as u64);
        let scheduled = i < n_sched;
        out.case(&format!("seed={} conc i={}", cfg.seed, i));
        out.count(if scheduled { "case: generated (concurrent, scheduled)" } else { "case: generated (concurrent, free-running)" });
        let pool = Pool::new(&mut r);
        let mut next = 0usize;
        let mut budget: isize = 10;
        let depth = r.range(1, 3);
        let tree = gen_tree(&mut r, &pool, depth, &mut next, &mut budget, true, "");
        let mut pool = pool;
        hot_names(&tree, "", &mut pool.hot);
        pool.hot.sort();
        pool.hot.dedup();
        let nshared = r.range(0, 3);
        let mut shared_kinds = vec![];
        let mut prologue = vec![];
        for _ in 0..nshared {
            let kind = r.below(3);
            shared_kinds.push(kind);
            prologue.push(SOp::R { kind, name: pool.op_name(&mut r), labels: vec![], target: "mv".into(), level: 2, module: None });
        }
        let nthreads = if scheduled { r.range(2, 3) } else { r.range(2, 4) };
        if !scheduled && i % 2 == 0 {
            // "hammer": every thread registers (and now and then updates / describes) its OWN one or two names over
            // and over, the threads' names going to different targets / verdicts — anything a layer remembered from
            // one call to the next (a memo of the last route, of the last filter verdict, a scratch buffer for the
            // prefixed name) would be shared between the threads here.  Half of the time on the hand-picked tree.
            let (tree, names): (Tree, Vec<String>) = if i % 4 == 0 {
                (conc_corpus().remove(0).1, ["a1", "ab1", "b1", "zz", "x.drop", "a", "abx", "Drop.b"].iter().map(|x| x.to_string()).collect())
            } else {
                let mut names = pool.hot.clone();
                names.extend(pool.names.iter().cloned());
                (tree, names)
            };
            let iters = if cfg.thorough { 6000 } else { 3000 };
            let scripts: Vec<Vec<CCall>> = (0..nthreads)
                .map(|t| {
                    let mine: Vec<String> = (0..r.range(1, 2)).map(|j| names[(t * 2 + j + r.below(2)) % names.len()].clone()).collect();
                    let kind = r.below(3);
                    let mut calls = vec![];
                    for it in 0..iters {
                        let name = mine[it % mine.len()].clone();
                        match it % 16 {
                            7 => calls.push(CCall::D { kind, name, unit: None, desc: String::new() }),
                            11 if !calls.is_empty() => {
                                let nreg = calls.iter().filter(|c| matches!(c, CCall::R { .. })).count();
                                let upd = match kind {
                                    0 => Upd::CInc(it as u64),
                                    1 => Upd::GSet(it as f64),
                                    _ => Upd::HRec(it as f64),
                                };
                                calls.push(CCall::U { shared: false, i: nreg - 1, upd });
                            }
                            _ => calls.push(CCall::R { kind, name, labels: vec![], level: 2 }),
                        }
                    }
                    calls
                })
                .collect();
            out.count("case: generated (concurrent, free-running, hammer)");
            run_conc_case(out, &tree, &[], &scripts, None);
            continue;
        }
        let scripts: Vec<Vec<CCall>> = (0..nthreads)
            .map(|_| {
                let ncalls = if scheduled { r.range(2, 6) } else { r.range(300, 700) };
                gen_ccalls(&mut r, &pool, &shared_kinds, ncalls, scheduled)
            })
            .collect();
        if scheduled {
            let sched = gen_schedule(&mut r, nthreads, 300);
            run_conc_case(out, &tree, &prologue, &scripts, Some(&sched));
        } else {
            run_conc_case(out, &tree, &prologue, &scripts, None);
        }
    }
    if cfg.thorough {
        conc_enumerate(out);
    }
}

/// Small-scope enumeration: EVERY schedule of two client threads, each making one register that fans out to two
/// recorders behind a router and one update through its handle (thorough tier).
fn conc_enumerate(out: &mut Out) {
    let tree = Tree::R {
        dflt: Box::new(b(0)),
        routes: vec![(3, s("a"), Tree::N(vec![b(1), b(2)])), (3, s("b"), Tree::N(vec![b(3), Tree::P(s("p"), Box::new(b(4)))]))],
    };
    let scripts = vec![
        vec![CCall::R { kind: 0, name: s("a1"), labels: vec![], level: 2 }, CCall::U { shared: false, i: 0, upd: Upd::CInc(1) }],
        vec![CCall::R { kind: 0, name: s("b1"), labels: vec![], level: 2 }, CCall::U { shared: false, i: 0, upd: Upd::CInc(2) }],
    ];
    // first pass: collect every schedule (as the list of grants actually made) by depth-first replay
    let mut all: Vec<Vec<usize>> = vec![];
    {
        let log: Log = Arc::new(Mutex::new(vec![]));
        let top: &'static BoxRec = Box::leak(Box::new(build(&tree, &log)));
        let sc2 = scripts.clone();
        let mk = || -> Vec<Box<dyn FnOnce() + Send + 'static>> {
            sc2.iter()
                .enumerate()
                .map(|(t, calls)| {
                    let (calls, log) = (calls.clone(), log.clone());
                    Box::new(move || client_body(t, top.as_ref(), &[], &calls, &log, false)) as Box<dyn FnOnce() + Send + 'static>
                })
                .collect()
        };
        let (_runs, _exhausted) = crate::sched::enumerate(mk, |taken, _| all.push(taken.to_vec()), 400);
    }
    for (i, sc) in all.iter().enumerate() {
        out.case(&format!("enum-conc schedule#{}", i));
        out.count("case: enumerated schedule of two client threads");
        run_conc_case(out, &tree, &[], &scripts, Some(sc));
    }
}

pub fn run(cfg: &Cfg, out: &mut Out) {
    mask_cases(out);
    conc_cases(cfg, out);
    for (tag, tree, script) in corpus() {
        out.case(&format!("corpus {}", tag));
        out.count("case: corpus");
        run_case(out, &tree, &script);
    }
    enum_updates(out, 3);
    if cfg.thorough {
        enum_router(out, 2, 1, 0);
        // a seed-dependent third of the 10701 tables over strings up to length 3
        enum_router(out, 3, 3, cfg.seed as usize);
        enum_updates(out, 4);
    } else {
        // all 378 tables over strings up to length 2
        enum_router(out, 2, 1, 0);
    }
    let root = Rng::new(cfg.seed);
    for i in 0..cfg.cases {
        let mut r = root.fork(i as u64);
        out.case(&format!("seed={} i={}", cfg.seed, i));
        out.count("case: generated");
        let pool = Pool::new(&mut r);
        // size ceilings: now and then a deep (hence, with the node budget, narrow) tree
        let depth = if r.chance(1, 15) { r.range(6, 9) } else if cfg.thorough { r.range(1, 4) } else { r.range(1, 3) };
        let mut next = 0usize;
        let mut budget: isize = if cfg.thorough { 24 } else { 14 };
        let tree = gen_tree(&mut r, &pool, depth, &mut next, &mut budget, true, "");
        let mut pool = pool;
        hot_names(&tree, "", &mut pool.hot);
        pool.hot.sort();
        pool.hot.dedup();
        let n = r.range(6, 24);
        let script = gen_script(&mut r, &pool, n);
        run_case(out, &tree, &script);
    }
}
