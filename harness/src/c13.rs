//! C13 — layers deliver exactly the transformed operations to exactly the right recorders.
//!
//! Every case builds a REAL tree of `Stack`s / `Prefix` / `Filter` / `Router` / `Fanout` over logging
//! base recorders (which record every describe / register with all fields and every call on the handles
//! they return), sends describe / register / handle-update operations into the top and
//!   * writes each operation as a `layers …` line for the Lean model (`Driver/Layers.lean`) together with
//!     what each base recorder received (grouped per base, in order of reception);
//!   * checks what was received with an implementation-side oracle written from the property text
//!     (string concatenation, `str::contains` after `to_ascii_lowercase`, brute-force longest prefix over
//!     the route list, "every recorder once"), independent of the model and of aho-corasick / radix_trie.
#![allow(dead_code)]

use crate::c08::{unit_tok, UNITS};
use crate::util::*;
use metrics::{
    Counter, CounterFn, Gauge, GaugeFn, Histogram, HistogramFn, Key, KeyName, Label, Level, Metadata, Recorder,
    SharedString, Unit,
};
use metrics_util::layers::{FanoutBuilder, FilterLayer, Layer, PrefixLayer, RouterBuilder, Stack};
use metrics_util::MetricKindMask;
use std::collections::BTreeMap;
use std::sync::{Arc, Mutex};

// ---------------------------------------------------------------------------------------------
// logging doubles

type Log = Arc<Mutex<Vec<(usize, String)>>>;
type BoxRec = Box<dyn Recorder + Sync>;

const KINDS: [&str; 3] = ["c", "g", "h"];

fn level_idx(l: &Level) -> usize {
    [Level::TRACE, Level::DEBUG, Level::INFO, Level::WARN, Level::ERROR].iter().position(|x| x == l).unwrap()
}
fn meta_tok(m: &Metadata<'_>) -> String {
    format!("{}+{}+{}", hexs(m.target()), level_idx(m.level()), opt_hexs(m.module_path()))
}
fn key_labels(key: &Key) -> Vec<(String, String)> {
    key.labels().map(|l| (l.key().to_string(), l.value().to_string())).collect()
}

struct LogRec {
    id: usize,
    log: Log,
}

impl LogRec {
    fn describe(&self, kind: usize, name: KeyName, unit: Option<Unit>, desc: SharedString) {
        let ev = format!("D/{}/{}/{}/{}", KINDS[kind], hexs(name.as_str()), unit_tok(unit), hexs(desc.as_ref()));
        self.log.lock().unwrap().push((self.id, ev));
    }
    fn register(&self, kind: usize, key: &Key, m: &Metadata<'_>) -> Arc<LogHandle> {
        let desc = format!("{}/{}/{}/{}", KINDS[kind], hexs(key.name()), pairs(&key_labels(key)), meta_tok(m));
        self.log.lock().unwrap().push((self.id, format!("R/{}", desc)));
        Arc::new(LogHandle { id: self.id, log: self.log.clone(), desc })
    }
}

impl Recorder for LogRec {
    fn describe_counter(&self, n: KeyName, u: Option<Unit>, d: SharedString) {
        self.describe(0, n, u, d)
    }
    fn describe_gauge(&self, n: KeyName, u: Option<Unit>, d: SharedString) {
        self.describe(1, n, u, d)
    }
    fn describe_histogram(&self, n: KeyName, u: Option<Unit>, d: SharedString) {
        self.describe(2, n, u, d)
    }
    fn register_counter(&self, key: &Key, m: &Metadata<'_>) -> Counter {
        Counter::from_arc(self.register(0, key, m))
    }
    fn register_gauge(&self, key: &Key, m: &Metadata<'_>) -> Gauge {
        Gauge::from_arc(self.register(1, key, m))
    }
    fn register_histogram(&self, key: &Key, m: &Metadata<'_>) -> Histogram {
        Histogram::from_arc(self.register(2, key, m))
    }
}

struct LogHandle {
    id: usize,
    log: Log,
    desc: String,
}
impl LogHandle {
    fn push(&self, upd: String) {
        self.log.lock().unwrap().push((self.id, format!("U/{}/{}", self.desc, upd)));
    }
}
impl CounterFn for LogHandle {
    fn increment(&self, v: u64) {
        self.push(format!("ci{}", v))
    }
    fn absolute(&self, v: u64) {
        self.push(format!("ca{}", v))
    }
}
impl GaugeFn for LogHandle {
    fn increment(&self, v: f64) {
        self.push(format!("gi{}", v.to_bits()))
    }
    fn decrement(&self, v: f64) {
        self.push(format!("gd{}", v.to_bits()))
    }
    fn set(&self, v: f64) {
        self.push(format!("gs{}", v.to_bits()))
    }
}
impl HistogramFn for LogHandle {
    fn record(&self, v: f64) {
        self.push(format!("hr{}", v.to_bits()))
    }
    fn record_many(&self, v: f64, count: usize) {
        self.push(format!("hm{}x{}", v.to_bits(), count))
    }
}

// ---------------------------------------------------------------------------------------------
// recorder trees

#[derive(Clone, Debug)]
enum LayerSpec {
    P(String),
    F { ci: bool, dfa: bool, pats: Vec<String> },
}

#[derive(Clone, Debug)]
enum Tree {
    Base(usize),
    P(String, Box<Tree>),
    F { ci: bool, dfa: bool, pats: Vec<String>, inner: Box<Tree> },
    /// `Stack::new(inner).push(l₁)…push(lₙ)`
    S(Vec<LayerSpec>, Box<Tree>),
    /// mask: 0 counter, 1 gauge, 2 histogram, 3 ALL
    R { dflt: Box<Tree>, routes: Vec<(u8, String, Tree)> },
    N(Vec<Tree>),
}

const MASKS: [&str; 4] = ["c", "g", "h", "a"];

fn filter_tok(ci: bool, dfa: bool, pats: &[String]) -> String {
    let mut s = format!("f/{}/{}/{}", ci as u8, dfa as u8, pats.len());
    for p in pats {
        s.push('/');
        s.push_str(&hexs(p));
    }
    s
}

impl LayerSpec {
    fn tok(&self) -> String {
        match self {
            LayerSpec::P(p) => format!("p/{}", hexs(p)),
            LayerSpec::F { ci, dfa, pats } => filter_tok(*ci, *dfa, pats),
        }
    }
}

impl Tree {
    fn tok(&self) -> String {
        match self {
            Tree::Base(id) => format!("b/{}", id),
            Tree::P(p, t) => format!("p/{}/{}", hexs(p), t.tok()),
            Tree::F { ci, dfa, pats, inner } => format!("{}/{}", filter_tok(*ci, *dfa, pats), inner.tok()),
            Tree::S(ls, t) => {
                let mut s = format!("s/{}", ls.len());
                for l in ls {
                    s.push('/');
                    s.push_str(&l.tok());
                }
                format!("{}/{}", s, t.tok())
            }
            Tree::R { dflt, routes } => {
                let mut s = format!("r/{}/{}", routes.len(), dflt.tok());
                for (m, p, t) in routes {
                    s.push_str(&format!("/{}/{}/{}", MASKS[*m as usize], hexs(p), t.tok()));
                }
                s
            }
            Tree::N(ts) => {
                let mut s = format!("n/{}", ts.len());
                for t in ts {
                    s.push('/');
                    s.push_str(&t.tok());
                }
                s
            }
        }
    }
    fn bases(&self, acc: &mut Vec<usize>) {
        match self {
            Tree::Base(id) => acc.push(*id),
            Tree::P(_, t) | Tree::S(_, t) => t.bases(acc),
            Tree::F { inner, .. } => inner.bases(acc),
            Tree::R { dflt, routes } => {
                dflt.bases(acc);
                for (_, _, t) in routes {
                    t.bases(acc);
                }
            }
            Tree::N(ts) => {
                for t in ts {
                    t.bases(acc);
                }
            }
        }
    }
    fn depth(&self) -> usize {
        match self {
            Tree::Base(_) => 0,
            Tree::P(_, t) | Tree::S(_, t) => 1 + t.depth(),
            Tree::F { inner, .. } => 1 + inner.depth(),
            Tree::R { dflt, routes } => 1 + routes.iter().map(|r| r.2.depth()).chain([dflt.depth()]).max().unwrap(),
            Tree::N(ts) => 1 + ts.iter().map(|t| t.depth()).max().unwrap_or(0),
        }
    }
    fn kinds(&self, acc: &mut [usize; 5]) {
        match self {
            Tree::Base(_) => {}
            Tree::P(_, t) => {
                acc[0] += 1;
                t.kinds(acc)
            }
            Tree::F { inner, .. } => {
                acc[1] += 1;
                inner.kinds(acc)
            }
            Tree::S(_, t) => {
                acc[2] += 1;
                t.kinds(acc)
            }
            Tree::R { dflt, routes } => {
                acc[3] += 1;
                dflt.kinds(acc);
                for r in routes {
                    r.2.kinds(acc);
                }
            }
            Tree::N(ts) => {
                acc[4] += 1;
                for t in ts {
                    t.kinds(acc);
                }
            }
        }
    }
}

fn filter_layer(ci: bool, dfa: bool, pats: &[String]) -> FilterLayer {
    let mut f = FilterLayer::from_patterns(pats.iter());
    f.case_insensitive(ci).use_dfa(dfa);
    f
}

// A layer list becomes ONE statically typed `Stack<…>` for up to four pushes; longer lists continue on a
// `Stack` over the boxed stack built so far (a generic recursion must end somewhere).
macro_rules! push_fn {
    ($name:ident, $next:ident) => {
        fn $name<R: Recorder + Sync + 'static>(st: Stack<R>, layers: &[LayerSpec]) -> BoxRec {
            match layers.split_first() {
                None => Box::new(st),
                Some((LayerSpec::P(p), rest)) => $next(st.push(PrefixLayer::new(p.clone())), rest),
                Some((LayerSpec::F { ci, dfa, pats }, rest)) => $next(st.push(filter_layer(*ci, *dfa, pats)), rest),
            }
        }
    };
}
push_fn!(push4, push3);
push_fn!(push3, push2);
push_fn!(push2, push1);
push_fn!(push1, push0);
fn push0<R: Recorder + Sync + 'static>(st: Stack<R>, layers: &[LayerSpec]) -> BoxRec {
    if layers.is_empty() {
        Box::new(st)
    } else {
        push4(Stack::new(Box::new(st) as BoxRec), layers)
    }
}

fn mask_of(m: u8) -> MetricKindMask {
    match m {
        0 => MetricKindMask::COUNTER,
        1 => MetricKindMask::GAUGE,
        2 => MetricKindMask::HISTOGRAM,
        _ => MetricKindMask::ALL,
    }
}

fn build(t: &Tree, log: &Log) -> BoxRec {
    match t {
        Tree::Base(id) => Box::new(LogRec { id: *id, log: log.clone() }),
        Tree::P(p, inner) => Box::new(PrefixLayer::new(p.clone()).layer(build(inner, log))),
        Tree::F { ci, dfa, pats, inner } => Box::new(filter_layer(*ci, *dfa, pats).layer(build(inner, log))),
        Tree::S(layers, inner) => push4(Stack::new(build(inner, log)), layers),
        Tree::R { dflt, routes } => {
            let mut b = RouterBuilder::from_recorder(build(dflt, log));
            for (m, p, t) in routes {
                b.add_route(mask_of(*m), p, build(t, log));
            }
            Box::new(b.build())
        }
        Tree::N(ts) => {
            let mut b = FanoutBuilder::default();
            for t in ts {
                b = b.add_recorder(build(t, log));
            }
            Box::new(b.build())
        }
    }
}

// ---------------------------------------------------------------------------------------------
// implementation-side oracle (from the property text; no model, no trie, no automaton)

type Got = BTreeMap<usize, Vec<String>>;

fn silent(t: &Tree, got: &Got) -> Result<(), String> {
    let mut bs = vec![];
    t.bases(&mut bs);
    for b in bs {
        if got.get(&b).map_or(false, |v| !v.is_empty()) {
            return Err(format!("base {} must receive nothing but received {:?}", b, got[&b]));
        }
    }
    Ok(())
}

fn pat_matches(pats: &[String], ci: bool, name: &str) -> bool {
    pats.iter().any(|p| {
        if ci {
            name.to_ascii_lowercase().contains(&p.to_ascii_lowercase())
        } else {
            name.contains(p.as_str())
        }
    })
}

fn mask_covers(m: u8, kind: usize) -> bool {
    m == 3 || m as usize == kind
}

/// brute force: indices of the routes for `kind` whose pattern is a prefix of `name` and of maximal length
fn longest_routes(routes: &[(u8, String, Tree)], kind: usize, name: &str) -> Vec<usize> {
    let matching: Vec<usize> = (0..routes.len())
        .filter(|i| mask_covers(routes[*i].0, kind) && name.as_bytes().starts_with(routes[*i].1.as_bytes()))
        .collect();
    let best = matching.iter().map(|i| routes[*i].1.len()).max();
    matching.into_iter().filter(|i| Some(routes[*i].1.len()) == best).collect()
}

/// Does `got` (events per base recorder) agree with the property for an operation of `kind` entering `t`
/// under the name `name`?  `expect(name_at_base)` = the events a base recorder reached under that name
/// must have received.  Where the property leaves a choice (two routes with the same pattern for the same
/// kind) either target is accepted.
fn check(
    t: &Tree,
    kind: usize,
    name: &str,
    expect: &dyn Fn(&str) -> Vec<String>,
    got: &Got,
) -> Result<(), String> {
    match t {
        Tree::Base(id) => {
            let want = expect(name);
            let have = got.get(id).cloned().unwrap_or_default();
            if want == have {
                Ok(())
            } else {
                Err(format!("base {} (reached as {:?}) should have received {:?} but received {:?}", id, name, want, have))
            }
        }
        Tree::P(p, inner) => check(inner, kind, &format!("{}.{}", p, name), expect, got),
        Tree::F { ci, pats, inner, .. } => {
            if pat_matches(pats, *ci, name) {
                silent(inner, got).map_err(|e| format!("filter {:?} ci={} matches {:?}: {}", pats, ci, name, e))
            } else {
                check(inner, kind, name, expect, got)
            }
        }
        Tree::S(layers, inner) => {
            // the last pushed layer sees the operation first
            let mut cur = name.to_string();
            for l in layers.iter().rev() {
                match l {
                    LayerSpec::P(p) => cur = format!("{}.{}", p, cur),
                    LayerSpec::F { ci, pats, .. } => {
                        if pat_matches(pats, *ci, &cur) {
                            return silent(inner, got)
                                .map_err(|e| format!("stacked filter {:?} ci={} matches {:?}: {}", pats, ci, cur, e));
                        }
                    }
                }
            }
            check(inner, kind, &cur, expect, got)
        }
        Tree::R { dflt, routes } => {
            let cands = longest_routes(routes, kind, name);
            if cands.is_empty() {
                for (i, r) in routes.iter().enumerate() {
                    silent(&r.2, got).map_err(|e| format!("router: no route matches {:?}, target {}: {}", name, i, e))?;
                }
                check(dflt, kind, name, expect, got).map_err(|e| format!("router default for {:?}: {}", name, e))
            } else {
                let mut last_err = String::new();
                for c in &cands {
                    let mut ok = check(&routes[*c].2, kind, name, expect, got);
                    if ok.is_ok() {
                        ok = silent(dflt, got).map_err(|e| format!("default: {}", e));
                    }
                    for (i, r) in routes.iter().enumerate() {
                        if ok.is_ok() && i != *c {
                            ok = silent(&r.2, got).map_err(|e| format!("target {}: {}", i, e));
                        }
                    }
                    match ok {
                        Ok(()) => return Ok(()),
                        Err(e) => last_err = e,
                    }
                }
                Err(format!(
                    "router: {:?} kind {} must go to the target of the longest route (one of {:?}, pattern {:?}): {}",
                    name, KINDS[kind], cands, routes[cands[0]].1, last_err
                ))
            }
        }
        Tree::N(ts) => {
            for (i, t) in ts.iter().enumerate() {
                check(t, kind, name, expect, got).map_err(|e| format!("fanout child {}: {}", i, e))?;
            }
            Ok(())
        }
    }
}

/// `hm<v>x<n>` ↦ n × `hr<v>` (what the property counts: each update reaches each recorder once)
fn normalise_updates(evs: &[String]) -> Vec<String> {
    let mut out = vec![];
    for e in evs {
        let (head, upd) = e.rsplit_once('/').unwrap();
        if let Some(rest) = upd.strip_prefix("hm") {
            let (v, n) = rest.split_once('x').unwrap();
            for _ in 0..n.parse::<usize>().unwrap() {
                out.push(format!("{}/hr{}", head, v));
            }
        } else {
            out.push(e.clone());
        }
    }
    out
}

// ---------------------------------------------------------------------------------------------
// operations

#[derive(Clone, Debug)]
enum Upd {
    CInc(u64),
    CAbs(u64),
    GInc(f64),
    GDec(f64),
    GSet(f64),
    HRec(f64),
    HMany(f64, usize),
}
impl Upd {
    fn tok(&self) -> String {
        match self {
            Upd::CInc(v) => format!("ci{}", v),
            Upd::CAbs(v) => format!("ca{}", v),
            Upd::GInc(v) => format!("gi{}", v.to_bits()),
            Upd::GDec(v) => format!("gd{}", v.to_bits()),
            Upd::GSet(v) => format!("gs{}", v.to_bits()),
            Upd::HRec(v) => format!("hr{}", v.to_bits()),
            Upd::HMany(v, n) => format!("hm{}x{}", v.to_bits(), n),
        }
    }
    fn name(&self) -> &'static str {
        match self {
            Upd::CInc(_) => "increment",
            Upd::CAbs(_) => "absolute",
            Upd::GInc(_) => "g.increment",
            Upd::GDec(_) => "g.decrement",
            Upd::GSet(_) => "g.set",
            Upd::HRec(_) => "record",
            Upd::HMany(_, _) => "record_many",
        }
    }
}

#[derive(Clone, Debug)]
enum SOp {
    D { kind: usize, name: String, unit: Option<Unit>, desc: String },
    R { kind: usize, name: String, labels: Vec<(String, String)>, target: String, level: usize, module: Option<String> },
    U { handle: usize, upd: Upd },
}

enum AnyHandle {
    C(Counter),
    G(Gauge),
    H(Histogram),
}

struct Registered {
    handle: AnyHandle,
    kind: usize,
    name: String,
    labels: String,
    meta: String,
}

fn drain(log: &Log) -> Got {
    let mut got: Got = BTreeMap::new();
    for (id, ev) in log.lock().unwrap().drain(..) {
        got.entry(id).or_default().push(ev);
    }
    got
}

fn show(got: &Got) -> String {
    let parts: Vec<String> =
        got.iter().filter(|(_, evs)| !evs.is_empty()).map(|(id, evs)| format!("{}={}", id, evs.join(";"))).collect();
    if parts.is_empty() {
        return "none".into();
    }
    parts.join("|")
}

fn name_class(s: &str) -> &'static str {
    if s.is_empty() {
        "empty"
    } else if s.is_ascii() {
        "ascii"
    } else {
        "non-ascii"
    }
}

/// statistics only: which branches does the operation take (reference semantics)
fn trace(t: &Tree, kind: usize, name: &str, out: &mut Out) {
    match t {
        Tree::Base(_) => {}
        Tree::P(p, inner) => {
            out.count(if p.is_empty() { "prefix: empty prefix" } else { "prefix: non-empty prefix" });
            trace(inner, kind, &format!("{}.{}", p, name), out)
        }
        Tree::F { ci, pats, inner, .. } => {
            if trace_filter(pats, *ci, name, out) {
                trace(inner, kind, name, out)
            }
        }
        Tree::S(layers, inner) => {
            out.count(&format!("stack: {} layers", layers.len().min(5)));
            let mut cur = name.to_string();
            for l in layers.iter().rev() {
                match l {
                    LayerSpec::P(p) => cur = format!("{}.{}", p, cur),
                    LayerSpec::F { ci, pats, .. } => {
                        if !trace_filter(pats, *ci, &cur, out) {
                            return;
                        }
                    }
                }
            }
            trace(inner, kind, &cur, out)
        }
        Tree::R { dflt, routes } => {
            let any_mask = routes.iter().any(|r| mask_covers(r.0, kind));
            let matching =
                routes.iter().filter(|r| mask_covers(r.0, kind) && name.starts_with(r.1.as_str())).count();
            let cands = longest_routes(routes, kind, name);
            let other_kind_match =
                routes.iter().any(|r| !mask_covers(r.0, kind) && name.starts_with(r.1.as_str()));
            if !any_mask {
                out.count("router: default (no route for this kind at all)");
            } else if cands.is_empty() {
                out.count(if other_kind_match {
                    "router: default (only routes of another kind match)"
                } else {
                    "router: default (no route is a prefix)"
                });
            } else if cands.len() > 1 {
                out.count("router: longest route duplicated");
            } else if matching > 1 {
                out.count("router: longest of several matching routes");
            } else {
                out.count("router: single matching route");
            }
            if let Some(c) = cands.last() {
                if routes[*c].1.is_empty() {
                    out.count("router: chosen route is the empty pattern");
                }
                if routes[*c].1 == name {
                    out.count("router: name equals the chosen route");
                }
                trace(&routes[*c].2, kind, name, out)
            } else {
                trace(dflt, kind, name, out)
            }
        }
        Tree::N(ts) => {
            out.count(&format!("fanout: width {}", ts.len()));
            for t in ts {
                trace(t, kind, name, out);
            }
        }
    }
}

fn trace_filter(pats: &[String], ci: bool, name: &str, out: &mut Out) -> bool {
    let m = pat_matches(pats, ci, name);
    if m && ci && !pat_matches(pats, false, name) {
        out.count("filter: dropped (only thanks to case folding)");
    } else if m {
        out.count("filter: dropped");
    } else if !ci && pat_matches(pats, true, name) {
        out.count("filter: passed (would match case-insensitively)");
    } else {
        out.count("filter: passed");
    }
    !m
}

fn run_case(out: &mut Out, tree: &Tree, script: &[SOp]) {
    let log: Log = Arc::new(Mutex::new(vec![]));
    let top = build(tree, &log);
    out.op(&format!("layers new {}", tree.tok()), "ok");
    let mut ks = [0usize; 5];
    tree.kinds(&mut ks);
    out.count(&format!("tree: depth {}", tree.depth().min(6)));
    for (i, n) in ["prefix", "filter", "stack", "router", "fanout"].iter().enumerate() {
        if ks[i] > 0 {
            out.count(&format!("tree: has {}", n));
        }
    }
    if ks.iter().filter(|k| **k > 0).count() >= 2 {
        out.nontrivial();
    }
    let mut handles: Vec<Registered> = vec![];
    for op in script {
        match op {
            SOp::D { kind, name, unit, desc } => {
                let kn = KeyName::from(name.clone());
                let d: SharedString = desc.clone().into();
                match kind {
                    0 => top.describe_counter(kn, *unit, d),
                    1 => top.describe_gauge(kn, *unit, d),
                    _ => top.describe_histogram(kn, *unit, d),
                }
                let got = drain(&log);
                out.op(
                    &format!("layers d {} {} {} {}", KINDS[*kind], hexs(name), unit_tok(*unit), hexs(desc)),
                    &show(&got),
                );
                out.count("op: describe");
                out.count(&format!("name: {}", name_class(name)));
                trace(tree, *kind, name, out);
                let (k, u, d) = (KINDS[*kind], unit_tok(*unit), hexs(desc));
                let expect = move |n: &str| vec![format!("D/{}/{}/{}/{}", k, hexs(n), u, d)];
                if let Err(e) = check(tree, *kind, name, &expect, &got) {
                    out.oracle_fail(
                        "describe not delivered as the property demands",
                        &format!("tree {:?}; describe {} {:?}: {}", tree, k, name, e),
                    );
                }
                out.count(&format!("delivered to {} recorders", got.len().min(4)));
            }
            SOp::R { kind, name, labels, target, level, module } => {
                let key = Key::from_parts(
                    name.clone(),
                    labels.iter().map(|(k, v)| Label::new(k.clone(), v.clone())).collect::<Vec<_>>(),
                );
                let lv = [Level::TRACE, Level::DEBUG, Level::INFO, Level::WARN, Level::ERROR][*level];
                let md = Metadata::new(target.as_str(), lv, module.as_deref());
                let h = match kind {
                    0 => AnyHandle::C(top.register_counter(&key, &md)),
                    1 => AnyHandle::G(top.register_gauge(&key, &md)),
                    _ => AnyHandle::H(top.register_histogram(&key, &md)),
                };
                let got = drain(&log);
                let (ltok, mtok) = (pairs(labels), meta_tok(&md));
                out.op(&format!("layers r {} {} {} {}", KINDS[*kind], hexs(name), ltok, mtok), &show(&got));
                out.count("op: register");
                out.count(&format!("name: {}", name_class(name)));
                out.count(&format!("labels: {}", labels.len()));
                trace(tree, *kind, name, out);
                let k = KINDS[*kind];
                let (l2, m2) = (ltok.clone(), mtok.clone());
                let expect = move |n: &str| vec![format!("R/{}/{}/{}/{}", k, hexs(n), l2, m2)];
                if let Err(e) = check(tree, *kind, name, &expect, &got) {
                    out.oracle_fail(
                        "register not delivered as the property demands",
                        &format!("tree {:?}; register {} {:?}: {}", tree, k, name, e),
                    );
                }
                out.count(&format!("delivered to {} recorders", got.len().min(4)));
                handles.push(Registered { handle: h, kind: *kind, name: name.clone(), labels: ltok, meta: mtok });
            }
            SOp::U { handle, upd } => {
                let reg = &handles[*handle];
                match (&reg.handle, upd) {
                    (AnyHandle::C(c), Upd::CInc(v)) => c.increment(*v),
                    (AnyHandle::C(c), Upd::CAbs(v)) => c.absolute(*v),
                    (AnyHandle::G(g), Upd::GInc(v)) => g.increment(*v),
                    (AnyHandle::G(g), Upd::GDec(v)) => g.decrement(*v),
                    (AnyHandle::G(g), Upd::GSet(v)) => g.set(*v),
                    (AnyHandle::H(h), Upd::HRec(v)) => h.record(*v),
                    (AnyHandle::H(h), Upd::HMany(v, n)) => h.record_many(*v, *n),
                    _ => panic!("generator produced an update of the wrong kind"),
                }
                let got = drain(&log);
                // compared as samples: a received record_many(v, n) is shown as n × record(v)
                let norm: Got = got.iter().map(|(k, v)| (*k, normalise_updates(v))).collect();
                out.op(&format!("layers u {} {}", handle, upd.tok()), &show(&norm));
                if got.values().flatten().any(|e| e.contains("/hm")) {
                    out.count("leaf received record_many itself (no fan-out on the way)");
                }
                out.count(&format!("op: update {}", upd.name()));
                // oracle: every recorder that got the registration gets the update exactly once
                // (record_many(v, n) counted as n samples), nobody else gets anything
                let (k, l, m) = (KINDS[reg.kind], reg.labels.clone(), reg.meta.clone());
                let u = upd.tok();
                let expect = move |n: &str| {
                    normalise_updates(&[format!("U/{}/{}/{}/{}/{}", k, hexs(n), l, m, u)])
                };
                if let Err(e) = check(tree, reg.kind, &reg.name, &expect, &norm) {
                    out.oracle_fail(
                        "handle update not delivered once to every recorder behind the handle",
                        &format!(
                            "tree {:?}; handle of register {} {:?}; update {}: {}",
                            tree,
                            k,
                            reg.name,
                            upd.tok(),
                            e
                        ),
                    );
                }
                out.count(&format!("update reached {} recorders", got.len().min(4)));
            }
        }
    }
}

// ---------------------------------------------------------------------------------------------
// generators

const SEGS: &[&str] = &[
    "app", "App", "APP", "db", "http", "req", "a", "ab", "abc", "x", "_total", "Z", "é", "É", "日本", "ß", "\u{212a}",
    "k", "K", "ſ", "s", "S", "🦀", ".", "..", " ",
];
const PREFIXES: &[&str] = &["", "p", "app", "APP", "é", "svc.x", "a"];

struct Pool {
    names: Vec<String>,
}

fn flip_case(r: &mut Rng, s: &str) -> String {
    s.chars()
        .map(|c| {
            if c.is_ascii_alphabetic() && r.chance(1, 2) {
                if c.is_ascii_lowercase() {
                    c.to_ascii_uppercase()
                } else {
                    c.to_ascii_lowercase()
                }
            } else {
                c
            }
        })
        .collect()
}

fn gen_base_name(r: &mut Rng) -> String {
    let mut s = String::new();
    if r.chance(1, 3) {
        s.push_str(r.pick_str(PREFIXES));
        s.push('.');
    }
    for i in 0..r.range(1, 3) {
        if i > 0 && r.chance(1, 2) {
            s.push('.');
        }
        s.push_str(r.pick_str(SEGS));
    }
    s
}

fn char_prefix(r: &mut Rng, s: &str) -> String {
    let cs: Vec<char> = s.chars().collect();
    cs[..r.range(0, cs.len())].iter().collect()
}
fn char_infix(r: &mut Rng, s: &str) -> String {
    let cs: Vec<char> = s.chars().collect();
    let a = r.range(0, cs.len());
    let b = r.range(a, cs.len());
    cs[a..b].iter().collect()
}

impl Pool {
    fn new(r: &mut Rng) -> Pool {
        let n = r.range(2, 5);
        Pool { names: (0..n).map(|_| gen_base_name(r)).collect() }
    }
    fn any(&self, r: &mut Rng) -> String {
        r.pick(&self.names).clone()
    }
    /// a name for an operation: equal to / extending / a prefix of / diverging from pool names
    fn op_name(&self, r: &mut Rng) -> String {
        let base = self.any(r);
        match r.weighted(&[1, 7, 6, 3, 2, 2, 1]) {
            0 => String::new(),
            1 => base,
            2 => format!("{}{}", base, r.pick_str(&[".x", "_total", "é", "b", ".", "X"])),
            3 => char_prefix(r, &base),
            4 => flip_case(r, &base),
            5 => format!("{}{}", char_prefix(r, &base), r.pick_str(SEGS)),
            _ => wild_string(r, false),
        }
    }
    fn route(&self, r: &mut Rng) -> String {
        let base = self.any(r);
        match r.weighted(&[1, 4, 6, 2, 1, 1]) {
            0 => String::new(),
            1 => base,
            2 => char_prefix(r, &base),
            3 => format!("{}{}", base, r.pick_str(&[".x", "_total", "é", "b", "."])),
            4 => {
                let p = char_prefix(r, &base);
                flip_case(r, &p)
            }
            _ => format!("{}.{}", r.pick_str(PREFIXES), char_prefix(r, &base)),
        }
    }
    fn pattern(&self, r: &mut Rng) -> String {
        let base = self.any(r);
        match r.weighted(&[1, 5, 5, 2, 2, 1]) {
            0 => {
                if r.chance(1, 4) {
                    String::new()
                } else {
                    r.pick_str(SEGS).to_string()
                }
            }
            1 => {
                let s = char_infix(r, &base);
                if s.is_empty() {
                    base
                } else {
                    s
                }
            }
            2 => {
                let inf = char_infix(r, &base);
                let s = flip_case(r, &inf);
                if s.is_empty() {
                    flip_case(r, &base)
                } else {
                    s
                }
            }
            3 => r.pick_str(SEGS).to_string(),
            4 => format!("{}{}", char_infix(r, &base), r.pick_str(SEGS)),
            _ => r.pick_str(&["É", "é", "\u{212a}", "ſ", "ß", "SS", "日"]).to_string(),
        }
    }
}

fn gen_filter(r: &mut Rng, pool: &Pool) -> (bool, bool, Vec<String>) {
    let n = r.weighted(&[1, 5, 4, 2]);
    ((r.chance(1, 2)), r.chance(1, 2), (0..n).map(|_| pool.pattern(r)).collect())
}

fn gen_layer(r: &mut Rng, pool: &Pool) -> LayerSpec {
    if r.chance(1, 2) {
        LayerSpec::P(r.pick_str(PREFIXES).to_string())
    } else {
        let (ci, dfa, pats) = gen_filter(r, pool);
        LayerSpec::F { ci, dfa, pats }
    }
}

/// `ctx` = what the prefix layers above this node have put in front of the name so far
fn gen_tree(
    r: &mut Rng,
    pool: &Pool,
    depth: usize,
    next: &mut usize,
    budget: &mut isize,
    root: bool,
    ctx: &str,
) -> Tree {
    let leaf = depth == 0 || *budget <= 0;
    let k = if leaf { 0 } else { r.weighted(&[if root { 0 } else { 2 }, 2, 2, 4, 4, 3]) };
    *budget -= 1;
    match k {
        0 => {
            *next += 1;
            Tree::Base(*next - 1)
        }
        1 => {
            let p = r.pick_str(PREFIXES).to_string();
            let ctx2 = format!("{}.{}", p, ctx);
            Tree::P(p, Box::new(gen_tree(r, pool, depth - 1, next, budget, false, &ctx2)))
        }
        2 => {
            let (ci, dfa, pats) = gen_filter(r, pool);
            Tree::F { ci, dfa, pats, inner: Box::new(gen_tree(r, pool, depth - 1, next, budget, false, ctx)) }
        }
        3 => {
            let n = r.weighted(&[1, 3, 4, 3, 2, 1, 1]);
            let layers: Vec<LayerSpec> = (0..n).map(|_| gen_layer(r, pool)).collect();
            let mut ctx2 = ctx.to_string();
            for l in layers.iter().rev() {
                if let LayerSpec::P(p) = l {
                    ctx2 = format!("{}.{}", p, ctx2);
                }
            }
            Tree::S(layers, Box::new(gen_tree(r, pool, depth - 1, next, budget, false, &ctx2)))
        }
        4 => {
            let dflt = Box::new(gen_tree(r, pool, depth - 1, next, budget, false, ctx));
            let n = r.weighted(&[1, 2, 4, 4, 3, 2]);
            let mut routes: Vec<(u8, String, Tree)> = vec![];
            // half of the patterns are prefixes of one focus name, so that several routes overlap on it
            let focus = pool.any(r);
            for _ in 0..n {
                let mask = r.weighted(&[2, 2, 2, 3]) as u8;
                // duplicated patterns on purpose
                let pat = if !routes.is_empty() && r.chance(1, 4) {
                    routes[r.below(routes.len())].1.clone()
                } else {
                    let tail = if r.chance(1, 2) { char_prefix(r, &focus) } else { pool.route(r) };
                    // below prefix layers: mostly routes that take the added prefixes into account
                    match r.below(8) {
                        0 => tail,
                        1 => char_prefix(r, ctx),
                        _ => format!("{}{}", ctx, tail),
                    }
                };
                routes.push((mask, pat, gen_tree(r, pool, depth.saturating_sub(2), next, budget, false, ctx)));
            }
            Tree::R { dflt, routes }
        }
        _ => {
            let w = r.weighted(&[1, 2, 5, 4, 2]);
            Tree::N((0..w).map(|_| gen_tree(r, pool, depth - 1, next, budget, false, ctx)).collect())
        }
    }
}

const F64S: [f64; 8] = [0.0, -0.0, 1.0, 2.5, -7.25, f64::NAN, f64::INFINITY, 1e300];

fn gen_upd(r: &mut Rng, kind: usize) -> Upd {
    let v = *r.pick(&F64S);
    match kind {
        0 => {
            let n = *r.pick(&[0u64, 1, 5, 1 << 40, u64::MAX]);
            if r.chance(2, 3) {
                Upd::CInc(n)
            } else {
                Upd::CAbs(n)
            }
        }
        1 => match r.below(3) {
            0 => Upd::GInc(v),
            1 => Upd::GDec(v),
            _ => Upd::GSet(v),
        },
        _ => {
            if r.chance(1, 2) {
                Upd::HRec(v)
            } else {
                Upd::HMany(v, r.weighted(&[1, 2, 2, 2, 1]))
            }
        }
    }
}

fn gen_script(r: &mut Rng, pool: &Pool, n: usize) -> Vec<SOp> {
    let mut script = vec![];
    let mut kinds: Vec<usize> = vec![];
    for _ in 0..n {
        let c = if kinds.is_empty() { r.weighted(&[3, 5]) } else { r.weighted(&[3, 4, 4]) };
        match c {
            0 => script.push(SOp::D {
                kind: r.below(3),
                name: pool.op_name(r),
                unit: if r.chance(1, 3) { None } else { Some(*r.pick(&UNITS)) },
                desc: wild_string(r, false),
            }),
            1 => {
                let kind = r.below(3);
                let labels =
                    (0..r.weighted(&[3, 3, 2, 1])).map(|_| (wild_string(r, true), wild_string(r, false))).collect();
                kinds.push(kind);
                script.push(SOp::R {
                    kind,
                    name: pool.op_name(r),
                    labels,
                    target: r.pick_str(&["mv", "", "a::b", "é"]).to_string(),
                    level: r.below(5),
                    module: if r.chance(1, 2) { None } else { Some(r.pick_str(&["mv::m", ""]).to_string()) },
                });
            }
            _ => {
                let h = r.below(kinds.len());
                script.push(SOp::U { handle: h, upd: gen_upd(r, kinds[h]) });
            }
        }
    }
    script
}

// ---------------------------------------------------------------------------------------------
// corpus: hand-picked trees, every name × every kind × describe / register / updates

fn s(x: &str) -> String {
    x.to_string()
}
fn b(id: usize) -> Tree {
    Tree::Base(id)
}

fn full_script(names: &[&str]) -> Vec<SOp> {
    let mut script = vec![];
    let mut nh = 0;
    for name in names {
        for kind in 0..3 {
            script.push(SOp::D { kind, name: s(name), unit: Some(Unit::Bytes), desc: s("d\n\"x") });
            script.push(SOp::R {
                kind,
                name: s(name),
                labels: vec![(s("k"), s("v")), (s("k"), s(""))],
                target: s("mv"),
                level: 2,
                module: None,
            });
            let upds = match kind {
                0 => vec![Upd::CInc(3), Upd::CAbs(u64::MAX)],
                1 => vec![Upd::GInc(1.5), Upd::GDec(f64::NAN), Upd::GSet(-0.0)],
                _ => vec![Upd::HRec(2.5), Upd::HMany(1.0, 3), Upd::HMany(1.0, 0)],
            };
            for u in upds {
                script.push(SOp::U { handle: nh, upd: u });
            }
            nh += 1;
        }
    }
    script
}

fn corpus() -> Vec<(&'static str, Tree, Vec<SOp>)> {
    let names = ["", "a", "ab", "abc", "abd", "abcd", "b", "A", "AB", ".", "a.", "é", "ébc", "日本", "日"];
    let overlapping = Tree::R {
        dflt: Box::new(b(0)),
        routes: vec![
            (3, s("a"), b(1)),
            (0, s("ab"), b(2)),
            (3, s("abc"), b(3)),
            (1, s("abcd"), b(4)),
            (2, s("é"), b(5)),
            (3, s("日本"), b(6)),
        ],
    };
    let empty_route = Tree::R {
        dflt: Box::new(b(0)),
        routes: vec![(0, s(""), b(1)), (3, s("ab"), b(2)), (1, s(""), b(3)), (1, s(""), b(4))],
    };
    let dup = Tree::R {
        dflt: Box::new(b(0)),
        routes: vec![(3, s("ab"), b(1)), (0, s("ab"), b(2)), (3, s("a"), b(3)), (1, s("ab"), b(4)), (3, s("ab"), b(5))],
    };
    let only_hist = Tree::R { dflt: Box::new(b(0)), routes: vec![(2, s("a"), b(1))] };
    let no_routes = Tree::R { dflt: Box::new(b(0)), routes: vec![] };
    let fnames = ["", "abc", "ABC", "xaBcx", "ab", "k", "K", "\u{212a}", "é", "É", "s", "ſ", "straße", "STRASSE"];
    let filt = |ci: bool, dfa: bool, pats: &[&str]| Tree::F {
        ci,
        dfa,
        pats: pats.iter().map(|p| s(p)).collect(),
        inner: Box::new(b(0)),
    };
    let stack3 = Tree::S(
        vec![
            LayerSpec::P(s("in")),
            LayerSpec::F { ci: false, dfa: true, pats: vec![s("out.a")] },
            LayerSpec::P(s("out")),
            LayerSpec::F { ci: true, dfa: false, pats: vec![s("OUT")] },
        ],
        Box::new(b(0)),
    );
    let long_stack = Tree::S(
        (0..7)
            .map(|i| if i % 3 == 2 { LayerSpec::F { ci: i == 5, dfa: true, pats: vec![s("p2.p1.p0.A")] } } else { LayerSpec::P(format!("p{}", i)) })
            .collect(),
        Box::new(b(0)),
    );
    let fan = Tree::N(vec![
        b(0),
        Tree::N(vec![]),
        Tree::N(vec![b(1), Tree::N(vec![b(2), b(3)])]),
        Tree::F { ci: false, dfa: true, pats: vec![s("b")], inner: Box::new(b(4)) },
        Tree::P(s(""), Box::new(b(5))),
    ]);
    let mixed = Tree::S(
        vec![LayerSpec::F { ci: true, dfa: true, pats: vec![s("DROP")] }, LayerSpec::P(s("app"))],
        Box::new(Tree::R {
            dflt: Box::new(b(0)),
            routes: vec![
                (3, s("app."), Tree::N(vec![b(1), b(2)])),
                (0, s("app.a"), Tree::P(s("c"), Box::new(b(3)))),
                (3, s("a"), b(4)),
            ],
        }),
    );
    vec![
        ("router-overlapping", overlapping, full_script(&names)),
        ("router-empty-route", empty_route, full_script(&names)),
        ("router-duplicates", dup, full_script(&names)),
        ("router-single-kind", only_hist, full_script(&names)),
        ("router-no-routes", no_routes, full_script(&["", "a"])),
        ("filter-cs", filt(false, true, &["abc", "k", "é", "ss"]), full_script(&fnames)),
        ("filter-ci-dfa", filt(true, true, &["aBc", "K", "É", "SS"]), full_script(&fnames)),
        ("filter-ci-nfa", filt(true, false, &["aBc", "\u{212a}", "é", "ſ"]), full_script(&fnames)),
        ("filter-empty-pattern", filt(false, true, &[""]), full_script(&["", "a"])),
        ("filter-no-patterns", filt(true, true, &[]), full_script(&["", "a"])),
        ("prefix-empty", Tree::P(s(""), Box::new(Tree::P(s("é"), Box::new(b(0))))), full_script(&["", "a", "."])),
        ("stack-order", stack3, full_script(&["a", "b", "out", "x"])),
        ("stack-long", long_stack, full_script(&["a", "A", "b"])),
        ("fanout-nested", fan, full_script(&["a", "b", ""])),
        ("mixed", mixed, full_script(&["", "a", "b", "drop", "xDrOpx", "a.DROP"])),
    ]
}

pub fn run(cfg: &Cfg, out: &mut Out) {
    for (tag, tree, script) in corpus() {
        out.case(&format!("corpus {}", tag));
        out.count("case: corpus");
        run_case(out, &tree, &script);
    }
    let root = Rng::new(cfg.seed);
    for i in 0..cfg.cases {
        let mut r = root.fork(i as u64);
        out.case(&format!("seed={} i={}", cfg.seed, i));
        out.count("case: generated");
        let pool = Pool::new(&mut r);
        let depth = if cfg.thorough { r.range(1, 4) } else { r.range(1, 3) };
        let mut next = 0usize;
        let mut budget: isize = if cfg.thorough { 24 } else { 14 };
        let tree = gen_tree(&mut r, &pool, depth, &mut next, &mut budget, true, "");
        let n = r.range(6, 24);
        let script = gen_script(&mut r, &pool, n);
        run_case(out, &tree, &script);
    }
}
