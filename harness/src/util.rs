//! Shared plumbing: one PRNG, hex line protocol, output streams, counters.
#![allow(dead_code)]

use std::collections::{BTreeMap, BTreeSet};
use std::fmt::Write as _;
use std::fs::File;
use std::io::{BufWriter, Write};
use std::path::{Path, PathBuf};

/// splitmix64-seeded xoshiro256**; every random choice of a run comes from one of these.
#[derive(Clone)]
pub struct Rng {
    s: [u64; 4],
}

impl Rng {
    pub fn new(seed: u64) -> Rng {
        let mut z = seed.wrapping_add(0x9E37_79B9_7F4A_7C15);
        let mut next = || {
            z = z.wrapping_add(0x9E37_79B9_7F4A_7C15);
            let mut x = z;
            x = (x ^ (x >> 30)).wrapping_mul(0xBF58_476D_1CE4_E5B9);
            x = (x ^ (x >> 27)).wrapping_mul(0x94D0_49BB_1331_11EB);
            x ^ (x >> 31)
        };
        Rng { s: [next(), next(), next(), next()] }
    }
    /// independent stream for case `i` of a run
    pub fn fork(&self, i: u64) -> Rng {
        Rng::new(self.s[0] ^ i.wrapping_mul(0xA24B_AED4_963E_E407) ^ self.s[2].rotate_left(17))
    }
    pub fn next(&mut self) -> u64 {
        let r = self.s[1].wrapping_mul(5).rotate_left(7).wrapping_mul(9);
        let t = self.s[1] << 17;
        self.s[2] ^= self.s[0];
        self.s[3] ^= self.s[1];
        self.s[1] ^= self.s[2];
        self.s[0] ^= self.s[3];
        self.s[2] ^= t;
        self.s[3] = self.s[3].rotate_left(45);
        r
    }
    /// uniform in 0..n (n > 0)
    pub fn below(&mut self, n: usize) -> usize {
        (self.next() % (n as u64)) as usize
    }
    pub fn range(&mut self, lo: usize, hi_incl: usize) -> usize {
        lo + self.below(hi_incl - lo + 1)
    }
    pub fn chance(&mut self, num: usize, den: usize) -> bool {
        self.below(den) < num
    }
    pub fn pick<'a, T>(&mut self, xs: &'a [T]) -> &'a T {
        &xs[self.below(xs.len())]
    }
    pub fn pick_str(&mut self, xs: &[&'static str]) -> &'static str {
        xs[self.below(xs.len())]
    }
    /// weighted choice: returns index
    pub fn weighted(&mut self, w: &[usize]) -> usize {
        let total: usize = w.iter().sum();
        let mut x = self.below(total);
        for (i, wi) in w.iter().enumerate() {
            if x < *wi {
                return i;
            }
            x -= wi;
        }
        w.len() - 1
    }
}

pub fn hex(bytes: &[u8]) -> String {
    if bytes.is_empty() {
        return "-".to_string();
    }
    let mut s = String::with_capacity(bytes.len() * 2);
    for b in bytes {
        write!(s, "{:02x}", b).unwrap();
    }
    s
}
pub fn hexs(s: &str) -> String {
    hex(s.as_bytes())
}
pub fn opt_hexs(s: Option<&str>) -> String {
    match s {
        Some(s) => hexs(s),
        None => "~".to_string(),
    }
}
pub fn unhex(s: &str) -> Vec<u8> {
    if s == "-" {
        return vec![];
    }
    (0..s.len() / 2).map(|i| u8::from_str_radix(&s[2 * i..2 * i + 2], 16).unwrap()).collect()
}
/// list token: items joined by `,`, `.` when empty
pub fn list<I: IntoIterator<Item = String>>(items: I) -> String {
    let v: Vec<String> = items.into_iter().collect();
    if v.is_empty() {
        ".".to_string()
    } else {
        v.join(",")
    }
}
pub fn pairs(kv: &[(String, String)]) -> String {
    list(kv.iter().map(|(k, v)| format!("{}:{}", hexs(k), hexs(v))))
}
pub fn f64bits(v: f64) -> String {
    format!("{:016x}", v.to_bits())
}

// ---------------------------------------------------------------------------------------------
// string generators (shared by most properties)

const DELIMS: &[&str] =
    &["\"", "\\", "\n", ":", "|", "#", ",", "@", "{", "}", "=", " ", "\t", "\r", "_", ".", "-", "/"];
const IDENT: &[&str] = &["a", "b", "lat", "reqs", "x_1", "Total", "http", "ns", "le", "quantile", "A9"];
const UNI: &[&str] = &["é", "ß", "λ", "日本", "🦀", "\u{0}", "\u{7f}", "\u{85}", "\u{2028}", "\u{feff}", "Ω"];

/// A "hostile" string: class chosen first, then content. `nonempty` forces length ≥ 1.
pub fn wild_string(r: &mut Rng, nonempty: bool) -> String {
    let class = r.weighted(&[1, 4, 5, 2, 3, 1, 2]);
    let mut s = String::new();
    match class {
        0 => {}
        1 => s.push_str(r.pick_str(IDENT)),
        2 => {
            // delimiter heavy
            for _ in 0..r.range(1, 8) {
                match r.below(3) {
                    0 => s.push_str(r.pick_str(IDENT)),
                    _ => s.push_str(r.pick_str(DELIMS)),
                }
            }
        }
        3 => {
            s.push_str(&r.below(10).to_string());
            s.push_str(r.pick_str(IDENT));
        }
        4 => {
            for _ in 0..r.range(1, 5) {
                match r.below(3) {
                    0 => s.push_str(r.pick_str(IDENT)),
                    1 => s.push_str(r.pick_str(DELIMS)),
                    _ => s.push_str(r.pick_str(UNI)),
                }
            }
        }
        5 => {
            // backslash runs around quotes / newlines
            for _ in 0..r.range(1, 6) {
                match r.below(5) {
                    0 | 1 => s.push('\\'),
                    2 => s.push('"'),
                    3 => s.push('\n'),
                    _ => s.push_str(r.pick_str(IDENT)),
                }
            }
        }
        _ => {
            // forged exposition fragments
            let frags = [
                "\"} 1\n# TYPE evil counter\nevil 1\n",
                "x\\",
                "\\\"",
                "\\n",
                "a\" ,b=\"c",
                "\n\n",
                "} 5",
                "# HELP x y",
            ];
            s.push_str(r.pick_str(&frags));
        }
    }
    if nonempty && s.is_empty() {
        s.push_str(r.pick_str(IDENT));
    }
    s
}

/// plain identifier-ish string from a small pool (so equal names recur)
pub fn ident(r: &mut Rng) -> String {
    r.pick_str(IDENT).to_string()
}

// ---------------------------------------------------------------------------------------------
// stall watchdog: a run of the REAL code that stops making progress (a call that never returns: deadlock,
// livelock, unbounded wait) must end as a reported failure, not as a hung check. `Out::case` / `Out::op` bump a
// progress counter and keep a copy of the current case; the watchdog thread writes `stall.json` (case number, tag,
// ops issued so far) when nothing moved for `VERIF_STALL_S` seconds (default 600) and aborts the process. All
// streams are flushed at every case start and the oracle stream at every failure, so what was found before the
// stall (or before a crash) is not lost.

static PROGRESS: std::sync::atomic::AtomicU64 = std::sync::atomic::AtomicU64::new(0);
static CUR_CASE: std::sync::Mutex<(u64, String, Vec<String>)> = std::sync::Mutex::new((0, String::new(), Vec::new()));

fn progress() {
    PROGRESS.fetch_add(1, std::sync::atomic::Ordering::Relaxed);
}

pub fn start_watchdog(dir: &Path) {
    let dir = dir.to_path_buf();
    let limit: u64 = std::env::var("VERIF_STALL_S").ok().and_then(|s| s.parse().ok()).unwrap_or(600);
    std::thread::Builder::new()
        .name("mv-watchdog".into())
        .spawn(move || {
            let mut last = PROGRESS.load(std::sync::atomic::Ordering::Relaxed);
            let mut idle = 0u64;
            loop {
                std::thread::sleep(std::time::Duration::from_secs(1));
                let now = PROGRESS.load(std::sync::atomic::Ordering::Relaxed);
                if now != last {
                    last = now;
                    idle = 0;
                    continue;
                }
                idle += 1;
                if idle >= limit {
                    let (n, tag, ops) = match CUR_CASE.lock() {
                        Ok(g) => g.clone(),
                        Err(e) => e.into_inner().clone(),
                    };
                    let body = format!(
                        "{{\"case\":{},\"tag\":{},\"stalled_s\":{},\"ops\":{}}}\n",
                        n,
                        json_str(&tag),
                        idle,
                        json_str(&ops.join("\n"))
                    );
                    let _ = std::fs::write(dir.join("stall.json"), body);
                    eprintln!("mv-harness: no progress for {} s in case {} {} — giving up", idle, n, tag);
                    std::process::abort();
                }
            }
        })
        .expect("watchdog thread");
}

// ---------------------------------------------------------------------------------------------
// output

pub struct Out {
    pub dir: PathBuf,
    ops: BufWriter<File>,
    imp: BufWriter<File>,
    oracle: BufWriter<File>,
    pub n_ops: u64,
    pub n_cases: u64,
    pub n_oracle_fail: u64,
    pub counters: BTreeMap<String, u64>,
    pub distinct: BTreeSet<u64>,
    pub samples: Vec<String>,
    cur_case: Vec<String>,
    cur_nontrivial: bool,
    pub nontrivial_distinct: u64,
}

impl Out {
    pub fn new(dir: &Path) -> Out {
        std::fs::create_dir_all(dir).unwrap();
        let f = |n: &str| BufWriter::new(File::create(dir.join(n)).unwrap());
        Out {
            dir: dir.to_path_buf(),
            ops: f("ops.txt"),
            imp: f("impl.txt"),
            oracle: f("oracle.jsonl"),
            n_ops: 0,
            n_cases: 0,
            n_oracle_fail: 0,
            counters: BTreeMap::new(),
            distinct: BTreeSet::new(),
            samples: vec![],
            cur_case: vec![],
            cur_nontrivial: false,
            nontrivial_distinct: 0,
        }
    }
    /// start of an independent case; `tag` is free text (seed / index), echoed by the model driver
    pub fn case(&mut self, tag: &str) {
        self.end_case();
        self.n_cases += 1;
        let l = format!("# case {} {}", self.n_cases, tag);
        writeln!(self.ops, "{}", l).unwrap();
        writeln!(self.imp, "{}", l).unwrap();
        // keep the files consistent up to the start of the case that is running (see the watchdog above)
        self.ops.flush().unwrap();
        self.imp.flush().unwrap();
        if let Ok(mut g) = CUR_CASE.lock() {
            *g = (self.n_cases, tag.to_string(), Vec::new());
        }
        progress();
    }
    fn end_case(&mut self) {
        if self.cur_case.is_empty() {
            return;
        }
        let mut h: u64 = 0xcbf2_9ce4_8422_2325;
        for l in &self.cur_case {
            for b in l.as_bytes() {
                h = (h ^ (*b as u64)).wrapping_mul(0x100_0000_01b3);
            }
            h = (h ^ 0xff).wrapping_mul(0x100_0000_01b3);
        }
        if self.distinct.insert(h) && self.cur_nontrivial {
            self.nontrivial_distinct += 1;
        }
        if self.samples.len() < 5 {
            let mut s = self.cur_case.join(" ; ");
            if s.len() > 600 {
                s.truncate(600);
                s.push('…');
            }
            self.samples.push(s);
        }
        self.cur_case.clear();
        self.cur_nontrivial = false;
    }
    /// one op for the model with the implementation's answer
    pub fn op(&mut self, op: &str, impl_answer: &str) {
        debug_assert!(!op.contains('\n') && !impl_answer.contains('\n'));
        writeln!(self.ops, "{}", op).unwrap();
        writeln!(self.imp, "{}", impl_answer).unwrap();
        self.n_ops += 1;
        self.cur_case.push(op.to_string());
        if let Ok(mut g) = CUR_CASE.lock() {
            if g.2.len() < 4000 {
                g.2.push(op.to_string());
            }
        }
        progress();
    }
    /// mark the current case as non-trivial by the property's rule
    pub fn nontrivial(&mut self) {
        self.cur_nontrivial = true;
    }
    pub fn count(&mut self, key: &str) {
        *self.counters.entry(key.to_string()).or_insert(0) += 1;
    }
    pub fn count_n(&mut self, key: &str, n: u64) {
        *self.counters.entry(key.to_string()).or_insert(0) += n;
    }
    /// an implementation-side oracle failed: the property is violated on the real code
    pub fn oracle_fail(&mut self, what: &str, detail: &str) {
        self.n_oracle_fail += 1;
        // bounded records: an enumeration case can hold tens of thousands of ops and a trace can be very long; a run
        // with thousands of (known) failures must not write gigabytes. Kept: the first 3 and the last 40 ops of the
        // case (the failing op is the latest one), 4 KB of detail; after 3000 failures only `what` and a short detail.
        let clipped = |s: &str, n: usize| -> String {
            if s.len() <= n {
                s.to_string()
            } else {
                let mut k = n;
                while !s.is_char_boundary(k) {
                    k -= 1;
                }
                format!("{}… [{} bytes cut]", &s[..k], s.len() - k)
            }
        };
        let detail = &clipped(detail, if self.n_oracle_fail > 3000 { 300 } else { 4096 });
        let case = if self.n_oracle_fail > 3000 {
            self.cur_case.last().map(|l| clipped(l, 2000)).unwrap_or_default()
        } else if self.cur_case.len() > 45 {
            let mut v: Vec<String> = self.cur_case[..3].iter().map(|l| clipped(l, 20_000)).collect();
            v.push(format!("# … {} ops of this case left out …", self.cur_case.len() - 43));
            v.extend(self.cur_case[self.cur_case.len() - 40..].iter().map(|l| clipped(l, 20_000)));
            v.join("\n")
        } else {
            self.cur_case.iter().map(|l| clipped(l, 20_000)).collect::<Vec<_>>().join("\n")
        };
        writeln!(
            self.oracle,
            "{{\"case\":{},\"what\":{},\"detail\":{},\"ops\":{}}}",
            self.n_cases,
            json_str(what),
            json_str(detail),
            json_str(&case)
        )
        .unwrap();
        self.oracle.flush().unwrap();
        progress();
    }
    pub fn finish(mut self) {
        self.end_case();
        self.ops.flush().unwrap();
        self.imp.flush().unwrap();
        self.oracle.flush().unwrap();
        let mut s = String::new();
        s.push_str("{\n");
        writeln!(s, " \"ops\": {},", self.n_ops).unwrap();
        writeln!(s, " \"cases\": {},", self.n_cases).unwrap();
        writeln!(s, " \"distinct_cases\": {},", self.distinct.len()).unwrap();
        writeln!(s, " \"distinct_nontrivial\": {},", self.nontrivial_distinct).unwrap();
        writeln!(s, " \"oracle_failures\": {},", self.n_oracle_fail).unwrap();
        s.push_str(" \"distribution\": {");
        let mut first = true;
        for (k, v) in &self.counters {
            if !first {
                s.push(',');
            }
            first = false;
            write!(s, "{}:{}", json_str(k), v).unwrap();
        }
        s.push_str("},\n \"samples\": [");
        for (i, x) in self.samples.iter().enumerate() {
            if i > 0 {
                s.push(',');
            }
            s.push_str(&json_str(x));
        }
        s.push_str("]\n}\n");
        std::fs::write(self.dir.join("stats.json"), s).unwrap();
    }
}

pub fn json_str(s: &str) -> String {
    let mut o = String::with_capacity(s.len() + 2);
    o.push('"');
    for c in s.chars() {
        match c {
            '"' => o.push_str("\\\""),
            '\\' => o.push_str("\\\\"),
            '\n' => o.push_str("\\n"),
            '\r' => o.push_str("\\r"),
            '\t' => o.push_str("\\t"),
            c if (c as u32) < 0x20 => write!(o, "\\u{:04x}", c as u32).unwrap(),
            c => o.push(c),
        }
    }
    o.push('"');
    o
}

pub struct Cfg {
    pub seed: u64,
    pub cases: usize,
    pub thorough: bool,
    pub out: PathBuf,
    pub replay: Option<PathBuf>,
}
