//! Strict reader of the Prometheus text exposition format 0.0.4, written from the format description
//! (independent of the repo's writer and of the Lean reader). Implementation-side oracle for C07/C08/C18.
#![allow(dead_code)]

#[derive(Debug, Clone, PartialEq)]
pub enum PLine {
    Help { name: String, doc: String },
    Type { name: String, ty: String },
    Sample { name: String, labels: Vec<(String, String)>, value: String },
    Blank,
}

fn name_start(c: char) -> bool {
    c.is_ascii_alphabetic() || c == '_' || c == ':'
}
fn name_char(c: char) -> bool {
    c.is_ascii_alphanumeric() || c == '_' || c == ':'
}
fn label_start(c: char) -> bool {
    c.is_ascii_alphabetic() || c == '_'
}
fn label_char(c: char) -> bool {
    c.is_ascii_alphanumeric() || c == '_'
}
pub fn is_metric_name(s: &str) -> bool {
    let mut it = s.chars();
    match it.next() {
        Some(c) if name_start(c) => it.all(name_char),
        _ => false,
    }
}
pub fn is_label_name(s: &str) -> bool {
    let mut it = s.chars();
    match it.next() {
        Some(c) if label_start(c) => it.all(label_char),
        _ => false,
    }
}

/// `line` excludes the terminating newline and must not contain one.
pub fn parse_line(line: &str) -> Result<PLine, String> {
    if line.contains('\n') {
        return Err("embedded newline".into());
    }
    if line.is_empty() {
        return Ok(PLine::Blank);
    }
    if let Some(rest) = line.strip_prefix("# HELP ") {
        let (name, doc) = rest.split_once(' ').ok_or("HELP without docstring separator")?;
        if !is_metric_name(name) {
            return Err(format!("HELP: bad metric name {:?}", name));
        }
        // escapes in docstrings: \\ and \n only
        let mut it = doc.chars();
        while let Some(c) = it.next() {
            if c == '\\' {
                match it.next() {
                    Some('\\') | Some('n') => {}
                    other => return Err(format!("HELP: bad escape \\{:?}", other)),
                }
            }
        }
        return Ok(PLine::Help { name: name.to_string(), doc: doc.to_string() });
    }
    if let Some(rest) = line.strip_prefix("# TYPE ") {
        let (name, ty) = rest.split_once(' ').ok_or("TYPE without type")?;
        if !is_metric_name(name) {
            return Err(format!("TYPE: bad metric name {:?}", name));
        }
        if !matches!(ty, "counter" | "gauge" | "histogram" | "summary" | "untyped") {
            return Err(format!("TYPE: unknown type {:?}", ty));
        }
        return Ok(PLine::Type { name: name.to_string(), ty: ty.to_string() });
    }
    if line.starts_with('#') {
        return Err("comment line other than HELP/TYPE".into());
    }
    // sample
    let cs: Vec<char> = line.chars().collect();
    let mut i = 0;
    while i < cs.len() && name_char(cs[i]) {
        i += 1;
    }
    let name: String = cs[..i].iter().collect();
    if !is_metric_name(&name) {
        return Err(format!("sample: bad metric name {:?}", name));
    }
    let mut labels = vec![];
    if i < cs.len() && cs[i] == '{' {
        i += 1;
        loop {
            if i >= cs.len() {
                return Err("unterminated label block".into());
            }
            if cs[i] == '}' {
                i += 1;
                break;
            }
            let st = i;
            while i < cs.len() && label_char(cs[i]) {
                i += 1;
            }
            let k: String = cs[st..i].iter().collect();
            if !is_label_name(&k) {
                return Err(format!("bad label name {:?}", k));
            }
            if i + 1 >= cs.len() || cs[i] != '=' || cs[i + 1] != '"' {
                return Err("expected =\" after label name".into());
            }
            i += 2;
            let mut raw = String::new();
            loop {
                if i >= cs.len() {
                    return Err("unterminated label value".into());
                }
                match cs[i] {
                    '"' => {
                        i += 1;
                        break;
                    }
                    '\\' => {
                        if i + 1 >= cs.len() {
                            return Err("dangling backslash".into());
                        }
                        match cs[i + 1] {
                            '\\' | '"' | 'n' => {
                                raw.push('\\');
                                raw.push(cs[i + 1]);
                                i += 2;
                            }
                            c => return Err(format!("bad escape \\{:?} in label value", c)),
                        }
                    }
                    c => {
                        raw.push(c);
                        i += 1;
                    }
                }
            }
            labels.push((k, raw));
            if i < cs.len() && cs[i] == ',' {
                i += 1;
            } else if i < cs.len() && cs[i] == '}' {
                i += 1;
                break;
            } else {
                return Err("expected , or } after label value".into());
            }
        }
    }
    if i >= cs.len() || cs[i] != ' ' {
        return Err(format!("expected space before value at col {}", i));
    }
    i += 1;
    let value: String = cs[i..].iter().collect();
    if value.is_empty() || value.contains(' ') {
        return Err(format!("bad value token {:?}", value));
    }
    if value.parse::<f64>().is_err() {
        return Err(format!("value {:?} is not a float", value));
    }
    Ok(PLine::Sample { name, labels, value })
}

#[derive(Debug, Clone)]
pub struct Family {
    pub name: String,
    pub ty: String,
    pub help: Option<String>,
    pub samples: Vec<(String, Vec<(String, String)>, String)>,
}

/// Is `sample` a legal sample name in a family `fam` of type `ty`, given its labels?
fn allowed(ty: &str, fam: &str, sample: &str, labels: &[(String, String)]) -> bool {
    let has = |l: &str| labels.iter().any(|(k, _)| k == l);
    match ty {
        "counter" | "gauge" | "untyped" => sample == fam,
        "histogram" => {
            (sample == format!("{fam}_bucket") && has("le"))
                || sample == format!("{fam}_sum")
                || sample == format!("{fam}_count")
        }
        "summary" => {
            (sample == fam && has("quantile"))
                || sample == format!("{fam}_sum")
                || sample == format!("{fam}_count")
        }
        _ => false,
    }
}

/// Whole-text check: every line is HELP/TYPE/sample/blank; each family has exactly one TYPE line which
/// precedes its samples; at most one HELP; every sample belongs to the current family with an allowed
/// suffix; no label name repeated within a sample; no duplicate series.
pub fn check_exposition(text: &str) -> Result<Vec<Family>, String> {
    if !text.is_empty() && !text.ends_with('\n') {
        return Err("text does not end with a newline".into());
    }
    let mut fams: Vec<Family> = vec![];
    let mut pending_help: Option<(String, String)> = None;
    let mut typed: std::collections::HashSet<String> = Default::default();
    let mut seen_series: std::collections::HashSet<String> = Default::default();
    let mut owner: std::collections::HashMap<String, String> = Default::default(); // sample name ↦ family
    let body = if text.is_empty() { "" } else { &text[..text.len() - 1] };
    if text.is_empty() {
        return Ok(fams);
    }
    for (ln, line) in body.split('\n').enumerate() {
        let pl = parse_line(line).map_err(|e| format!("line {}: {} :: {:?}", ln + 1, e, line))?;
        match pl {
            PLine::Blank => {}
            PLine::Help { name, doc } => {
                if pending_help.is_some() {
                    return Err(format!("line {}: HELP not followed by TYPE", ln + 1));
                }
                pending_help = Some((name, doc));
            }
            PLine::Type { name, ty } => {
                if !typed.insert(name.clone()) {
                    return Err(format!("line {}: second TYPE line for family {}", ln + 1, name));
                }
                if let Some(o) = owner.get(&name) {
                    return Err(format!("line {}: TYPE line for {}, which is already a sample name of family {}", ln + 1, name, o));
                }
                let help = match pending_help.take() {
                    Some((hn, doc)) => {
                        if hn != name {
                            return Err(format!("line {}: HELP {} but TYPE {}", ln + 1, hn, name));
                        }
                        Some(doc)
                    }
                    None => None,
                };
                fams.push(Family { name, ty, help, samples: vec![] });
            }
            PLine::Sample { name, labels, value } => {
                if pending_help.is_some() {
                    return Err(format!("line {}: sample between HELP and TYPE", ln + 1));
                }
                let fam = fams.last_mut().ok_or(format!("line {}: sample before any TYPE line", ln + 1))?;
                if !allowed(&fam.ty, &fam.name, &name, &labels) {
                    return Err(format!(
                        "line {}: sample {} is not a member of family {} ({})",
                        ln + 1,
                        name,
                        fam.name,
                        fam.ty
                    ));
                }
                // a sample name belongs to one family only (`a_sum` of summary `a` vs. a gauge family `a_sum`)
                match owner.get(&name) {
                    Some(o) if *o != fam.name => {
                        return Err(format!(
                            "line {}: sample name {} is used by family {} and by family {}",
                            ln + 1,
                            name,
                            o,
                            fam.name
                        ));
                    }
                    Some(_) => {}
                    None => {
                        if name != fam.name && typed.contains(&name) {
                            return Err(format!(
                                "line {}: sample name {} of family {} is also the name of another family",
                                ln + 1,
                                name,
                                fam.name
                            ));
                        }
                        owner.insert(name.clone(), fam.name.clone());
                    }
                }
                let mut names: Vec<&str> = labels.iter().map(|(k, _)| k.as_str()).collect();
                names.sort();
                if names.windows(2).any(|w| w[0] == w[1]) {
                    return Err(format!("line {}: repeated label name in {:?}", ln + 1, line));
                }
                let mut sl = labels.clone();
                sl.sort();
                let id = format!("{}{:?}", name, sl);
                if !seen_series.insert(id) {
                    return Err(format!("line {}: duplicate series {:?}", ln + 1, line));
                }
                fam.samples.push((name, labels, value));
            }
        }
    }
    if pending_help.is_some() {
        return Err("HELP at end without TYPE".into());
    }
    Ok(fams)
}
