//! C09 — DogStatsD payloads are valid, within the size limit, and account for every point.
//!
//! Drives one long-lived real `PayloadWriter` per case through the `metrics_exporter_dogstatsd::verif`
//! driver module: a history of `write_counter` / `write_gauge` / `write_histogram` / `write_distribution`
//! calls and drains (`payloads()` as in `Forwarder::run`).  Every op goes to the Lean model too
//! (`statsd …` ops; number texts are shipped as opaque hex strings) and the answers (counts, emitted
//! payload bytes) are compared byte-for-byte.
//!
//! Implementation-side oracles (independent of the model):
//!   * a panic inside a write is "serialisation panicked" (the writer is then discarded);
//!   * every drained payload body is at most `max` bytes;
//!   * length-prefixed mode: the concatenated stream re-parses as `(le32 n, n bytes)*` and the frame
//!     boundaries are the slice boundaries;
//!   * each body is one DogStatsD datagram by the strict reader below (written from the datagram format
//!     description), with the (prefixed) name, type, sample rate, timestamp and tags (global, then own) of
//!     the call that produced it;
//!   * the payloads a call reports as written carry, concatenated, the call's values in order minus the
//!     dropped ones, each parsing back (`str::parse`) to the same bits; `written`/`dropped` add up.

use crate::util::*;
use metrics::{Key, Label};
use metrics_exporter_dogstatsd::verif::{StateDriver, Writer};
use std::panic::{catch_unwind, AssertUnwindSafe};

// ---------------------------------------------------------------------------------------------
// strict DogStatsD datagram reader (oracle)

#[derive(Debug, Clone, PartialEq)]
pub struct Datagram {
    pub name: String,
    pub values: Vec<String>,
    pub ty: String,
    pub rate: Option<String>,
    pub tags: Option<Vec<String>>,
    pub ts: Option<String>,
}

/// `<name>:<v1>[:<v2>…]|<type>[|@<rate>][|#<tag>[,<tag>…]][|T<unix seconds>]\n`
pub fn parse_datagram(p: &[u8]) -> Result<Datagram, String> {
    let s = std::str::from_utf8(p).map_err(|_| "not UTF-8".to_string())?;
    let body = s.strip_suffix('\n').ok_or("no terminating newline")?;
    if body.contains('\n') {
        return Err("more than one line".into());
    }
    let mut sections = body.split('|');
    let head = sections.next().unwrap();
    let mut hv = head.split(':');
    let name = hv.next().unwrap();
    if name.is_empty() {
        return Err("empty metric name".into());
    }
    let values: Vec<String> = hv.map(|v| v.to_string()).collect();
    if values.is_empty() {
        return Err("no value".into());
    }
    for v in &values {
        if v.is_empty() {
            return Err("empty value".into());
        }
        if v.parse::<f64>().is_err() {
            return Err(format!("value {:?} is not a number", v));
        }
    }
    let ty = sections.next().ok_or("no type section")?;
    if !matches!(ty, "c" | "g" | "h" | "d" | "ms" | "s") {
        return Err(format!("unknown type {:?}", ty));
    }
    let (mut rate, mut tags, mut ts) = (None, None, None);
    // optional sections in the documented order; each at most once
    let mut stage = 0;
    for sec in sections {
        if let Some(r) = sec.strip_prefix('@') {
            if stage > 0 {
                return Err("sample rate out of order / repeated".into());
            }
            stage = 1;
            if r.is_empty() || r.parse::<f64>().is_err() {
                return Err(format!("bad sample rate {:?}", r));
            }
            rate = Some(r.to_string());
        } else if let Some(t) = sec.strip_prefix('#') {
            if stage > 1 {
                return Err("tags out of order / repeated".into());
            }
            stage = 2;
            let list: Vec<String> = t.split(',').map(|x| x.to_string()).collect();
            if list.iter().any(|x| x.is_empty()) {
                return Err("empty tag".into());
            }
            tags = Some(list);
        } else if let Some(t) = sec.strip_prefix('T') {
            if stage > 2 {
                return Err("timestamp repeated".into());
            }
            stage = 3;
            if t.is_empty() || !t.bytes().all(|b| b.is_ascii_digit()) {
                return Err(format!("bad timestamp {:?}", t));
            }
            ts = Some(t.to_string());
        } else {
            return Err(format!("unknown section {:?}", sec));
        }
    }
    Ok(Datagram { name: name.to_string(), values, ty: ty.to_string(), rate, tags, ts })
}

// ---------------------------------------------------------------------------------------------
// inputs

#[derive(Clone, Debug)]
enum Vals {
    U(u64),
    F(Vec<f64>),
}

#[derive(Clone, Debug)]
struct Call {
    kind: u8, // b'c' | b'g' | b'h' | b'd'
    name: String,
    labels: Vec<(String, String)>,
    vals: Vals,
    ts: Option<u64>,
    rate: Option<f64>,
    prefix: Option<String>,
    globals: Vec<(String, String)>,
}

#[derive(Clone, Debug)]
enum Op {
    Write(Call),
    Drain,
}

#[derive(Clone, Debug)]
struct Case {
    max: usize,
    lp: bool,
    ops: Vec<Op>,
}

fn ryu_text(v: f64) -> String {
    ryu::Buffer::new().format(v).to_string()
}

fn delim_free(s: &str, allow_colon: bool) -> bool {
    !s.bytes().any(|b| b == b'|' || b == b',' || b == b'\n' || (b == b':' && !allow_colon))
}

impl Call {
    /// can this call be represented as a DogStatsD datagram at all (no escaping exists)?
    fn representable(&self) -> bool {
        let full_name_nonempty = self.prefix.is_some() || !self.name.is_empty();
        full_name_nonempty
            && delim_free(&self.name, false)
            && self.prefix.as_deref().map_or(true, |p| delim_free(p, false))
            && self.globals.iter().chain(self.labels.iter()).all(|(k, v)| !k.is_empty() && delim_free(k, false) && delim_free(v, true))
    }
    fn full_name(&self) -> String {
        match &self.prefix {
            Some(p) => format!("{}.{}", p, self.name),
            None => self.name.clone(),
        }
    }
    fn tag_texts(&self) -> Vec<String> {
        self.globals
            .iter()
            .chain(self.labels.iter())
            .map(|(k, v)| if v.is_empty() { k.clone() } else { format!("{}:{}", k, v) })
            .collect()
    }
    fn n_points(&self) -> usize {
        match &self.vals {
            Vals::U(_) => 1,
            Vals::F(v) => {
                if self.kind == b'g' {
                    1
                } else {
                    v.len()
                }
            }
        }
    }
    fn op_line(&self) -> String {
        let k = self.kind as char;
        match self.kind {
            b'c' | b'g' => {
                let vt = match &self.vals {
                    Vals::U(u) => u.to_string(),
                    Vals::F(f) => ryu_text(f[0]),
                };
                format!(
                    "statsd {} {} {} {} {} {} {}",
                    k,
                    hexs(&self.name),
                    pairs(&self.labels),
                    hexs(&vt),
                    match self.ts {
                        Some(t) => hexs(&t.to_string()),
                        None => "~".into(),
                    },
                    opt_hexs(self.prefix.as_deref()),
                    pairs(&self.globals)
                )
            }
            _ => {
                let vs = match &self.vals {
                    Vals::F(f) => f,
                    _ => unreachable!(),
                };
                format!(
                    "statsd {} {} {} {} {} {} {}",
                    k,
                    hexs(&self.name),
                    pairs(&self.labels),
                    list(vs.iter().map(|v| hexs(&ryu_text(*v)))),
                    match self.rate {
                        Some(r) => hexs(&ryu_text(r)),
                        None => "~".into(),
                    },
                    opt_hexs(self.prefix.as_deref()),
                    pairs(&self.globals)
                )
            }
        }
    }
}

fn same_f64(text: &str, v: f64) -> bool {
    match text.parse::<f64>() {
        Ok(p) => p.to_bits() == v.to_bits() || (p.is_nan() && v.is_nan()),
        Err(_) => false,
    }
}

// ---------------------------------------------------------------------------------------------
// running one case on the real writer

struct Pending {
    call: Call,
    written: u64,
    dropped: u64,
}

fn run_case(out: &mut Out, case: &Case) {
    let new_line = format!("statsd new {} {}", case.max, case.lp as u8);
    let mut writer = match catch_unwind(|| Writer::new(case.max, case.lp)) {
        Ok(w) => {
            out.op(&new_line, "ok");
            w
        }
        Err(_) => {
            // `PayloadWriter::new` asserts that the limit fits a u32; the builder never lets a larger one through
            // (theorem `build_no_panic`), so only a panic BELOW 2^32 is a violation
            out.op(&new_line, "panic");
            out.count("new.panic");
            if (case.max as u64) < (1u64 << 32) {
                out.oracle_fail("serialisation panicked", &format!("PayloadWriter::new({}, {}) panicked", case.max, case.lp));
            }
            return;
        }
    };
    let mut pending: Vec<Pending> = vec![];
    let mut drains = 0;
    let mut nontrivial = false;
    for op in &case.ops {
        match op {
            Op::Write(call) => {
                let key = Key::from_parts(
                    call.name.clone(),
                    call.labels.iter().map(|(k, v)| Label::new(k.clone(), v.clone())).collect::<Vec<_>>(),
                );
                let globals: Vec<Label> = call.globals.iter().map(|(k, v)| Label::new(k.clone(), v.clone())).collect();
                let prefix = call.prefix.as_deref();
                let res = catch_unwind(AssertUnwindSafe(|| match (call.kind, &call.vals) {
                    (b'c', Vals::U(u)) => writer.write_counter(&key, *u, call.ts, prefix, &globals),
                    (b'g', Vals::F(f)) => writer.write_gauge(&key, f[0], call.ts, prefix, &globals),
                    (b'h', Vals::F(f)) => writer.write_histogram(&key, f, call.rate, prefix, &globals),
                    (b'd', Vals::F(f)) => writer.write_distribution(&key, f, call.rate, prefix, &globals),
                    _ => unreachable!(),
                }));
                out.count(&format!("op.{}", call.kind as char));
                match res {
                    Ok(r) => {
                        out.op(&call.op_line(), &format!("w={} d={}", r.payloads_written, r.points_dropped));
                        if r.points_dropped > 0 {
                            out.count("write.some_dropped");
                            nontrivial = true;
                        }
                        if r.payloads_written > 1 {
                            out.count("write.multi_payload");
                            nontrivial = true;
                        }
                        if r.payloads_written == 0 && r.points_dropped as usize == call.n_points() && call.n_points() > 0 {
                            out.count("write.rejected_whole");
                        }
                        pending.push(Pending { call: call.clone(), written: r.payloads_written, dropped: r.points_dropped });
                    }
                    Err(e) => {
                        let msg = e
                            .downcast_ref::<String>()
                            .cloned()
                            .or_else(|| e.downcast_ref::<&str>().map(|s| s.to_string()))
                            .unwrap_or_default();
                        out.op(&call.op_line(), "panic");
                        out.count("write.panic");
                        out.oracle_fail("serialisation panicked", &format!("{} :: max={} lp={} :: {}", msg, case.max, case.lp, call.op_line()));
                        out.nontrivial();
                        return; // writer discarded
                    }
                }
            }
            Op::Drain => {
                drains += 1;
                let payloads = writer.drain();
                out.op("statsd drain", &list(payloads.iter().map(|p| hex(p))));
                out.count_n("drain.payloads", payloads.len() as u64);
                check_drain(out, case, &payloads, &pending);
                pending.clear();
            }
        }
    }
    if drains >= 2 {
        out.count("case.multi_flush");
        nontrivial = true;
    }
    if nontrivial {
        out.nontrivial();
    }
}

/// what the Lean grammar-level reader (`Model/StatsdRead.lean`) must answer for a payload the Rust reader accepted:
/// the same fields, tags split at their first ':'; it rejects `k:` and `:v` tags, which the Rust reader lets through
fn lean_view(d: &Datagram) -> String {
    let mut tags: Vec<(String, String)> = vec![];
    for t in d.tags.iter().flatten() {
        match t.split_once(':') {
            None => tags.push((t.clone(), String::new())),
            Some((k, v)) => {
                if k.is_empty() || v.is_empty() {
                    return "reject".into();
                }
                tags.push((k.to_string(), v.to_string()));
            }
        }
    }
    format!(
        "{} {} {} {} {} {}",
        hexs(&d.name),
        list(d.values.iter().map(|v| hexs(v))),
        hexs(&d.ty),
        opt_hexs(d.rate.as_deref()),
        pairs(&tags),
        opt_hexs(d.ts.as_deref())
    )
}

/// cross-check of the two independent readers on a real payload (bounded per drain to keep the stream small)
fn cross_read(out: &mut Out, budget: &mut usize, body: &[u8], d: &Datagram) {
    if *budget == 0 || body.len() > 1500 {
        return;
    }
    *budget -= 1;
    out.count("reader.cross_checked");
    out.op(&format!("statsd parse {}", hex(body)), &lean_view(d));
}

fn check_drain(out: &mut Out, case: &Case, slices: &[Vec<u8>], pending: &[Pending]) {
    let mut cross_budget = 6usize;
    let ctx = |i: usize| format!("max={} lp={} payload#{}", case.max, case.lp, i);
    // framing
    let mut bodies: Vec<&[u8]> = vec![];
    if case.lp {
        let stream: Vec<u8> = slices.iter().flat_map(|s| s.iter().copied()).collect();
        let mut pos = 0usize;
        let mut boundaries = vec![];
        let mut ok = true;
        while pos < stream.len() {
            if pos + 4 > stream.len() {
                ok = false;
                break;
            }
            let n = u32::from_le_bytes([stream[pos], stream[pos + 1], stream[pos + 2], stream[pos + 3]]) as usize;
            if pos + 4 + n > stream.len() {
                ok = false;
                break;
            }
            pos += 4 + n;
            boundaries.push(pos);
        }
        let mut acc = 0;
        let slice_bounds: Vec<usize> = slices
            .iter()
            .map(|s| {
                acc += s.len();
                acc
            })
            .collect();
        if !ok || boundaries != slice_bounds {
            out.oracle_fail(
                "length-prefixed stream is mis-framed",
                &format!("max={} lp=true stream={} slice_ends={:?} frame_ends={:?}", case.max, hex(&stream), slice_bounds, boundaries),
            );
            return;
        }
        for s in slices {
            bodies.push(&s[4..]);
        }
    } else {
        for s in slices {
            bodies.push(&s[..]);
        }
    }
    // size limit
    for (i, b) in bodies.iter().enumerate() {
        if b.len() > case.max {
            out.oracle_fail("payload longer than the configured maximum", &format!("{} len={} {}", ctx(i), b.len(), hex(b)));
        }
    }
    // counts
    let total_written: u64 = pending.iter().map(|p| p.written).sum();
    if total_written as usize != bodies.len() {
        out.oracle_fail(
            "reported payloads_written differs from the number of emitted payloads",
            &format!("max={} lp={} reported={} emitted={}", case.max, case.lp, total_written, bodies.len()),
        );
        return;
    }
    // per call: content and accounting
    let mut next = 0usize;
    for p in pending {
        let mine = &bodies[next..next + p.written as usize];
        next += p.written as usize;
        let call = &p.call;
        let npoints = call.n_points();
        if !call.representable() {
            out.count("call.unrepresentable");
            // only the point count can be checked: number of ':'-separated values before the first '|' is not
            // well-defined either; skip content checks.  Where the strict reader accepts the payload anyway, the
            // Lean reader must see the same thing.
            for b in mine.iter() {
                if let Ok(d) = parse_datagram(b) {
                    cross_read(out, &mut cross_budget, b, &d);
                }
            }
            continue;
        }
        let mut got_values: Vec<String> = vec![];
        let mut bad = false;
        for (j, b) in mine.iter().enumerate() {
            match parse_datagram(b) {
                Err(e) => {
                    out.oracle_fail("emitted payload is not a DogStatsD datagram", &format!("{} :: {} :: {}", e, ctx(next - mine.len() + j), hex(b)));
                    bad = true;
                }
                Ok(d) => {
                    cross_read(out, &mut cross_budget, b, &d);
                    let exp_tags = call.tag_texts();
                    let exp_tags = if exp_tags.is_empty() { None } else { Some(exp_tags) };
                    let exp_rate = call.rate;
                    let rate_ok = match (&d.rate, exp_rate) {
                        (None, None) => true,
                        (Some(t), Some(r)) => same_f64(t, r),
                        _ => false,
                    };
                    let ts_ok = match (&d.ts, call.ts) {
                        (None, None) => true,
                        (Some(t), Some(v)) => t.parse::<u64>() == Ok(v),
                        _ => false,
                    };
                    if d.name != call.full_name() || d.ty.as_bytes() != [call.kind] || d.tags != exp_tags || !rate_ok || !ts_ok {
                        out.oracle_fail(
                            "datagram does not carry the call's name/type/rate/tags/timestamp",
                            &format!("{:?} :: expected name={:?} type={} tags={:?} rate={:?} ts={:?} :: {}", d, call.full_name(), call.kind as char, exp_tags, exp_rate, call.ts, ctx(next - mine.len() + j)),
                        );
                        bad = true;
                    }
                    got_values.extend(d.values);
                }
            }
        }
        if bad {
            continue;
        }
        // accounting: got_values is the input minus the dropped points, in order
        if got_values.len() as u64 + p.dropped != npoints as u64 {
            out.oracle_fail(
                "points emitted + points dropped differs from the number of input points",
                &format!("max={} lp={} emitted={} dropped={} input={} :: {}", case.max, case.lp, got_values.len(), p.dropped, npoints, call.op_line().chars().take(300).collect::<String>()),
            );
            continue;
        }
        match &call.vals {
            Vals::U(u) => {
                if got_values.len() == 1 && got_values[0].parse::<u64>() != Ok(*u) {
                    out.oracle_fail("counter value does not read back", &format!("{:?} vs {}", got_values, u));
                }
            }
            Vals::F(fs) => {
                // subsequence match, bit for bit
                let mut i = 0usize;
                let mut okv = true;
                for t in &got_values {
                    while i < fs.len() && !same_f64(t, fs[i]) {
                        i += 1;
                    }
                    if i == fs.len() {
                        okv = false;
                        break;
                    }
                    i += 1;
                }
                if call.kind == b'g' && got_values.len() == 1 && !same_f64(&got_values[0], fs[0]) {
                    okv = false;
                }
                if !okv {
                    out.oracle_fail(
                        "emitted values are not the input values in order at round-trip precision",
                        &format!("max={} lp={} got={:?} :: {}", case.max, case.lp, &got_values[..got_values.len().min(20)], call.op_line().chars().take(300).collect::<String>()),
                    );
                }
            }
        }
    }
}

// ---------------------------------------------------------------------------------------------
// generators

const NAMES: &[&str] = &["requests", "a", "lat", "http.server.duration", "x_1", "Ω", "queue-depth", "n9"];
const PREFIXES: &[&str] = &["myservice", "p", "svc.eu", "datadog.dogstatsd.client", "", "é", "Ωmega.svc", "日本"];
const TKEYS: &[&str] = &["env", "region", "k", "host", "é", "svc"];
const TVALS: &[&str] = &["", "prod", "eu-west-1", "v", "a:b", "1", "x y"];
const HOSTILE: &[&str] = &["a|b", "a,b", "a:b", "a\nb", "#", "|#", "@0.5", "|T1", "", ":", "x|c\ny:1|c"];

fn special_f64(r: &mut Rng) -> f64 {
    match r.below(22) {
        0 => 0.0,
        1 => -0.0,
        2 => 1.0,
        3 => 42.0,
        4 => 0.1,
        5 => 1e-7,
        6 => f64::from_bits(1),            // smallest subnormal
        7 => f64::MIN_POSITIVE,
        8 => f64::MAX,
        9 => f64::MIN,
        10 => f64::NAN,
        11 => f64::INFINITY,
        12 => f64::NEG_INFINITY,
        13 => 1e21,
        14 => 1e300,
        15 => 123456789.12345679,
        16 => f64::EPSILON,
        17 => -1.5,
        18 => (r.below(2000) as f64) / 8.0,
        19 => r.below(100) as f64,
        _ => {
            let v = f64::from_bits(r.next());
            v
        }
    }
}

fn sized_string(r: &mut Rng, len: usize) -> String {
    let alphabet = b"abcdefghijklmnopqrstuvwxyz0123456789_.-";
    (0..len).map(|_| alphabet[r.below(alphabet.len())] as char).collect()
}

/// `overhead` = bytes of the message besides the name (prefix, shortest value, type, tags, …), so that names
/// "aimed at the limit" make the whole message land within a few bytes of `max`, on either side.
fn gen_name(r: &mut Rng, max: usize, overhead: usize) -> String {
    match r.weighted(&[1, 8, 4, 1, 1]) {
        0 => String::new(),
        1 => r.pick_str(NAMES).to_string(),
        2 => {
            // mostly short (cheap), sometimes up to the default limits so that a whole metric is rejected at 1432 / 8192
            let cap = if r.chance(1, 5) { 9000 } else { 420 };
            let target = max.saturating_sub(overhead).min(cap);
            let lo = target.saturating_sub(12);
            let n = r.range(lo, target + 4);
            sized_string(r, n)
        }
        3 => {
            let n = r.range(0, 40);
            sized_string(r, n)
        }
        _ => r.pick_str(HOSTILE).to_string(),
    }
}

fn gen_labels(r: &mut Rng, n_max: usize, hostile: bool) -> Vec<(String, String)> {
    (0..r.below(n_max + 1))
        .map(|_| {
            if hostile && r.chance(1, 3) {
                (r.pick_str(HOSTILE).to_string(), r.pick_str(HOSTILE).to_string())
            } else if r.chance(1, 12) {
                { let (a, b) = (r.range(1, 30), r.range(0, 30)); (sized_string(r, a), sized_string(r, b)) }
            } else {
                (r.pick_str(TKEYS).to_string(), r.pick_str(TVALS).to_string())
            }
        })
        .collect()
}

fn gen_rate(r: &mut Rng) -> Option<f64> {
    match r.below(6) {
        0 => Some(*r.pick(&[1.0, 0.5, 0.25, 0.001, 1e-7, 0.3333333333333333, f64::NAN, 0.0, 2.0, -1.0, f64::INFINITY, 1e300])),
        1 => Some((r.range(1, 1024) as f64) / (r.range(1024, 100_000) as f64)),
        _ => None,
    }
}

fn long_f64(r: &mut Rng) -> f64 {
    // values whose shortest text is 20+ bytes
    match r.below(4) {
        0 => f64::MIN,
        1 => -123456789.12345679e-300,
        2 => -f64::MIN_POSITIVE * 1.2345678901234567,
        _ => {
            let v = f64::from_bits(r.next() | (1u64 << 63));
            if v.is_finite() { v } else { f64::MIN }
        }
    }
}

/// A flush cycle that accumulates tens to hundreds of KiB in the writer's buffer (crossing the allocation sizes
/// 16/32/64/128 KiB), then the drain, then small writes and further drains on the same writer: whatever the writer
/// does with its buffer between cycles (shrinking, replacing, re-using), the next cycle must be framed and
/// accounted exactly like the first.  Also the only place where payload bodies exceed 65535 bytes.
fn gen_burst_case(r: &mut Rng, thorough: bool) -> Case {
    let lp = !r.chance(1, 4);
    let max = *r.pick(&[1432usize, 8192, 8192, 70_000, 1 << 20]);
    let mut ops = vec![];
    let bursts = if r.chance(1, 3) { 2 } else { 1 };
    for _ in 0..bursts {
        let target = 1024 * *r.pick(if thorough { &[17usize, 33, 66, 70, 132, 260][..] } else { &[17usize, 33, 66, 70, 132][..] });
        let mut acc = 0usize;
        let mut huge_done = false;
        while acc < target {
            if max >= 70_000 && !huge_done && r.chance(1, 2) {
                // one body above 65535 bytes (third length byte non-zero)
                huge_done = true;
                let n = r.range(65_530, 66_200);
                let name = sized_string(r, n);
                acc += n + 12;
                if r.chance(1, 2) {
                    ops.push(Op::Write(simple(b'c', &name, Vals::U(r.next()), None)));
                } else {
                    let vals: Vec<f64> = (0..r.range(1, 120)).map(|_| long_f64(r)).collect();
                    acc += vals.len() * 24;
                    ops.push(Op::Write(simple(b'd', &name, Vals::F(vals), None)));
                }
                continue;
            }
            if r.chance(1, 7) {
                let n = r.range(150, 700);
                let vals: Vec<f64> = (0..n).map(|_| long_f64(r)).collect();
                acc += n * 24;
                let mut c = simple(b'h', r.pick_str(NAMES), Vals::F(vals), None);
                c.rate = gen_rate(r);
                ops.push(Op::Write(c));
            } else {
                let n = r.range(1200, 6000).min(max.saturating_sub(r.range(0, 60)));
                let name = sized_string(r, n);
                acc += n + 12;
                if r.chance(1, 2) {
                    ops.push(Op::Write(simple(b'c', &name, Vals::U(r.next() >> r.below(64)), None)));
                } else {
                    ops.push(Op::Write(simple(b'g', &name, Vals::F(vec![special_f64(r)]), None)));
                }
            }
        }
        ops.push(Op::Drain);
        // the cycle after the burst
        for _ in 0..r.range(1, 3) {
            match r.below(4) {
                0 => ops.push(Op::Write(simple(b'c', "after.burst", Vals::U(r.below(100) as u64), None))),
                1 => ops.push(Op::Write(simple(b'g', r.pick_str(NAMES), Vals::F(vec![special_f64(r)]), Some("svc")))),
                2 => {
                    let vals: Vec<f64> = (0..r.range(0, 30)).map(|_| special_f64(r)).collect();
                    ops.push(Op::Write(simple(b'h', r.pick_str(NAMES), Vals::F(vals), None)));
                }
                _ => {
                    // a histogram none of whose values fits (the call writes nothing at all)
                    let name = sized_string(r, max.saturating_sub(12));
                    let vals: Vec<f64> = (0..r.range(1, 5)).map(|_| f64::MIN).collect();
                    ops.push(Op::Write(simple(b'h', &name, Vals::F(vals), None)));
                }
            }
            if r.chance(1, 2) {
                ops.push(Op::Drain);
            }
        }
        ops.push(Op::Drain);
    }
    Case { max, lp, ops }
}

fn gen_case(r: &mut Rng, thorough: bool) -> Case {
    if r.chance(1, 25) {
        return gen_burst_case(r, thorough);
    }
    let max = match r.weighted(&[1, 4, 7, 4, 2, 2, 1]) {
        0 => r.below(6),
        1 => r.range(6, 40),
        2 => r.range(20, 120),
        3 => r.range(100, 400),
        4 => 1432,
        5 => 8192,
        _ => *r.pick(&[65_535usize, 65_536, 70_000, 1 << 20, u32::MAX as usize]),
    };
    let lp = r.chance(1, 2);
    let hostile_case = r.chance(1, 10);
    // per-case configuration (global prefix / labels are fixed per exporter, but the writer takes them per call;
    // mostly constant per case, sometimes varied)
    let prefix: Option<String> = if r.chance(1, 2) { Some(r.pick_str(PREFIXES).to_string()) } else { None };
    let globals = gen_labels(r, 3, hostile_case);
    let n_ops = r.range(2, if thorough { 14 } else { 10 });
    let mut ops = vec![];
    // the key of the latest histogram / distribution call: re-used below so that the SAME key is written again,
    // back to back or with drains / counters / gauges in between, with another sample rate / other global labels
    let mut last_hist: Option<(String, Vec<(String, String)>)> = None;
    // histogram values written since the last drain: bounded by 3000 per flush cycle (the model's writer is a list
    // machine and quadratic in the undrained buffer; one call of up to 3000 values is the intended extreme)
    let mut undrained_vals = 0usize;
    for _ in 0..n_ops {
        if r.chance(1, 4) {
            ops.push(Op::Drain);
            undrained_vals = 0;
            continue;
        }
        let mut labels = gen_labels(r, 3, hostile_case);
        let (p, g) = if r.chance(1, 8) {
            (if r.chance(1, 2) { Some(r.pick_str(PREFIXES).to_string()) } else { None }, gen_labels(r, 2, hostile_case))
        } else {
            (prefix.clone(), globals.clone())
        };
        let overhead = p.as_ref().map_or(0, |p| p.len() + 1)
            + 5
            + g.iter().chain(labels.iter()).map(|(k, v)| k.len() + v.len() + 2).sum::<usize>()
            + r.below(12);
        let mut name = if hostile_case { r.pick_str(HOSTILE).to_string() } else { gen_name(r, max, overhead) };
        let ts = match r.below(6) {
            0 => Some(r.pick(&[0u64, 1, 1_700_000_000, u64::MAX]).clone()),
            1 => Some(r.next() >> r.below(64)),
            _ => None,
        };
        let kind = *r.pick(&[b'c', b'g', b'h', b'h', b'd']);
        let mut g = g;
        if kind == b'h' || kind == b'd' {
            match &last_hist {
                Some((n, l)) if r.chance(1, 3) => {
                    name = n.clone();
                    labels = l.clone();
                    if r.chance(1, 2) {
                        g = gen_labels(r, 2, hostile_case);
                    }
                }
                _ => {}
            }
            last_hist = Some((name.clone(), labels.clone()));
        }
        let call = match kind {
            b'c' => Call {
                kind,
                name,
                labels,
                vals: Vals::U(if r.chance(1, 2) { *r.pick(&[0u64, 1, 2, 91919, u64::MAX, 1 << 53, 10_000_000_000]) } else { r.next() >> r.below(64) }),
                ts,
                rate: None,
                prefix: p,
                globals: g,
            },
            b'g' => Call { kind, name, labels, vals: Vals::F(vec![special_f64(r)]), ts, rate: None, prefix: p, globals: g },
            _ => {
                let n = match r.weighted(&[4, 32, 20, 6, 1]) {
                    0 => 0,
                    1 => r.range(1, 8),
                    2 => r.range(8, 80),
                    3 => r.range(80, 600),
                    _ => r.range(600, 3000),
                };
                // a long name is repeated in every payload: keep name bytes x values (about the undrained buffer, which
                // the list-based model copies per value) within a few hundred KB
                let n = if name.len() > 400 { n.min((300_000 / name.len()).max(4)) } else { n };
                if undrained_vals + n > 3000 {
                    ops.push(Op::Drain);
                    undrained_vals = 0;
                }
                undrained_vals += n;
                let vals: Vec<f64> = (0..n).map(|_| special_f64(r)).collect();
                let rate = gen_rate(r);
                Call { kind, name, labels, vals: Vals::F(vals), ts: None, rate, prefix: p, globals: g }
            }
        };
        ops.push(Op::Write(call));
    }
    ops.push(Op::Drain);
    Case { max, lp, ops }
}

fn kv(a: &str, b: &str) -> (String, String) {
    (a.to_string(), b.to_string())
}

fn simple(kind: u8, name: &str, vals: Vals, prefix: Option<&str>) -> Call {
    Call { kind, name: name.to_string(), labels: vec![], vals, ts: None, rate: None, prefix: prefix.map(|s| s.to_string()), globals: vec![] }
}

fn corpus() -> Vec<(&'static str, Case)> {
    let mut v = vec![];
    // (a) prefixed histogram near the limit: minimum-length computation must include the prefix
    v.push((
        "finding-a prefixed histogram near the limit",
        Case {
            max: 40,
            lp: false,
            ops: vec![
                Op::Write(simple(b'h', "latency", Vals::F((0..20).map(|i| i as f64 + 0.5).collect()), Some("myservice"))),
                Op::Drain,
            ],
        },
    ));
    // (b) length-prefixed: rejected metric, then a good one on the same writer
    v.push((
        "finding-b rejected write then successful write, length-prefixed",
        Case {
            max: 20,
            lp: true,
            ops: vec![
                Op::Write(simple(b'c', "a_counter_name_that_is_far_too_long", Vals::U(1), None)),
                Op::Write(simple(b'c', "ok", Vals::U(2), None)),
                Op::Drain,
            ],
        },
    ));
    // (b') rejected metric, then a histogram that writes nothing: current_len underflow
    v.push((
        "finding-b rejected write then empty histogram, length-prefixed",
        Case {
            max: 20,
            lp: true,
            ops: vec![
                Op::Write(simple(b'c', "a_counter_name_that_is_far_too_long", Vals::U(1), None)),
                Op::Write(simple(b'h', "h", Vals::F(vec![]), None)),
                Op::Write(simple(b'c', "ok", Vals::U(2), None)),
                Op::Drain,
            ],
        },
    ));
    // (c) length-prefixed: second flush cycle of a long-lived writer
    v.push((
        "finding-c second flush cycle, length-prefixed",
        Case {
            max: 8192,
            lp: true,
            ops: vec![
                Op::Write(simple(b'c', "requests", Vals::U(1), None)),
                Op::Drain,
                Op::Write(simple(b'c', "requests", Vals::U(2), None)),
                Op::Write(simple(b'g', "depth", Vals::F(vec![3.5]), None)),
                Op::Drain,
                Op::Drain,
                Op::Write(simple(b'c', "requests", Vals::U(3), None)),
                Op::Drain,
            ],
        },
    ));
    // the same key serialised again on the same writer with another sample rate / other global labels, back to back,
    // across a drain, and with a counter in between: the trailer belongs to the call, not to the key
    {
        let h = |kind: u8, rate: Option<f64>, globals: Vec<(String, String)>, vals: Vec<f64>| {
            Op::Write(Call {
                kind,
                name: "request.latency".into(),
                labels: vec![kv("route", "index")],
                vals: Vals::F(vals),
                ts: None,
                rate,
                prefix: None,
                globals,
            })
        };
        for lp in [false, true] {
            v.push((
                "same key again, other sample rate / global labels",
                Case {
                    max: 1432,
                    lp,
                    ops: vec![
                        h(b'h', Some(1.0), vec![], vec![1.5, 2.5]),
                        h(b'h', Some(0.25), vec![], vec![3.5, 4.5]),
                        Op::Drain,
                        h(b'h', None, vec![kv("env", "prod")], vec![5.5]),
                        Op::Write(simple(b'c', "requests", Vals::U(2), None)),
                        h(b'h', Some(0.5), vec![kv("env", "dev"), kv("bare", "")], vec![6.5]),
                        Op::Drain,
                        h(b'd', Some(0.5), vec![], vec![7.5]),
                        Op::Drain,
                    ],
                },
            ));
        }
    }
    // a flush cycle far above 64 KiB, then the next cycles on the same writer (buffer re-use after a large drain);
    // the last cycle starts with a histogram that writes nothing
    for lp in [true, false] {
        let big = "n".repeat(4000);
        let mut ops: Vec<Op> = (0..18).map(|i| Op::Write(simple(b'c', &format!("{}{}", big, i), Vals::U(i), None))).collect();
        ops.push(Op::Drain);
        ops.push(Op::Write(simple(b'c', "after.burst", Vals::U(7), None)));
        ops.push(Op::Write(simple(b'h', "lat", Vals::F(vec![1.0, 2.0]), Some("svc"))));
        ops.push(Op::Drain);
        ops.extend((0..18).map(|i| Op::Write(simple(b'g', &format!("{}{}", big, i), Vals::F(vec![i as f64]), None))));
        ops.push(Op::Drain);
        ops.push(Op::Write(simple(b'h', &"x".repeat(8180), Vals::F(vec![f64::MIN, f64::MIN]), None)));
        ops.push(Op::Write(simple(b'c', "after.second.burst", Vals::U(8), None)));
        ops.push(Op::Drain);
        v.push(("large flush cycle, then further cycles", Case { max: 8192, lp, ops }));
    }
    // bodies above 65535 bytes (third byte of the length prefix non-zero), limits at and above 2^16 / at u32::MAX
    {
        let name = "m".repeat(66_000);
        let hname = "h".repeat(64_000);
        for (max, lp) in [(100_000usize, true), (u32::MAX as usize, true), (70_000, false), (65_536, true)] {
            v.push((
                "payload bodies above 65535 bytes",
                Case {
                    max,
                    lp,
                    ops: vec![
                        Op::Write(simple(b'c', &name, Vals::U(u64::MAX), None)),
                        Op::Write(simple(b'd', &hname, Vals::F((0..200).map(|i| f64::MIN + i as f64).collect()), Some("é"))),
                        Op::Write(simple(b'c', "small", Vals::U(1), None)),
                        Op::Drain,
                        Op::Write(simple(b'g', "small", Vals::F(vec![0.5]), None)),
                        Op::Drain,
                    ],
                },
            ));
        }
    }
    // the limit must fit a u32: `PayloadWriter::new` asserts it (the builder refuses such a limit, see `statsd cfg`)
    if usize::BITS > 32 {
        for lp in [false, true] {
            v.push(("limit 2^32: new() asserts", Case { max: 1usize << 32, lp, ops: vec![Op::Drain] }));
        }
    }
    // multi-byte global prefix near the limit: the minimum length counts bytes, not characters
    for max in 24..=40usize {
        v.push((
            "multi-byte prefix near the limit",
            Case {
                max,
                lp: max % 2 == 1,
                ops: vec![
                    Op::Write(simple(b'h', "lat", Vals::F((0..12).map(|i| i as f64 + 0.25).collect()), Some("日本語ééé"))),
                    Op::Write(simple(b'c', "n", Vals::U(3), Some("日本語ééé"))),
                    Op::Drain,
                ],
            },
        ));
    }
    // tiny limits
    for max in [0usize, 1, 4, 5, 6] {
        for lp in [false, true] {
            v.push((
                "tiny limit",
                Case {
                    max,
                    lp,
                    ops: vec![
                        Op::Write(simple(b'c', "a", Vals::U(0), None)),
                        Op::Write(simple(b'g', "a", Vals::F(vec![1.0]), None)),
                        Op::Write(simple(b'h', "a", Vals::F(vec![1.0, 2.0]), None)),
                        Op::Write(simple(b'c', "", Vals::U(0), None)),
                        Op::Drain,
                        Op::Write(simple(b'h', "", Vals::F(vec![0.0, 1e300]), Some(""))),
                        Op::Drain,
                    ],
                },
            ));
        }
    }
    // number extremes, all kinds, tags and timestamps
    let extremes =
        vec![0.0, -0.0, f64::NAN, f64::INFINITY, f64::NEG_INFINITY, f64::from_bits(1), f64::MIN_POSITIVE, f64::MAX, f64::MIN, 1e21, 1e-7, 0.1];
    let mut ops = vec![];
    for lpfx in [None, Some("svc")] {
        ops.push(Op::Write(Call {
            kind: b'c',
            name: "reqs".into(),
            labels: vec![kv("env", "prod"), kv("bare", "")],
            vals: Vals::U(u64::MAX),
            ts: Some(u64::MAX),
            rate: None,
            prefix: lpfx.map(|s: &str| s.to_string()),
            globals: vec![kv("g", "1")],
        }));
        for x in &extremes {
            ops.push(Op::Write(Call {
                kind: b'g',
                name: "g".into(),
                labels: vec![kv("k", "a:b")],
                vals: Vals::F(vec![*x]),
                ts: Some(0),
                rate: None,
                prefix: lpfx.map(|s: &str| s.to_string()),
                globals: vec![],
            }));
        }
        ops.push(Op::Write(Call {
            kind: b'd',
            name: "dist".into(),
            labels: vec![],
            vals: Vals::F(extremes.clone()),
            ts: None,
            rate: Some(0.001),
            prefix: lpfx.map(|s: &str| s.to_string()),
            globals: vec![kv("g", "1"), kv("h", "")],
        }));
        ops.push(Op::Drain);
    }
    v.push(("number extremes", Case { max: 64, lp: true, ops: ops.clone() }));
    v.push(("number extremes", Case { max: 1432, lp: false, ops }));
    // a value that fits alone only just / not at all, chunking exactly at the limit
    for max in 18..=26usize {
        v.push((
            "chunking at the limit",
            Case {
                max,
                lp: max % 2 == 0,
                ops: vec![
                    Op::Write(Call {
                        kind: b'h',
                        name: "lat".into(),
                        labels: vec![kv("e", "p")],
                        vals: Vals::F(vec![1.0, 22.5, 1e300, 3.25, 123456.789, 4.0, 5.0, 0.1]),
                        ts: None,
                        rate: Some(0.5),
                        prefix: Some("p".into()),
                        globals: vec![],
                    }),
                    Op::Drain,
                ],
            },
        ));
    }
    v
}

// ---------------------------------------------------------------------------------------------
// value lists aimed at the limit (round 7; class of seed C09-8): the AGGREGATE size of a value list against `max`.
//
// `gen_case` picks `max` first and draws values of mixed widths (1-24 bytes), so the sum of the value widths lands
// within a few bytes of the limit only by accident; a size ESTIMATE in the writer (a fast path guarded by
// `min + n*W <= max`, a pre-computed chunk count, a `reserve`d capacity treated as a bound, …) that is off by one byte
// per value is wrong only in a window n bytes wide right below the true size, and only when (almost) every value has
// the width W the estimate assumes.  Here the value list is fixed first — n values of one uniform rendered width
// (24 = ryu's maximum, 23, 3, or a 24/23 mix, or all-wide-but-one) — and then EVERY limit in the critical window is
// visited: with L = the exact size of the one-payload message, all of L-max in -(n+4) ..= +3 (so: from "fits with
// more than a byte per value to spare" over "fits exactly" to "3 bytes too long"), plus the alignment points of the
// two-payload split.  The window is scanned by the NAME length on one long-lived writer (so the real default limits
// 1432 / 8192 are among the scanned limits, and every write is followed by a drain), each write checked by model
// correspondence (counts + bytes) and all drain oracles.

/// a finite f64 whose shortest (ryu) text is exactly `width` bytes long (3 ..= 24)
fn f64_of_width(r: &mut Rng, width: usize) -> f64 {
    for _ in 0..10_000 {
        let v = match width {
            // sign, 17 digits, point, e-ddd
            24 => f64::from_bits((1u64 << 63) | ((r.range(1, 600) as u64) << 52) | (r.next() >> 12)),
            23 => {
                if r.chance(1, 2) {
                    f64::from_bits(((r.range(1, 600) as u64) << 52) | (r.next() >> 12))
                } else {
                    f64::from_bits((1u64 << 63) | ((r.range(1400, 2000) as u64) << 52) | (r.next() >> 12))
                }
            }
            3 => (r.below(10) as f64) + if r.chance(1, 2) { 0.5 } else { 0.0 },
            _ => f64::from_bits(r.next()),
        };
        if v.is_finite() && ryu_text(v).len() == width {
            return v;
        }
    }
    match width {
        24 => -2.2250738585072014e-308,
        23 => 2.2250738585072014e-308,
        _ => 1.5,
    }
}

/// one case: `n` values of the width mix `mix` written under names of every length that moves the one-payload size
/// through the critical window around `max` (see above).  `max_hint` = None: the limit is derived from the list
/// (`L(name_len = n + 6)`), Some(m): `n` is ignored and derived from `m` instead (default limits).
fn gen_aimed_case(r: &mut Rng, n: usize, mix: usize, max_hint: Option<usize>, stride: usize) -> Case {
    let lp = r.chance(1, 2);
    let kind = if r.chance(1, 2) { b'h' } else { b'd' };
    let prefix: Option<String> = if r.chance(1, 2) { Some(r.pick_str(&["p", "svc.eu", "", "é"]).to_string()) } else { None };
    let globals = if r.chance(1, 2) { gen_labels(r, 2, false) } else { vec![] };
    let labels = if r.chance(1, 2) { gen_labels(r, 2, false) } else { vec![] };
    let rate = if r.chance(1, 3) { Some(*r.pick(&[1.0, 0.5, 0.3333333333333333, 1e-7])) } else { None };
    let probe = Call { kind, name: String::new(), labels: labels.clone(), vals: Vals::F(vec![]), ts: None, rate, prefix: prefix.clone(), globals: globals.clone() };
    // everything but the name and the values: "<prefix>." + "|h" + "|@rate" + "|#tags" + "\n"
    let tags = probe.tag_texts();
    let fixed = prefix.as_ref().map_or(0, |p| p.len() + 1)
        + 2
        + rate.map_or(0, |x| 2 + ryu_text(x).len())
        + if tags.is_empty() { 0 } else { 2 + tags.iter().map(|t| t.len()).sum::<usize>() + tags.len() - 1 }
        + 1;
    let width_of = |i: usize, n: usize| -> usize {
        match mix {
            0 => 24,
            1 => 23,
            2 => if i % 2 == 0 { 24 } else { 23 },
            3 => if i == n / 2 { 3 } else { 24 }, // all at the maximum but one short value in the middle
            4 => 3,
            _ => if i % 7 == 3 { 23 } else { 24 },
        }
    };
    let n = match max_hint {
        // the widest list for which the whole window is reachable with names of 1 ..= n + 8 bytes
        Some(m) => ((m.saturating_sub(fixed + 8)) / 26).max(1),
        None => n,
    };
    let vals: Vec<f64> = (0..n).map(|i| f64_of_width(r, width_of(i, n))).collect();
    let body: usize = vals.iter().map(|v| 1 + ryu_text(*v).len()).sum();
    let max = max_hint.unwrap_or(fixed + body + n + 6);
    let mut ops = vec![];
    let mut push = |name_len: usize, ops: &mut Vec<Op>| {
        let name: String = (0..name_len).map(|i| (b'a' + (i % 26) as u8) as char).collect();
        ops.push(Op::Write(Call { kind, name, labels: labels.clone(), vals: Vals::F(vals.clone()), ts: None, rate, prefix: prefix.clone(), globals: globals.clone() }));
        ops.push(Op::Drain);
    };
    // (1) the one-payload window: L - max from -(n+4) to +3, every limit (stride 1) or every `stride`-th plus both edges
    let centre = max as i64 - (fixed + body) as i64; // name length at which the message is exactly `max` bytes long
    let lo = centre - (n as i64 + 4);
    let hi = centre + 3;
    let mut d = lo;
    while d <= hi {
        if d >= 0 {
            push(d as usize, &mut ops);
        }
        let near_edge = d - lo < 3 || hi - d <= 6 || (d - (centre - n as i64)).abs() <= 2;
        d += if near_edge { 1 } else { stride as i64 };
    }
    // (2) alignment points of the split: exactly m values fit per payload, +-1 byte, for m = ceil(n/2) and m = 1
    if n >= 2 {
        for m in [(n + 1) / 2, 1usize] {
            let part: usize = vals[..m].iter().map(|v| 1 + ryu_text(*v).len()).sum();
            for delta in -1i64..=1 {
                let nl = max as i64 - (fixed + part) as i64 + delta;
                if nl >= 0 && nl <= 70_000 {
                    push(nl as usize, &mut ops);
                }
            }
        }
    }
    Case { max, lp, ops }
}

fn run_aimed_stream(cfg: &Cfg, out: &mut Out) {
    let mut idx = 0u64;
    let mut go = |out: &mut Out, tag: &str, n: usize, mix: usize, hint: Option<usize>, stride: usize, root: u64| {
        let mut r = Rng::new(root ^ 0xC09A).fork(idx);
        idx += 1;
        out.case(&format!("aimed-values {} n={} mix={} max={:?} #{}", tag, n, mix, hint, idx));
        let case = gen_aimed_case(&mut r, n, mix, hint, stride);
        out.count(&format!("aimed.mix{}", mix));
        out.count_n("aimed.writes", (case.ops.len() / 2) as u64);
        run_case(out, &case);
    };
    // deterministic part (the same for every seed): every limit of the window for short and medium lists, all mixes
    for &n in &[1usize, 2, 3, 4, 7, 16] {
        for mix in 0..6 {
            go(out, "fixed", n, mix, None, 1, 0);
        }
    }
    // the documented default limits with the longest all-wide list whose whole window is reachable (UDP 1432: 54 values, UDS 8192: 314)
    go(out, "default-udp", 0, 0, Some(1432), 1, 0);
    go(out, "default-udp", 0, 5, Some(1432), 1, 0);
    // (the list-based Lean writer is strongly superlinear in the number of values of ONE call: 314 values cost about
    // 2 s per write in the model, 100 values 20 ms — so the UDS default is scanned with a stride, thorough tier only)
    go(out, "mid", 0, 0, Some(2600), 1, 0);
    if cfg.thorough {
        go(out, "default-uds", 0, 0, Some(8192), 46, 0);
    }
    // seeded part: list lengths, mixes and configurations drawn per seed
    let k = if cfg.thorough { 36 } else { 8 };
    let mut rs = Rng::new(cfg.seed ^ 0xC09A7);
    for _ in 0..k {
        let n = match rs.below(3) {
            0 => rs.range(1, 8),
            1 => rs.range(8, 40),
            _ => rs.range(40, if cfg.thorough { 160 } else { 90 }),
        };
        let mix = rs.below(6);
        let stride = if n > 100 { 7 } else { 1 };
        go(out, "seeded", n, mix, None, stride, cfg.seed);
    }
}

pub fn run(cfg: &Cfg, out: &mut Out) {
    let prev = std::panic::take_hook();
    std::panic::set_hook(Box::new(|_| {}));
    for (tag, case) in corpus() {
        out.case(&format!("corpus {}", tag));
        run_case(out, &case);
    }
    run_aimed_stream(cfg, out);
    let root = Rng::new(cfg.seed ^ 0xC09);
    for i in 0..cfg.cases {
        let mut r = root.fork(i as u64);
        out.case(&format!("seed={} i={}", cfg.seed, i));
        let case = gen_case(&mut r, cfg.thorough);
        out.count(&format!(
            "max.{}",
            match case.max {
                0..=5 => "0-5",
                6..=40 => "6-40",
                41..=400 => "41-400",
                _ => "default",
            }
        ));
        out.count(if case.lp { "framing.length_prefixed" } else { "framing.plain" });
        run_case(out, &case);
    }
    // stream B: the same writer as `State::flush` drives it (oracle only; the aggregation itself is C10)
    let root_b = Rng::new(cfg.seed ^ 0xC09B);
    for i in 0..cfg.cases / 4 {
        let mut r = root_b.fork(i as u64);
        out.case(&format!("state-flush seed={} i={}", cfg.seed, i));
        run_state_case(out, &mut r);
    }
    // stream C: configuration — builder validation against the model for every transport, and whole exporters
    // built through the public builder, observed on real unix-stream / unix-datagram / UDP sockets
    run_config_stream(cfg, out);
    // stream D: the forwarder's client state machine on real sockets with an adversarial receiver
    run_forwarder_stream(cfg, out);
    // stream E: the REAL `Forwarder::run` loop, cycle by cycle, with a send that fails in the middle of a drain
    run_loop_stream(cfg, out);
    std::panic::set_hook(prev);
}

/// the tag section `|#g1,g2,k:v` of a metric with global labels `globals` and own labels `own`
fn tag_section(globals: &[(String, String)], own: &[(String, String)]) -> String {
    let t: Vec<String> = globals.iter().chain(own.iter()).map(|(k, v)| if v.is_empty() { k.clone() } else { format!("{}:{}", k, v) }).collect();
    if t.is_empty() {
        String::new()
    } else {
        format!("|#{}", t.join(","))
    }
}

/// the name `State::flush` must put on the wire: the global prefix applies to everything except the exporter's own
/// `datadog.dogstatsd.client…` telemetry
fn wire_name(prefix: &Option<String>, name: &str) -> String {
    match prefix {
        Some(p) if !name.starts_with("datadog.dogstatsd.client") => format!("{}.{}", p, name),
        _ => name.to_string(),
    }
}

/// the histogram values that can be sent at all for a message whose value-less length is `min_len`
fn sendable(max: usize, min_len: usize, vals: &[u64]) -> Vec<u64> {
    if min_len + 2 > max {
        return vec![];
    }
    vals.iter().copied().filter(|b| min_len + ryu_text(f64::from_bits(*b)).len() + 1 <= max).collect()
}

static KVALS: [&str; 2] = ["a", "b"];
const STATE_NAMES: &[&str] =
    &["reqs", "lat", "datadog.dogstatsd.client.x", "q", "datadog.other", "xdatadog.dogstatsd.client", "datadog.dogstatsd.clientele", "Ωq"];

/// `State::flush` into a long-lived writer over several flush cycles.  Everything the flush emits is predicted
/// from what was recorded: every datagram must be one of the expected counter / gauge / histogram messages (exact
/// name incl. the prefix rule, exact tags = global then own, exact counter sum / latest gauge value, histogram or
/// distribution type, sample rate present iff sampling is on and equal to reservoir/recorded), within the limit and
/// correctly framed; every metric whose message fits must be there; the histogram values on the wire are exactly
/// the recorded ones that can fit (unsampled) or a sub-multiset of reservoir size (sampled); and the point /
/// context / serializer-failure counters the flush reports must agree with what was emitted.
fn run_state_case(out: &mut Out, r: &mut Rng) {
    use metrics::{Key as MKey, Level, Metadata, Recorder};
    use std::collections::{BTreeMap, BTreeSet};
    static META: Metadata<'static> = Metadata::new("c09", Level::INFO, None);
    type Id = (String, String); // (metric name, value of its label `k`)
    // one case in four is a "block skew" case: a tight limit, sampling off, and histograms recorded block by block
    // (an unsampled histogram is flushed in blocks of 64 values, newest block first) where whole blocks consist of
    // values whose text cannot fit into any payload while other blocks of the same metric hold values that do
    let skew = r.chance(1, 4);
    let max = if skew { *r.pick(&[24usize, 32, 40, 64]) } else { *r.pick(&[24usize, 40, 64, 100, 200, 1432, 8192]) };
    let lp = r.chance(1, 2);
    let prefix = if r.chance(1, 2) { Some(r.pick_str(&["myservice", "p", "svc.eu", "é"]).to_string()) } else { None };
    let globals: Vec<(String, String)> = (0..r.below(3)).map(|i| (format!("g{}", i), r.pick_str(&["", "x", "eu-west-1"]).to_string())).collect();
    let as_dist = r.chance(1, 2);
    let aggressive = r.chance(1, 2);
    let sampling = r.chance(1, 3) && !skew;
    let reservoir = *r.pick(&[4usize, 16, 64]);
    let mut driver = StateDriver::new(
        aggressive,
        sampling,
        reservoir,
        as_dist,
        globals.iter().map(|(k, v)| Label::new(k.clone(), v.clone())).collect(),
        prefix.clone(),
    );
    let recorder = driver.recorder();
    let mut writer = Writer::new(max, lp);
    out.count(&format!("state.max={}", max));
    out.count(if sampling { "state.sampling=on" } else { "state.sampling=off" });
    let ctx = format!("State::flush max={} lp={} prefix={:?} globals={:?} dist={} aggressive={} sampling={}/{}", max, lp, prefix, globals, as_dist, aggressive, sampling, reservoir);
    let mut reg_gauges: BTreeMap<Id, u64> = BTreeMap::new(); // latest value bits
    let mut reg_counters: BTreeSet<Id> = BTreeSet::new();
    let mut names_seen: BTreeSet<String> = BTreeSet::new();
    let ts_sec = if aggressive { "|T1700000000" } else { "" }; // only its length matters (10 digits until 2286)
    for _cycle in 0..r.range(1, 3) {
        let mut c_sum: BTreeMap<Id, (u64, u64)> = BTreeMap::new(); // sum, number of increments
        let mut g_sets: BTreeMap<Id, u64> = BTreeMap::new(); // number of sets
        let mut h_rec: BTreeMap<Id, Vec<u64>> = BTreeMap::new();
        for _ in 0..r.range(1, 7) {
            let name = r.pick_str(STATE_NAMES);
            let kval = r.pick_str(&["a", "b"]);
            let id: Id = (name.to_string(), kval.to_string());
            names_seen.insert(name.to_string());
            let key = MKey::from_parts(name, vec![Label::new("k", kval)]);
            match r.below(3) {
                0 => {
                    let c = recorder.register_counter(&key, &META);
                    reg_counters.insert(id.clone());
                    for _ in 0..r.range(1, 3) {
                        let d = r.below(1000) as u64;
                        c.increment(d);
                        let e = c_sum.entry(id.clone()).or_insert((0, 0));
                        e.0 += d;
                        e.1 += 1;
                    }
                }
                1 => {
                    let g = recorder.register_gauge(&key, &META);
                    for _ in 0..r.range(1, 3) {
                        let v = special_f64(r);
                        g.set(v);
                        reg_gauges.insert(id.clone(), v.to_bits());
                        *g_sets.entry(id.clone()).or_insert(0) += 1;
                    }
                }
                _ if skew => {
                    let h = recorder.register_histogram(&key, &META);
                    let own = vec![("k".to_string(), kval.to_string())];
                    let min_len = wire_name(&prefix, name).len() + tag_section(&globals, &own).len() + 1 + 2;
                    let avail = max as isize - min_len as isize - 1; // longest value text that still fits
                    const TEXTS: [f64; 6] = [7.0, 1.5, 0.123456789, 1.2345678901234567e-100, -1.2345678901234567e-100, -1.2345678901234567e-300];
                    let short: Vec<f64> = TEXTS.iter().copied().filter(|v| ryu_text(*v).len() as isize <= avail).collect();
                    let long: Vec<f64> = TEXTS.iter().copied().filter(|v| ryu_text(*v).len() as isize > avail).collect();
                    let blocks = r.range(2, 4);
                    for b in 0..blocks {
                        let use_long = (r.chance(1, 2) && !long.is_empty()) || short.is_empty();
                        let n = if b + 1 == blocks && r.chance(1, 2) { r.range(1, 64) } else { 64 };
                        for _ in 0..n {
                            let v = if use_long { *r.pick(&long[..]) } else { *r.pick(&short[..]) };
                            h.record(v);
                            h_rec.entry(id.clone()).or_default().push(v.to_bits());
                        }
                        out.count(if use_long { "state.skew_block=unsendable" } else { "state.skew_block=sendable" });
                    }
                }
                _ => {
                    let h = recorder.register_histogram(&key, &META);
                    for _ in 0..r.range(1, 200) {
                        let v = special_f64(r);
                        let v = if v.is_nan() { 0.5 } else { v };
                        h.record(v);
                        h_rec.entry(id.clone()).or_default().push(v.to_bits());
                    }
                }
            }
        }
        let res = catch_unwind(AssertUnwindSafe(|| driver.flush(&mut writer)));
        let counts = match res {
            Ok(c) => c,
            Err(_) => {
                out.oracle_fail("serialisation panicked", &ctx);
                return;
            }
        };
        let slices = writer.drain();
        out.count_n("state.payloads", slices.len() as u64);
        let mut got_c: BTreeMap<Id, u64> = BTreeMap::new();
        let mut got_g: BTreeMap<Id, u64> = BTreeMap::new();
        let mut got_h: BTreeMap<Id, Vec<u64>> = BTreeMap::new();
        let mut got_rate: BTreeMap<Id, String> = BTreeMap::new();
        let mut cross_budget = 3usize;
        for s in &slices {
            let body: &[u8] = if lp {
                if s.len() < 4 || u32::from_le_bytes([s[0], s[1], s[2], s[3]]) as usize != s.len() - 4 {
                    out.oracle_fail("length-prefixed stream is mis-framed", &format!("{} slice={}", ctx, hex(s)));
                    return;
                }
                &s[4..]
            } else {
                &s[..]
            };
            if body.len() > max {
                out.oracle_fail("payload longer than the configured maximum", &format!("{} len={}", ctx, body.len()));
            }
            let d = match parse_datagram(body) {
                Err(e) => {
                    out.oracle_fail("emitted payload is not a DogStatsD datagram", &format!("{} :: {} :: {}", ctx, e, hex(body)));
                    return;
                }
                Ok(d) => d,
            };
            cross_read(out, &mut cross_budget, body, &d);
            // which recorded metric is this?
            let tags = d.tags.clone().unwrap_or_default();
            let id: Option<Id> = STATE_NAMES.iter().flat_map(|n| KVALS.iter().map(move |k| (n.to_string(), k.to_string()))).find(|(n, k)| {
                d.name == wire_name(&prefix, n) && tag_section(&globals, &[("k".to_string(), k.clone())]) == if tags.is_empty() { String::new() } else { format!("|#{}", tags.join(",")) }
            });
            let bad = |out: &mut Out, why: &str| {
                out.oracle_fail("datagram does not carry the call's name/type/rate/tags/timestamp", &format!("{} :: {} :: {:?}", ctx, why, d));
            };
            let id = match id {
                Some(id) => id,
                None => {
                    bad(out, "no recorded metric has this (prefixed) name with these tags (global labels first, then its own)");
                    return;
                }
            };
            let ts_ok = |d: &Datagram| d.ts.is_some() == aggressive;
            match d.ty.as_str() {
                "c" => {
                    let v = d.values[0].parse::<u64>();
                    if d.values.len() != 1 || v.is_err() || d.rate.is_some() || !ts_ok(&d) || !reg_counters.contains(&id) || got_c.insert(id.clone(), *v.as_ref().unwrap_or(&0)).is_some() {
                        bad(out, "counter message malformed, unknown or repeated within one flush");
                        return;
                    }
                    if v.unwrap() != c_sum.get(&id).map_or(0, |e| e.0) {
                        out.oracle_fail("counter value does not read back", &format!("{} :: {:?} expected sum {:?}", ctx, d, c_sum.get(&id)));
                    }
                }
                "g" => {
                    let exp = reg_gauges.get(&id).copied();
                    if d.values.len() != 1 || d.rate.is_some() || !ts_ok(&d) || exp.is_none() || got_g.insert(id.clone(), 0).is_some() {
                        bad(out, "gauge message malformed, unknown or repeated within one flush");
                        return;
                    }
                    if !same_f64(&d.values[0], f64::from_bits(exp.unwrap())) {
                        out.oracle_fail("emitted values are not the input values in order at round-trip precision", &format!("{} :: gauge {:?} expected {:?}", ctx, d, f64::from_bits(exp.unwrap())));
                    }
                }
                "h" | "d" => {
                    if (d.ty == "d") != as_dist || d.ts.is_some() || d.rate.is_some() != sampling || !h_rec.contains_key(&id) {
                        bad(out, "histogram message: wrong type for the configuration, a timestamp, a sample rate without sampling (or none with it), or nothing was recorded for it");
                        return;
                    }
                    if let Some(rt) = &d.rate {
                        if let Some(prev) = got_rate.insert(id.clone(), rt.clone()) {
                            if &prev != rt {
                                bad(out, "two payloads of one sampled histogram flush carry different sample rates");
                            }
                        }
                    }
                    for v in &d.values {
                        got_h.entry(id.clone()).or_default().push(v.parse::<f64>().unwrap().to_bits());
                    }
                }
                _ => {
                    bad(out, "unexpected type");
                    return;
                }
            }
        }
        // completeness: every metric whose message fits is on the wire
        let own = |id: &Id| vec![("k".to_string(), id.1.clone())];
        let mut failed_scalars = 0u64;
        let mut failed_counters = 0u64;
        let mut zero_counter_too_long = false;
        let mut exp_counter_points = 0u64;
        for id in &reg_counters {
            let (sum, n) = c_sum.get(id).copied().unwrap_or((0, 0));
            let text = format!("{}:{}|c{}{}\n", wire_name(&prefix, &id.0), sum, tag_section(&globals, &own(id)), ts_sec);
            let fits = text.len() <= max;
            if got_c.contains_key(id) {
                exp_counter_points += n;
            }
            if sum != 0 {
                if fits != got_c.contains_key(id) {
                    out.oracle_fail("points emitted + points dropped differs from the number of input points", &format!("{} :: counter {:?} sum {} (message of {} bytes) {}", ctx, id, sum, text.len(), if fits { "fits but was not emitted" } else { "cannot fit but was emitted" }));
                }
                if !fits {
                    failed_scalars += 1;
                    failed_counters += 1;
                }
            } else if !fits {
                zero_counter_too_long = true;
            }
        }
        let mut exp_gauge_points = 0u64;
        for (id, bits) in &reg_gauges {
            let text = format!("{}:{}|g{}{}\n", wire_name(&prefix, &id.0), ryu_text(f64::from_bits(*bits)), tag_section(&globals, &own(id)), ts_sec);
            let fits = text.len() <= max;
            if fits != got_g.contains_key(id) {
                out.oracle_fail("points emitted + points dropped differs from the number of input points", &format!("{} :: gauge {:?} (message of {} bytes) {}", ctx, id, text.len(), if fits { "fits but was not emitted" } else { "cannot fit but was emitted" }));
            }
            if fits {
                exp_gauge_points += g_sets.get(id).copied().unwrap_or(0);
            } else {
                failed_scalars += 1;
            }
        }
        let mut exp_hist_points = 0u64;
        let mut hist_with_drops = 0u64;
        for (id, rec) in &h_rec {
            let mut got = got_h.get(id).cloned().unwrap_or_default();
            got.sort();
            let n = rec.len();
            let (rate, rate_text): (f64, String) = if !sampling {
                (1.0, String::new())
            } else if n <= reservoir {
                (1.0, format!("|@{}", ryu_text(1.0)))
            } else {
                let rt = reservoir as f64 / n as f64;
                (rt, format!("|@{}", ryu_text(rt)))
            };
            if sampling {
                if let Some(rt) = got_rate.get(id) {
                    if !same_f64(rt, rate) {
                        out.oracle_fail("datagram does not carry the call's name/type/rate/tags/timestamp", &format!("{} :: histogram {:?}: {} values recorded, reservoir {}, sample rate on the wire {} expected {}", ctx, id, n, reservoir, rt, rate));
                    }
                }
            }
            let min_len = wire_name(&prefix, &id.0).len() + rate_text.len() + tag_section(&globals, &own(id)).len() + 1 + 2;
            let mut all = rec.clone();
            all.sort();
            if !sampling || n <= reservoir {
                let mut exp = sendable(max, min_len, rec);
                exp.sort();
                if exp != got {
                    out.oracle_fail("emitted values are not the input values in order at round-trip precision", &format!("{} :: histogram {:?}: recorded {} values, {} can be sent, {} on the wire (or different ones)", ctx, id, n, exp.len(), got.len()));
                }
                if exp.len() < n {
                    hist_with_drops += 1;
                }
            } else {
                // a sample of exactly `reservoir` recorded values was handed to the writer; those that fit are on the wire
                let mut i = 0;
                let mut sub = true;
                for g in &got {
                    while i < all.len() && all[i] < *g {
                        i += 1;
                    }
                    if i == all.len() || all[i] != *g {
                        sub = false;
                        break;
                    }
                    i += 1;
                }
                let fit_all = sendable(max, min_len, rec).len() == n;
                if !sub || got.len() > reservoir || (fit_all && got.len() != reservoir) {
                    out.oracle_fail("emitted values are not the input values in order at round-trip precision", &format!("{} :: sampled histogram {:?}: recorded {}, reservoir {}, on the wire {} (not a sample of the recorded values of reservoir size)", ctx, id, n, reservoir, got.len()));
                }
                if got.len() < reservoir {
                    hist_with_drops += 1;
                }
            }
            exp_hist_points += (got.len() as f64 / rate) as u64;
        }
        for id in got_h.keys() {
            if !h_rec.contains_key(id) {
                out.oracle_fail("emitted values are not the input values in order at round-trip precision", &format!("{} :: histogram {:?} emitted without recorded values", ctx, id));
            }
        }
        // what the flush reports
        let mut report = vec![];
        if counts.histogram_points != exp_hist_points {
            report.push(format!("histogram_points={} expected {}", counts.histogram_points, exp_hist_points));
        }
        if counts.gauge_points != exp_gauge_points {
            report.push(format!("gauge_points={} expected {}", counts.gauge_points, exp_gauge_points));
        }
        if counts.counter_points != exp_counter_points {
            report.push(format!("counter_points={} expected {}", counts.counter_points, exp_counter_points));
        }
        if counts.gauge_contexts != reg_gauges.len() as u64 {
            report.push(format!("gauge_contexts={} expected {}", counts.gauge_contexts, reg_gauges.len()));
        }
        if counts.histogram_contexts != h_rec.len() as u64 {
            report.push(format!("histogram_contexts={} expected {}", counts.histogram_contexts, h_rec.len()));
        }
        if counts.counter_contexts < got_c.len() as u64 || (!zero_counter_too_long && counts.counter_contexts != got_c.len() as u64 + failed_counters) {
            report.push(format!("counter_contexts={} with {} counter messages emitted", counts.counter_contexts, got_c.len()));
        }
        let lower = failed_scalars + hist_with_drops;
        if counts.packets_dropped_serializer < lower || (lower == 0 && !zero_counter_too_long && counts.packets_dropped_serializer != 0) {
            report.push(format!("packets_dropped_serializer={} with {} metrics that could not be serialised", counts.packets_dropped_serializer, lower));
        }
        if !report.is_empty() {
            out.oracle_fail("points emitted + points dropped differs from the number of input points", &format!("{} :: reported counts do not match what was emitted: {}", ctx, report.join("; ")));
        }
        out.nontrivial();
    }
    // the prefix rule, name by name, against the model (`flushPrefix`): observed = whether the wire name carried it
    for n in &names_seen {
        let observed = if wire_name(&prefix, n) == *n { "~".to_string() } else { hexs(prefix.as_ref().unwrap()) };
        out.op(&format!("statsd fprefix {} {}", opt_hexs(prefix.as_deref()), hexs(n)), &observed);
    }
}

// ---------------------------------------------------------------------------------------------
// stream C: configuration (builder validation, framing-mode selection, defaults) and end to end

fn addr_for(transport: &str, path: &str) -> String {
    match transport {
        "udp" => "127.0.0.1:9".to_string(),
        "unixgram" => format!("unixgram://{}", path),
        _ => format!("unix://{}", path),
    }
}

fn run_config_stream(cfg: &Cfg, out: &mut Out) {
    use metrics_exporter_dogstatsd::DogStatsDBuilder;
    // (1) validation: the real builder's verdict for every transport and a spread of limits, against the model
    out.case("config validation");
    let mut r = Rng::new(cfg.seed ^ 0xC09C);
    let mut limits: Vec<Option<usize>> = vec![None];
    for m in [0usize, 1, 1432, 8192, 65_526, 65_527, 65_528, 65_535, 65_536, 1 << 20, u32::MAX as usize - 1, u32::MAX as usize] {
        limits.push(Some(m));
    }
    if usize::BITS > 32 {
        for m in [(1u64 << 32) as usize, (1u64 << 32) as usize + 1, usize::MAX] {
            limits.push(Some(m));
        }
    }
    for _ in 0..6 {
        limits.push(Some((r.next() >> r.below(64)) as usize));
    }
    for t in ["udp", "unixgram", "unix"] {
        for m in &limits {
            let b = DogStatsDBuilder::default().with_remote_address(addr_for(t, "/nonexistent/c09.sock")).expect("address parses");
            let verdict = match m {
                None => "ok".to_string(), // nothing to validate before build(); build() itself is exercised below
                Some(m) => match b.with_maximum_payload_length(*m) {
                    Ok(_) => "ok".to_string(),
                    Err(_) => "err".to_string(),
                },
            };
            out.count(&format!("cfg.validate.{}", verdict));
            out.op(&format!("statsd validate {} {}", t, m.map_or("~".to_string(), |m| m.to_string())), &verdict);
        }
    }
    out.nontrivial();
    // (2) end to end: exporters built through the public builder, one flush cycle observed on a real socket
    let n = if cfg.thorough { 12 } else { 4 };
    for i in 0..n {
        let mut rr = Rng::new(cfg.seed ^ 0xC09E).fork(i as u64);
        let transport = ["unix", "unixgram", "udp", "unix"][i % 4];
        out.case(&format!("e2e {} seed={} i={}", transport, cfg.seed, i));
        run_e2e_case(out, &mut rr, transport, i);
    }
}

fn run_e2e_case(out: &mut Out, r: &mut Rng, transport: &str, idx: usize) {
    use metrics::{Key as MKey, Level, Metadata, Recorder};
    use metrics_exporter_dogstatsd::DogStatsDBuilder;
    use std::io::Read;
    use std::time::{Duration, Instant};
    static META: Metadata<'static> = Metadata::new("c09", Level::INFO, None);
    let dir = std::env::temp_dir().join(format!("mv-c09-{}-{}", std::process::id(), idx));
    let _ = std::fs::remove_dir_all(&dir);
    std::fs::create_dir_all(&dir).unwrap();
    let path = dir.join("s.sock");
    let path_s = path.to_str().unwrap().to_string();
    let configured: Option<usize> = match r.below(3) {
        0 => None,
        1 => Some(*r.pick(&[64usize, 200, 1432, 4000])),
        _ => None,
    };
    // documented: "Defaults to 1432 bytes for UDP, and 8192 bytes for Unix domain sockets"
    let max = configured.unwrap_or(if transport == "udp" { 1432 } else { 8192 });
    let prefix = if r.chance(1, 2) { Some(r.pick_str(&["svc", "é"]).to_string()) } else { None };
    let globals: Vec<(String, String)> = (0..r.below(3)).map(|i| (format!("g{}", i), r.pick_str(&["", "x"]).to_string())).collect();
    let as_dist = r.chance(1, 2);
    // sockets first (the forwarder connects lazily at its first flush)
    let stream_l = if transport == "unix" { Some(std::os::unix::net::UnixListener::bind(&path).unwrap()) } else { None };
    let dgram = if transport == "unixgram" { Some(std::os::unix::net::UnixDatagram::bind(&path).unwrap()) } else { None };
    let udp = if transport == "udp" { Some(std::net::UdpSocket::bind("127.0.0.1:0").unwrap()) } else { None };
    let addr = match &udp {
        Some(u) => format!("127.0.0.1:{}", u.local_addr().unwrap().port()),
        None => addr_for(transport, &path_s),
    };
    let mut b = DogStatsDBuilder::default()
        .with_remote_address(&addr)
        .expect("address parses")
        .with_flush_interval(Duration::from_millis(150))
        .with_telemetry(false)
        .with_histogram_sampling(false)
        .send_histograms_as_distributions(as_dist)
        .with_global_labels(globals.iter().map(|(k, v)| Label::new(k.clone(), v.clone())).collect());
    if let Some(p) = &prefix {
        b = b.set_global_prefix(p.clone());
    }
    if let Some(m) = configured {
        b = b.with_maximum_payload_length(m).expect("valid limit");
    }
    let recorder = b.build().expect("exporter builds");
    // record: one histogram with enough values for several payloads, one counter, one gauge
    let own = vec![("k".to_string(), "a".to_string())];
    let hkey = MKey::from_parts("lat", vec![Label::new("k", "a")]);
    let n_vals = (max / 4).max(40).min(4000);
    let mut rec: Vec<u64> = vec![];
    {
        let h = recorder.register_histogram(&hkey, &META);
        for _ in 0..n_vals {
            let v = match r.below(3) {
                0 => (r.below(100_000) as f64) / 8.0,
                1 => r.below(1000) as f64,
                _ => long_f64(r),
            };
            h.record(v);
            rec.push(v.to_bits());
        }
        recorder.register_counter(&MKey::from_parts("reqs", vec![Label::new("k", "a")]), &META).increment(41);
        recorder.register_gauge(&MKey::from_parts("datadog.dogstatsd.client.depth", vec![Label::new("k", "a")]), &META).set(2.5);
    }
    let tagsec = tag_section(&globals, &own);
    // limit probes: two gauges whose messages are exactly `max` and `max + 1` bytes long — the first must arrive,
    // the second must not (an unsampled histogram is handed over in blocks of 64 values, so how full its payloads
    // are says nothing about the limit)
    let probe_overhead = wire_name(&prefix, "").len() + ":1.5|g".len() + tagsec.len() + 1;
    let probes = max >= probe_overhead + 4;
    let fit_name = format!("f{}", "i".repeat(max.saturating_sub(probe_overhead + 1)));
    let nofit_name = format!("n{}", "o".repeat(max.saturating_sub(probe_overhead)));
    if probes {
        recorder.register_gauge(&MKey::from_parts(fit_name.clone(), vec![Label::new("k", "a")]), &META).set(1.5);
        recorder.register_gauge(&MKey::from_parts(nofit_name.clone(), vec![Label::new("k", "a")]), &META).set(1.5);
    }
    let fit_wire = wire_name(&prefix, &fit_name);
    let nofit_wire = wire_name(&prefix, &nofit_name);
    let hname = wire_name(&prefix, "lat");
    let min_len = hname.len() + tagsec.len() + 1 + 2;
    let mut expected = sendable(max, min_len, &rec);
    expected.sort();
    let counter_text = format!("{}:41|c{}\n", wire_name(&prefix, "reqs"), tagsec);
    let gauge_text = format!("datadog.dogstatsd.client.depth:2.5|g{}\n", tagsec);
    let want_counter = counter_text.len() <= max;
    let want_gauge = gauge_text.len() <= max;
    // read until everything expected has arrived (generous deadline: the forwarder flushes every 150 ms and splays
    // its payloads over one interval; 30 s only ever matters on a stalled machine)
    let deadline = Instant::now() + Duration::from_secs(30);
    let mut bodies: Vec<Vec<u8>> = vec![];
    let mut misframed: Option<String> = None;
    let complete = |bodies: &Vec<Vec<u8>>| -> bool {
        let mut n = 0usize;
        let (mut c, mut g, mut f) = (false, false, false);
        for b in bodies {
            if let Ok(d) = parse_datagram(b) {
                if d.ty == "h" || d.ty == "d" {
                    n += d.values.len();
                } else if d.ty == "c" && d.values[0] == "41" {
                    c = true;
                } else if d.ty == "g" && d.name == fit_wire {
                    f = true;
                } else if d.ty == "g" {
                    g = true;
                }
            }
        }
        n >= expected.len() && (c || !want_counter) && (g || !want_gauge) && (f || !probes)
    };
    let lp_observed: bool;
    if let Some(l) = &stream_l {
        l.set_nonblocking(true).unwrap();
        let mut conn = None;
        while Instant::now() < deadline {
            match l.accept() {
                Ok((c, _)) => {
                    conn = Some(c);
                    break;
                }
                Err(_) => std::thread::sleep(Duration::from_millis(5)),
            }
        }
        let mut buf: Vec<u8> = vec![];
        if let Some(mut c) = conn {
            c.set_nonblocking(false).unwrap();
            c.set_read_timeout(Some(Duration::from_millis(200))).unwrap();
            let mut chunk = [0u8; 65536];
            'outer: while Instant::now() < deadline {
                match c.read(&mut chunk) {
                    Ok(0) => break,
                    Ok(k) => buf.extend_from_slice(&chunk[..k]),
                    Err(_) => {}
                }
                // de-frame what is complete so far
                loop {
                    if buf.len() < 4 {
                        break;
                    }
                    let len = u32::from_le_bytes([buf[0], buf[1], buf[2], buf[3]]) as usize;
                    if len > max {
                        misframed = Some(format!("frame header announces {} bytes with a limit of {}; stream so far: {}", len, max, hex(&buf[..buf.len().min(120)])));
                        break 'outer;
                    }
                    if buf.len() < 4 + len {
                        break;
                    }
                    bodies.push(buf[4..4 + len].to_vec());
                    buf.drain(..4 + len);
                }
                if complete(&bodies) {
                    break;
                }
            }
        }
        lp_observed = misframed.is_none();
    } else {
        let mut chunk = vec![0u8; 1 << 17];
        let recv = |chunk: &mut [u8]| -> Option<usize> {
            if let Some(d) = &dgram {
                d.set_read_timeout(Some(Duration::from_millis(200))).unwrap();
                d.recv(chunk).ok()
            } else {
                let u = udp.as_ref().unwrap();
                u.set_read_timeout(Some(Duration::from_millis(200))).unwrap();
                u.recv(chunk).ok()
            }
        };
        while Instant::now() < deadline {
            if let Some(k) = recv(&mut chunk) {
                bodies.push(chunk[..k].to_vec());
                if complete(&bodies) {
                    break;
                }
            }
        }
        // a datagram that starts with its own little-endian length would be a length-prefixed one
        lp_observed = !bodies.is_empty()
            && bodies.iter().all(|b| b.len() >= 4 && u32::from_le_bytes([b[0], b[1], b[2], b[3]]) as usize == b.len() - 4);
        if lp_observed {
            misframed = Some(format!("datagram transport carries length-prefixed payloads: {}", hex(&bodies[0][..bodies[0].len().min(80)])));
        }
    }
    let _ = std::fs::remove_dir_all(&dir);
    let ctx = format!("e2e {} configured max={:?} (effective {}) prefix={:?} globals={:?} dist={}", transport, configured, max, prefix, globals, as_dist);
    out.count(&format!("e2e.{}", transport));
    out.count_n("e2e.payloads", bodies.len() as u64);
    // oracles on what arrived
    let largest_nonlast = 0usize;
    let mut largest = 0usize;
    let mut got: Vec<u64> = vec![];
    let (mut saw_c, mut saw_g) = (false, false);
    let (mut saw_fit, mut saw_nofit) = (false, false);
    let mut hist_sizes: Vec<usize> = vec![];
    let mut ok = misframed.is_none();
    if let Some(m) = &misframed {
        out.oracle_fail("length-prefixed stream is mis-framed", &format!("{} :: {}", ctx, m));
    }
    if ok {
        for b in &bodies {
            largest = largest.max(b.len());
            if b.len() > max {
                out.oracle_fail("payload longer than the configured maximum", &format!("{} len={}", ctx, b.len()));
            }
            match parse_datagram(b) {
                Err(e) => {
                    out.oracle_fail("emitted payload is not a DogStatsD datagram", &format!("{} :: {} :: {}", ctx, e, hex(&b[..b.len().min(200)])));
                    ok = false;
                    break;
                }
                Ok(d) => {
                    let tags = d.tags.clone().map_or(String::new(), |t| format!("|#{}", t.join(",")));
                    let good = match d.ty.as_str() {
                        "h" | "d" => {
                            hist_sizes.push(b.len());
                            got.extend(d.values.iter().map(|v| v.parse::<f64>().unwrap().to_bits()));
                            d.name == hname && tags == tagsec && (d.ty == "d") == as_dist && d.rate.is_none() && d.ts.is_none()
                        }
                        "c" => {
                            saw_c |= d.values[0] == "41";
                            d.name == wire_name(&prefix, "reqs") && tags == tagsec && (d.values[0] == "41" || d.values[0] == "0") && d.ts.is_none()
                        }
                        "g" if probes && d.name == fit_wire => {
                            saw_fit = true;
                            tags == tagsec && d.values[0] == "1.5" && b.len() == max
                        }
                        "g" if probes && d.name == nofit_wire => {
                            saw_nofit = true;
                            false
                        }
                        "g" => {
                            saw_g = true;
                            d.name == "datadog.dogstatsd.client.depth" && tags == tagsec && d.values[0] == "2.5"
                        }
                        _ => false,
                    };
                    if !good {
                        out.oracle_fail("datagram does not carry the call's name/type/rate/tags/timestamp", &format!("{} :: {:?}", ctx, d));
                        ok = false;
                        break;
                    }
                }
            }
        }
    }
    if ok {
        got.sort();
        if got != expected || saw_c != want_counter || saw_g != want_gauge {
            // UDP may lose datagrams; the stream and the unix datagram socket may not
            let lossy = transport == "udp" && got.len() <= expected.len();
            if !lossy {
                out.oracle_fail(
                    "points emitted + points dropped differs from the number of input points",
                    &format!("{} :: recorded {} histogram values, {} can be sent, {} arrived (or different ones); counter arrived={} expected={}; gauge arrived={} expected={}", ctx, rec.len(), expected.len(), got.len(), saw_c, want_counter, saw_g, want_gauge),
                );
            } else {
                out.count("e2e.udp_loss");
            }
        }
    }
    // the model's view of this configuration: the limit and framing mode of the forwarder's writer.  Observed: the
    // framing on the socket; the limit from the two probes (a message of exactly `max` bytes arrives, one of
    // `max + 1` bytes never does)
    let _ = (&hist_sizes, largest_nonlast);
    let limit_consistent = largest <= max && !saw_nofit && (saw_fit || !probes || transport == "udp");
    let observed_max = if limit_consistent { max } else { largest };
    if ok && !limit_consistent {
        out.oracle_fail("payload longer than the configured maximum", &format!("{} :: the effective limit is not the configured / documented default one: largest payload {}, {}-byte probe arrived={}, {}-byte probe arrived={}", ctx, largest, max, saw_fit, max + 1, saw_nofit));
    }
    out.op(
        &format!("statsd cfg {} {}", transport, configured.map_or("~".to_string(), |m| m.to_string())),
        &format!("ok max={} lp={}", observed_max, lp_observed as u8),
    );
    out.nontrivial();
}

// ---------------------------------------------------------------------------------------------
// stream D: the forwarder's client state machine (forwarder/sync.rs `ClientState::try_send`) on real sockets with
// an adversarial receiver.  Single-threaded and therefore deterministic: the receiver only ever reads BETWEEN two
// sends, so whether a send fits into the socket buffer (Ok) or runs into the write timeout in the middle of a frame
// (Err after a partial `write_all`) is decided by the kernel's buffer state alone, never by timing.  Every
// `try_send` goes to the Lean model (`sfwd send`) together with what the environment did (connect result, bytes
// accepted); result, client state and number of connections are compared per op, the bytes of every connection at
// the end of the case (`sfwd wire`).
//
// Implementation-side oracles (independent of the model): each connection's byte stream must de-frame into whole
// length-prefixed frames followed by at most one truncated frame; every whole frame is a payload that was sent, in
// send order; the whole frames of all connections together are exactly the payloads whose send returned Ok (each
// once); a truncated rest is a proper prefix of a payload whose send failed; frame bodies are DogStatsD datagrams.

#[derive(Clone, Debug)]
enum FOp {
    /// `try_send` of pool payload `i`
    Send(usize),
    /// the receiver reads everything that is queued on every connection
    Read,
    /// from now on the receiver reads after every send / stops doing so
    Auto(bool),
    /// the receiver closes its end of the newest connection (after reading what is queued: `true`)
    CloseLive(bool),
    /// the receiving endpoint goes away (listener / datagram socket closed, path removed) / comes back
    Down,
    Up,
}

fn fnv1a(bs: &[u8]) -> u64 {
    let mut h: u64 = 2166136261;
    for b in bs {
        h = ((h ^ (*b as u64)) * 16777619) % 4294967296;
    }
    h
}

/// the Agent's stream reader: complete frame bodies and the unconsumed rest
fn deframe_stream(bs: &[u8]) -> (Vec<&[u8]>, &[u8]) {
    let mut frames = vec![];
    let mut at = 0usize;
    loop {
        if bs.len() - at < 4 {
            break;
        }
        let n = u32::from_le_bytes([bs[at], bs[at + 1], bs[at + 2], bs[at + 3]]) as usize;
        if bs.len() - at - 4 < n {
            break;
        }
        frames.push(&bs[at + 4..at + 4 + n]);
        at += 4 + n;
    }
    (frames, &bs[at..])
}

/// payloads exactly as the real writer hands them to the socket (length prefix included in stream mode)
fn fwd_pool(r: &mut Rng, lp: bool, big: bool) -> (usize, Vec<Vec<u8>>) {
    let max = if big { 1usize << 20 } else { *r.pick(&[200usize, 8192, 65536, 65536]) };
    let mut w = Writer::new(max, lp);
    let prefix = if r.chance(1, 2) { Some("svc") } else { None };
    let globals = if r.chance(1, 2) { vec![Label::new("env", "prod")] } else { vec![] };
    w.write_counter(&Key::from_name("reqs"), r.below(100_000) as u64, None, prefix, &globals);
    w.write_gauge(&Key::from_parts("depth", vec![Label::new("k", "a")]), 2.5, Some(1_700_000_000), prefix, &globals);
    let n = (max / 4).min(40_000);
    let vals: Vec<f64> = (0..n).map(|_| (r.below(100_000) as f64) / 8.0).collect();
    w.write_distribution(&Key::from_parts("lat", vec![Label::new("k", "a")]), &vals, None, prefix, &globals);
    if big {
        let blob = "x".repeat(r.range(300_000, 600_000));
        w.write_counter(&Key::from_parts("big", vec![Label::new("blob", blob)]), 1, None, prefix, &globals);
    }
    let mut pool = w.drain();
    // keep the pool small: the two scalars, the largest and one more histogram payload, the blob
    if pool.len() > 6 {
        let last = pool.pop().unwrap();
        pool.truncate(5);
        pool.push(last);
    }
    (max, pool)
}

fn fwd_script(r: &mut Rng, pool: &[Vec<u8>], thorough: bool) -> Vec<FOp> {
    let mut s = vec![];
    let largest = (0..pool.len()).max_by_key(|i| pool[*i].len()).unwrap_or(0);
    if r.chance(1, 2) {
        s.push(FOp::Auto(true));
    }
    let n = r.range(8, if thorough { 60 } else { 40 });
    for _ in 0..n {
        match r.weighted(&[10, 8, 2, 1, 1, 1, 1, 1]) {
            0 => s.push(FOp::Send(r.below(pool.len()))),
            1 => s.push(FOp::Send(largest)), // fills the socket buffer of a stalled receiver
            2 => s.push(FOp::Read),
            3 => s.push(FOp::Auto(r.chance(1, 2))),
            4 => s.push(FOp::CloseLive(r.chance(1, 2))),
            5 => s.push(FOp::Down),
            6 => s.push(FOp::Up),
            _ => {
                // a stall long enough to tear a frame, then the receiver catches up and traffic continues
                s.push(FOp::Auto(false));
                for _ in 0..r.range(1, 30) {
                    s.push(FOp::Send(largest));
                }
                s.push(FOp::Read);
                for _ in 0..r.range(1, 4) {
                    s.push(FOp::Send(r.below(pool.len())));
                }
            }
        }
    }
    s
}

struct RxConn {
    sock: Option<std::os::unix::net::UnixStream>,
    data: Vec<u8>,
    eof: bool,
}

impl RxConn {
    /// read what is queued (non-blocking)
    fn pump(&mut self) {
        use std::io::Read;
        let mut chunk = vec![0u8; 1 << 16];
        while let Some(s) = self.sock.as_mut() {
            match s.read(&mut chunk) {
                Ok(0) => {
                    self.eof = true;
                    self.sock = None;
                }
                Ok(k) => self.data.extend_from_slice(&chunk[..k]),
                Err(e) if e.kind() == std::io::ErrorKind::Interrupted => {}
                Err(e) if e.kind() == std::io::ErrorKind::WouldBlock => break,
                Err(_) => {
                    // ECONNRESET and the like: nothing more will come
                    self.eof = true;
                    self.sock = None;
                }
            }
        }
    }
}

fn run_fwd_case(out: &mut Out, stream: bool, max: usize, pool: &[Vec<u8>], script: &[FOp], idx: usize) {
    use metrics_exporter_dogstatsd::verif::ForwarderClient;
    use std::os::unix::net::{UnixDatagram, UnixListener};
    use std::time::Duration;
    let dir = std::env::temp_dir().join(format!("mv-c09f-{}-{}", std::process::id(), idx));
    let _ = std::fs::remove_dir_all(&dir);
    std::fs::create_dir_all(&dir).unwrap();
    let path = dir.join("s.sock");
    let addr = format!("{}://{}", if stream { "unix" } else { "unixgram" }, path.to_str().unwrap());
    // the write timeout only bounds how long a send into a full buffer takes; no outcome depends on its value
    let timeout = Duration::from_millis(20);
    let mut client = ForwarderClient::new(&addr, max, timeout).expect("address parses");
    let ctx = format!(
        "forwarder client {} max={} write_timeout={:?} payload lengths={:?} script={:?}",
        addr,
        max,
        timeout,
        pool.iter().map(|p| p.len()).collect::<Vec<_>>(),
        script
    );
    if client.is_length_prefixed() != stream {
        out.oracle_fail("length-prefixed stream is mis-framed", &format!("{} :: is_length_prefixed() = {} for this transport", ctx, client.is_length_prefixed()));
    }
    out.op(&format!("sfwd new {}", stream as u8), "ok");
    for (i, p) in pool.iter().enumerate() {
        out.op(&format!("sfwd def {} {}", i, hex(p)), &format!("ok len={}", p.len()));
    }
    let mut listener: Option<UnixListener> = None;
    let mut dsock: Option<UnixDatagram> = None;
    let up = |listener: &mut Option<UnixListener>, dsock: &mut Option<UnixDatagram>| {
        let _ = std::fs::remove_file(&path);
        if stream {
            let l = UnixListener::bind(&path).unwrap();
            l.set_nonblocking(true).unwrap();
            *listener = Some(l);
        } else {
            let d = UnixDatagram::bind(&path).unwrap();
            d.set_nonblocking(true).unwrap();
            *dsock = Some(d);
        }
    };
    up(&mut listener, &mut dsock);
    let mut conns: Vec<RxConn> = vec![];
    let mut acct: Vec<usize> = vec![]; // bytes of each connection already attributed to a send
    let mut dgrams: Vec<Vec<u8>> = vec![];
    let mut auto = false;
    // the sends made, in order: (pool index, returned Ok)
    let mut sends: Vec<(usize, bool)> = vec![];
    let mut torn: Vec<Vec<u8>> = vec![]; // payloads whose send failed
    let (mut n_torn, mut n_timeouts, mut n_other_err, mut n_connfail) = (0u64, 0u64, 0u64, 0u64);
    let read_all = |conns: &mut Vec<RxConn>, dsock: &Option<UnixDatagram>, dgrams: &mut Vec<Vec<u8>>| {
        for c in conns.iter_mut() {
            c.pump();
        }
        if let Some(d) = dsock {
            let mut chunk = vec![0u8; 1 << 17];
            while let Ok(k) = d.recv(&mut chunk) {
                dgrams.push(chunk[..k].to_vec());
            }
        }
    };
    for op in script {
        match op {
            FOp::Read => read_all(&mut conns, &dsock, &mut dgrams),
            FOp::Auto(b) => auto = *b,
            FOp::CloseLive(read_first) => {
                if let Some(c) = conns.last_mut() {
                    // always read what is queued first: a receiver that closes with unread data throws away payloads
                    // that were reported as sent, which no sender can prevent (`read_first` only varies the script)
                    let _ = read_first;
                    c.pump();
                    c.sock = None; // closes the receiver's end
                    out.count("fwd.receiver_closed");
                }
            }
            FOp::Down => {
                // a datagram socket that goes away takes its queue with it: read first, so that "Ok" still means "received"
                read_all(&mut conns, &dsock, &mut dgrams);
                listener = None;
                dsock = None;
                let _ = std::fs::remove_file(&path);
            }
            FOp::Up => {
                if listener.is_none() && dsock.is_none() {
                    up(&mut listener, &mut dsock);
                }
            }
            FOp::Send(i) => {
                let p = &pool[*i];
                let was_ready = client.is_ready();
                let before = conns.len();
                let res = client.try_send(p);
                if let Some(l) = &listener {
                    while let Ok((c, _)) = l.accept() {
                        c.set_nonblocking(true).unwrap();
                        conns.push(RxConn { sock: Some(c), data: vec![], eof: false });
                        acct.push(0);
                    }
                }
                let connected_now = if stream { conns.len() > before } else { !was_ready && dsock.is_some() };
                if stream && conns.len() > before + 1 {
                    out.oracle_fail("forwarder opened more than one connection for one payload", &ctx);
                }
                let had_socket = was_ready || connected_now;
                // what the environment did, as observed
                let env_c = if was_ready { "c0" } else if connected_now { "c1" } else { "c0" };
                let env_w = match &res {
                    Ok(_) => "full".to_string(),
                    Err(e) => {
                        let timed_out = matches!(e.kind(), std::io::ErrorKind::WouldBlock | std::io::ErrorKind::TimedOut);
                        if !had_socket {
                            n_connfail += 1;
                            "full".to_string() // no write was attempted; the model must not look at this
                        } else {
                            if timed_out {
                                n_timeouts += 1;
                            } else {
                                n_other_err += 1;
                            }
                            if stream {
                                // how much of the payload made it into the stream: everything on that connection
                                // beyond what earlier sends put there
                                let c = conns.len() - 1;
                                conns[c].pump();
                                let k = conns[c].data.len().saturating_sub(acct[c]);
                                if k > 0 {
                                    n_torn += 1;
                                }
                                format!("f{}", k)
                            } else {
                                "f0".to_string()
                            }
                        }
                    }
                };
                if stream && had_socket {
                    let c = conns.len() - 1;
                    acct[c] += match &res {
                        Ok(_) => p.len(),
                        Err(_) => env_w[1..].parse::<usize>().unwrap_or(0),
                    };
                }
                sends.push((*i, res.is_ok()));
                if res.is_err() {
                    torn.push(p.clone());
                }
                let state = if client.is_ready() { "ready" } else { "disc" };
                let tail = if stream { format!(" conns={}", conns.len()) } else { String::new() };
                let answer = match &res {
                    Ok(n) => format!("ok {} {}{}", n, state, tail),
                    Err(_) => format!("err {}{}", state, tail),
                };
                out.op(&format!("sfwd send {} {} {}", i, env_c, env_w), &answer);
                if let Ok(n) = &res {
                    if *n != p.len() {
                        out.oracle_fail("the reported written/dropped counts differ from what was emitted", &format!("{} :: try_send returned Ok({}) for a payload of {} bytes", ctx, n, p.len()));
                    }
                }
                if auto {
                    read_all(&mut conns, &dsock, &mut dgrams);
                }
            }
        }
    }
    // the exporter goes away: every connection ends; the receiver reads each one to its end
    drop(client);
    for c in conns.iter_mut() {
        if let Some(s) = &c.sock {
            s.set_nonblocking(false).unwrap();
            s.set_read_timeout(Some(Duration::from_secs(20))).unwrap();
        }
        use std::io::Read;
        let mut chunk = vec![0u8; 1 << 16];
        while let Some(s) = c.sock.as_mut() {
            match s.read(&mut chunk) {
                Ok(0) => {
                    c.eof = true;
                    c.sock = None;
                }
                Ok(k) => c.data.extend_from_slice(&chunk[..k]),
                Err(e) if e.kind() == std::io::ErrorKind::Interrupted => {}
                Err(e) if matches!(e.kind(), std::io::ErrorKind::WouldBlock | std::io::ErrorKind::TimedOut) => {
                    out.oracle_fail("forwarder connection still open after the client was dropped", &ctx);
                    c.sock = None;
                }
                Err(_) => {
                    c.eof = true;
                    c.sock = None;
                }
            }
        }
    }
    read_all(&mut conns, &dsock, &mut dgrams);
    let _ = std::fs::remove_dir_all(&dir);
    out.count(if stream { "fwd.stream" } else { "fwd.dgram" });
    out.count_n("fwd.sends", sends.len() as u64);
    out.count_n("fwd.sends_ok", sends.iter().filter(|s| s.1).count() as u64);
    out.count_n("fwd.torn_frames", n_torn);
    out.count_n("fwd.write_timeouts", n_timeouts);
    out.count_n("fwd.other_send_errors", n_other_err);
    out.count_n("fwd.connect_failures", n_connfail);
    out.count_n("fwd.connections", conns.len() as u64);
    if n_torn > 0 || n_timeouts > 0 || n_other_err > 0 {
        out.nontrivial();
    }
    // ---- oracles on what the receiver got
    let ok_payloads: Vec<&Vec<u8>> = sends.iter().filter(|s| s.1).map(|s| &pool[s.0]).collect();
    if stream {
        let mut received: Vec<Vec<u8>> = vec![];
        let mut wire = vec![];
        for (ci, c) in conns.iter().enumerate() {
            let (frames, rest) = deframe_stream(&c.data);
            let bodies: Vec<u8> = frames.iter().flat_map(|f| f.iter().copied()).collect();
            wire.push(format!("{}/{}/{}/{}/{}", c.data.len(), fnv1a(&c.data), frames.len(), fnv1a(&bodies), rest.len()));
            // every whole frame is a payload that was sent, in send order
            let mut at = 0usize;
            for f in &frames {
                let mut full = (f.len() as u32).to_le_bytes().to_vec();
                full.extend_from_slice(f);
                match sends[at..].iter().position(|s| pool[s.0] == full) {
                    Some(j) => at += j + 1,
                    None => {
                        out.oracle_fail(
                            "length-prefixed stream is mis-framed",
                            &format!("{} :: connection {} of {}: the receiver reads a frame of {} bytes that is not a payload that was sent (in order): {}…", ctx, ci, conns.len(), f.len(), hex(&f[..f.len().min(48)])),
                        );
                        return;
                    }
                }
                if f.len() > max {
                    out.oracle_fail("payload longer than the configured maximum", &format!("{} len={}", ctx, f.len()));
                }
                if f.len() <= 70_000 {
                    if let Err(e) = parse_datagram(f) {
                        out.oracle_fail("emitted payload is not a DogStatsD datagram", &format!("{} :: {} :: {}", ctx, e, hex(&f[..f.len().min(200)])));
                        return;
                    }
                }
                received.push(full);
            }
            if !rest.is_empty() && !torn.iter().any(|p| rest.len() < p.len() && p[..rest.len()] == *rest) {
                out.oracle_fail(
                    "length-prefixed stream is mis-framed",
                    &format!("{} :: connection {} ends with {} bytes that are not the beginning of a payload whose send failed: {}…", ctx, ci, rest.len(), hex(&rest[..rest.len().min(48)])),
                );
                return;
            }
        }
        // every payload reported as sent arrives exactly once, nothing else arrives whole
        let mut want: Vec<&[u8]> = ok_payloads.iter().map(|p| &p[..]).collect();
        let mut got: Vec<&[u8]> = received.iter().map(|p| &p[..]).collect();
        want.sort();
        got.sort();
        let fine = want == got;
        if !fine {
            out.oracle_fail(
                "points emitted + points dropped differs from the number of input points",
                &format!("{} :: {} payloads were reported as sent, the receiver de-framed {} whole frames (all connections); they are not the same payloads", ctx, want.len(), got.len()),
            );
            return;
        }
        out.op("sfwd wire", &list(wire));
    } else {
        let all: Vec<u8> = dgrams.iter().flat_map(|d| d.iter().copied()).collect();
        for d in &dgrams {
            if d.len() > max {
                out.oracle_fail("payload longer than the configured maximum", &format!("{} len={}", ctx, d.len()));
            }
        }
        let want: Vec<&[u8]> = ok_payloads.iter().map(|p| &p[..]).collect();
        let got: Vec<&[u8]> = dgrams.iter().map(|p| &p[..]).collect();
        if want != got {
            out.oracle_fail(
                "points emitted + points dropped differs from the number of input points",
                &format!("{} :: {} datagrams were reported as sent, {} arrived (or other ones / another order)", ctx, want.len(), got.len()),
            );
            return;
        }
        out.op("sfwd wire", &format!("{}/{}", dgrams.len(), fnv1a(&all)));
    }
}

pub(crate) fn run_forwarder_stream(cfg: &Cfg, out: &mut Out) {
    // corpus: the shapes that tear a frame
    let mut r0 = Rng::new(0xC09F);
    let (max_b, pool_b) = fwd_pool(&mut r0, true, true);
    let big = pool_b.len() - 1;
    let corpus: Vec<(&str, bool, usize, Vec<Vec<u8>>, Vec<FOp>)> = vec![
        (
            "stalled receiver, one payload larger than the socket buffer, receiver resumes, traffic continues",
            true,
            max_b,
            pool_b.clone(),
            vec![FOp::Send(0), FOp::Send(big), FOp::Read, FOp::Send(0), FOp::Send(1), FOp::Send(2), FOp::Read, FOp::Send(big), FOp::Send(1)],
        ),
        (
            "backlog of unread payloads fills the socket buffer, receiver resumes",
            true,
            max_b,
            pool_b.clone(),
            {
                let mut s = vec![FOp::Auto(false)];
                for _ in 0..40 {
                    s.push(FOp::Send(2));
                }
                s.extend([FOp::Read, FOp::Send(0), FOp::Send(1), FOp::Auto(true), FOp::Send(2), FOp::Send(0)]);
                s
            },
        ),
        (
            "endpoint absent at first, then present; receiver closes; endpoint goes away and comes back",
            true,
            max_b,
            pool_b.clone(),
            vec![FOp::Down, FOp::Send(0), FOp::Send(1), FOp::Up, FOp::Send(0), FOp::Send(1), FOp::CloseLive(true), FOp::Send(0), FOp::Send(1), FOp::Down, FOp::CloseLive(false), FOp::Send(0), FOp::Send(0), FOp::Up, FOp::Send(1), FOp::Read],
        ),
    ];
    let mut idx = 1000usize;
    for (tag, stream, max, pool, script) in &corpus {
        out.case(&format!("forwarder corpus: {}", tag));
        run_fwd_case(out, *stream, *max, pool, script, idx);
        idx += 1;
    }
    {
        let (max_d, pool_d) = fwd_pool(&mut r0, false, false);
        out.case("forwarder corpus: datagram socket, stalled receiver, receiver resumes, endpoint goes away and comes back");
        let mut s = vec![FOp::Auto(false)];
        for _ in 0..14 {
            s.push(FOp::Send(0));
        }
        s.extend([FOp::Read, FOp::Send(1), FOp::Send(2), FOp::Down, FOp::Send(0), FOp::Send(0), FOp::Up, FOp::Send(1), FOp::Read]);
        run_fwd_case(out, false, max_d, &pool_d, &s, idx);
        idx += 1;
    }
    let n = if cfg.thorough { 60 } else { 10 };
    let root = Rng::new(cfg.seed ^ 0xC09F);
    for i in 0..n {
        let mut r = root.fork(i as u64);
        let stream = !r.chance(1, 4);
        let big = stream && r.chance(1, 5);
        let (max, pool) = fwd_pool(&mut r, stream, big);
        let script = fwd_script(&mut r, &pool, cfg.thorough);
        out.case(&format!("forwarder {} seed={} i={}", if stream { "unix" } else { "unixgram" }, cfg.seed, i));
        run_fwd_case(out, stream, max, &pool, &script, idx);
        idx += 1;
    }
}

// ---------------------------------------------------------------------------------------------
// stream E (round 7): the real `Forwarder::run` loop (forwarder/sync.rs), cycle by cycle.
//
// An exporter is built through the public builder; the `#[cfg(metrics_verif)]` observer `verif::set_run_observer`
// is called by the forwarder thread at the end of the payload loop of every cycle with the cycle's `TelemetryUpdate`
// counters, and BLOCKS there until the harness acknowledges.  While the forwarder is blocked the harness (1) sends a
// sentinel datagram to the receiving socket and reads everything up to it (so the datagrams of exactly this cycle
// are known: a unix datagram socket queues in order, and nothing else is sent while the forwarder is blocked),
// (2) checks the cycle, (3) records the inputs of the next cycle, (4) acknowledges.  Nothing depends on timing: the
// first cycle(s) before the first acknowledgement are empty (nothing is recorded before the first observer call).
//
// mode "unixgram-fault": limit 2^20 on a unix datagram socket; one gauge has a name of 300 000 bytes, so its payload
// is larger than the socket's send buffer (`wmem_default` 212 992) and `send` fails with EMSGSIZE in EVERY cycle — in
// the middle of the drain (flush order: counters, gauges, histograms), deterministically and by the kernel alone.
// The payloads after it (the histogram) must still be attempted and arrive, on a fresh socket; the cycle's counters
// must say: sent = what arrived (packets and bytes), dropped = the one oversized payload (packets and bytes).
// modes "udp4" / "udp6": the same over UDP to 127.0.0.1 / ::1 with the default limit and no oversized payload; what
// the model says about the connect (`sfwd udp`, from the bind call of the CURRENT source) must be what happens.
// Each cycle also goes to the Lean model (`sfwd cycle`), payloads by their predicted lengths.

type CycleMsg = (metrics_exporter_dogstatsd::verif::RunCycle, std::sync::mpsc::Sender<()>);

fn cycle_routes() -> &'static std::sync::Mutex<std::collections::HashMap<String, std::sync::mpsc::Sender<CycleMsg>>> {
    static ROUTES: std::sync::OnceLock<std::sync::Mutex<std::collections::HashMap<String, std::sync::mpsc::Sender<CycleMsg>>>> =
        std::sync::OnceLock::new();
    ROUTES.get_or_init(|| {
        metrics_exporter_dogstatsd::verif::set_run_observer(Some(std::sync::Arc::new(|c| {
            let tx = cycle_routes().lock().unwrap().get(&c.remote).cloned();
            if let Some(tx) = tx {
                let (ack_tx, ack_rx) = std::sync::mpsc::channel();
                if tx.send((c.clone(), ack_tx)).is_ok() {
                    // released by the harness; a harness that went away releases by dropping the sender
                    let _ = ack_rx.recv_timeout(std::time::Duration::from_secs(120));
                }
            }
        })));
        std::sync::Mutex::new(std::collections::HashMap::new())
    })
}

fn run_loop_stream(cfg: &Cfg, out: &mut Out) {
    let modes: &[&str] = if cfg.thorough {
        &["unixgram-fault", "udp6", "udp4", "unixgram-fault", "unixgram-fault", "udp6"]
    } else {
        &["unixgram-fault", "udp6", "udp4"]
    };
    for (i, mode) in modes.iter().enumerate() {
        let mut r = Rng::new(cfg.seed ^ 0xC09E7).fork(i as u64);
        out.case(&format!("run-loop {} seed={} i={}", mode, cfg.seed, i));
        run_loop_case(out, &mut r, mode, i, if cfg.thorough { 6 } else { 4 });
    }
}

fn run_loop_case(out: &mut Out, r: &mut Rng, mode: &str, idx: usize, cycles: usize) {
    use metrics::{Key as MKey, Level, Metadata, Recorder};
    use metrics_exporter_dogstatsd::DogStatsDBuilder;
    use std::time::Duration;
    static META: Metadata<'static> = Metadata::new("c09", Level::INFO, None);
    enum Rx {
        Unix(std::os::unix::net::UnixDatagram),
        Udp(std::net::UdpSocket),
    }
    let dir = std::env::temp_dir().join(format!("mv-c09-loop-{}-{}", std::process::id(), idx));
    let _ = std::fs::remove_dir_all(&dir);
    std::fs::create_dir_all(&dir).unwrap();
    let path = dir.join("s.sock");
    let fault = mode == "unixgram-fault";
    let (rx, addr, remote, sentinel_to): (Rx, String, String, String) = match mode {
        "unixgram-fault" => {
            let s = std::os::unix::net::UnixDatagram::bind(&path).unwrap();
            let p = path.to_str().unwrap().to_string();
            (Rx::Unix(s), format!("unixgram://{}", p), format!("unixgram://{}", p), p)
        }
        _ => {
            let bind = if mode == "udp6" { "[::1]:0" } else { "127.0.0.1:0" };
            let s = match std::net::UdpSocket::bind(bind) {
                Ok(s) => s,
                Err(_) => {
                    // no such address family on this machine: nothing to observe
                    out.count(&format!("runloop.{}.unavailable", mode));
                    let _ = std::fs::remove_dir_all(&dir);
                    return;
                }
            };
            let a = s.local_addr().unwrap().to_string(); // "127.0.0.1:port" / "[::1]:port"
            (Rx::Udp(s), format!("udp://{}", a), format!("udp://{}", a), a)
        }
    };
    // what the model says about this transport's connect (UDP: from the bind call of the current source)
    let connect_expected = if fault { true } else { udp_model_connects(out, mode) };
    let prefix = if r.chance(1, 2) { Some(r.pick_str(&["svc", "é"]).to_string()) } else { None };
    let globals: Vec<(String, String)> = (0..r.below(3)).map(|i| (format!("g{}", i), r.pick_str(&["", "x"]).to_string())).collect();
    let as_dist = r.chance(1, 2);
    let (tx, cycle_rx) = std::sync::mpsc::channel::<CycleMsg>();
    cycle_routes().lock().unwrap().insert(remote.clone(), tx);
    let mut b = DogStatsDBuilder::default()
        .with_remote_address(&addr)
        .expect("address parses")
        .with_flush_interval(Duration::from_millis(60))
        .with_telemetry(false)
        .with_histogram_sampling(false)
        .send_histograms_as_distributions(as_dist)
        .with_global_labels(globals.iter().map(|(k, v)| Label::new(k.clone(), v.clone())).collect());
    if let Some(p) = &prefix {
        b = b.set_global_prefix(p.clone());
    }
    if fault {
        b = b.with_maximum_payload_length(1 << 20).expect("valid limit");
    }
    let recorder = b.build().expect("exporter builds");
    let own = vec![("k".to_string(), "a".to_string())];
    let tagsec = tag_section(&globals, &own);
    let huge_name = "x".repeat(300_000);
    // handles are registered inside the first blocked window (a registered counter is flushed once with value 0)
    let mut handles: Option<(metrics::Counter, metrics::Histogram)> = None;
    let ctx = format!("run-loop {} prefix={:?} globals={:?} dist={}", mode, prefix, globals, as_dist);
    // reader thread: every datagram, in arrival order
    let (dg_tx, dg_rx) = std::sync::mpsc::channel::<Vec<u8>>();
    let stop = std::sync::Arc::new(std::sync::atomic::AtomicBool::new(false));
    let stop2 = stop.clone();
    let reader = std::thread::spawn(move || {
        let mut buf = vec![0u8; 1 << 20];
        match &rx {
            Rx::Unix(s) => s.set_read_timeout(Some(Duration::from_millis(50))).unwrap(),
            Rx::Udp(s) => s.set_read_timeout(Some(Duration::from_millis(50))).unwrap(),
        }
        while !stop2.load(std::sync::atomic::Ordering::Relaxed) {
            let got = match &rx {
                Rx::Unix(s) => s.recv(&mut buf).ok(),
                Rx::Udp(s) => s.recv(&mut buf).ok(),
            };
            if let Some(k) = got {
                if dg_tx.send(buf[..k].to_vec()).is_err() {
                    break;
                }
            }
        }
    });
    out.op("sfwd new 0", "ok");
    // inputs recorded for the coming cycle (none before the first observer call)
    let mut pending: Option<(u64, Vec<f64>)> = None;
    let mut gauges_registered = false;
    let mut observed = 0usize;
    let mut rx_total = (0u64, 0u64);
    let mut failed = false;
    let mut ready_state = false;
    while observed < cycles {
        let (cyc, ack) = match cycle_rx.recv_timeout(Duration::from_secs(60)) {
            Ok(m) => m,
            Err(_) => {
                out.oracle_fail(
                    "forwarder stopped flushing",
                    &format!("{} :: no flush cycle of Forwarder::run ended within 60 s after {} observed cycles (flush interval 60 ms): the forwarder thread is gone or stuck", ctx, observed),
                );
                failed = true;
                break;
            }
        };
        // the forwarder is blocked now: everything it sent in this cycle is in the receiving socket's queue
        let sentinel = format!("#sentinel {}", observed);
        let sent_ok = match mode {
            "unixgram-fault" => std::os::unix::net::UnixDatagram::unbound().and_then(|s| s.send_to(sentinel.as_bytes(), &sentinel_to)).is_ok(),
            _ => std::net::UdpSocket::bind(if mode == "udp6" { "[::1]:0" } else { "127.0.0.1:0" })
                .and_then(|s| s.send_to(sentinel.as_bytes(), &sentinel_to))
                .is_ok(),
        };
        let mut got: Vec<Vec<u8>> = vec![];
        let mut saw_sentinel = !sent_ok;
        loop {
            // after the sentinel: UDP only, a short grace for datagrams of other senders still in the loopback path
            let wait = if saw_sentinel { Duration::from_millis(if fault { 0 } else { 120 }) } else { Duration::from_secs(20) };
            match dg_rx.recv_timeout(wait) {
                Ok(d) if d == sentinel.as_bytes() => saw_sentinel = true,
                Ok(d) => got.push(d),
                Err(_) => break,
            }
            if saw_sentinel && fault {
                break;
            }
        }
        // what this cycle must have produced, in flush order: counter, gauges, histogram
        let mut expect: Vec<(Vec<u8>, bool)> = vec![]; // (payload, must arrive)
        if let Some((delta, vals)) = &pending {
            expect.push((format!("{}:{}|c{}\n", wire_name(&prefix, "reqs"), delta, tagsec).into_bytes(), connect_expected));
            expect.push((format!("datadog.dogstatsd.client.depth:2.5|g{}\n", tagsec).into_bytes(), connect_expected));
            if fault {
                expect.push((format!("{}:1.5|g{}\n", wire_name(&prefix, &huge_name), tagsec).into_bytes(), false));
            }
            let vt: Vec<String> = vals.iter().map(|v| ryu_text(*v)).collect();
            expect.push((format!("{}:{}|{}{}\n", wire_name(&prefix, "lat"), vt.join(":"), if as_dist { "d" } else { "h" }, tagsec).into_bytes(), connect_expected));
        }
        let n_expect_rx = expect.iter().filter(|e| e.1).count();
        // model: the payload loop of this cycle.  Environment per payload: connects succeed iff the model's connect
        // verdict says so; the oversized datagram is refused by the socket
        let items: Vec<String> = expect
            .iter()
            .map(|(p, arrives)| format!("{}:{}:{}", p.len(), if connect_expected { "c1" } else { "c0" }, if *arrives || !connect_expected { "full" } else { "f0" }))
            .collect();
        rx_total.0 += got.len() as u64;
        rx_total.1 += got.iter().map(|d| d.len() as u64).sum::<u64>();
        // `Ready` after the cycle iff its last send succeeded (an empty cycle leaves the client as it was)
        if let Some(last) = expect.last() {
            ready_state = last.1;
        }
        let s = &cyc.send;
        out.op(
            &format!("sfwd cycle {}", if items.is_empty() { ".".to_string() } else { items.join(",") }),
            &format!(
                "sent={} bytes_sent={} dropped={} dropped_writer={} bytes_dropped={} bytes_dropped_writer={} rx={}/{} {}",
                s.packets_sent, s.bytes_sent, s.packets_dropped, s.packets_dropped_writer, s.bytes_dropped, s.bytes_dropped_writer, rx_total.0, rx_total.1,
                if ready_state { "ready" } else { "disc" }
            ),
        );
        out.count(&format!("runloop.{}.cycles", mode));
        out.count_n(&format!("runloop.{}.datagrams", mode), got.len() as u64);
        // implementation-side oracles (independent of the model)
        // (a) counts are truthful: sent = what arrived, dropped = what was emitted and did not arrive
        let lossy = !fault && (got.len() as u64) < s.packets_sent; // UDP may lose datagrams, a unix datagram socket may not
        if lossy {
            out.count("runloop.udp_loss");
        }
        if !lossy && (s.packets_sent != got.len() as u64 || s.bytes_sent != got.iter().map(|d| d.len() as u64).sum::<u64>()) {
            out.oracle_fail(
                "reported sent/dropped payload counts differ from what was emitted",
                &format!("{} cycle {} :: the forwarder counted {} payloads / {} bytes as sent, the receiver got {} datagrams / {} bytes", ctx, observed, s.packets_sent, s.bytes_sent, got.len(), got.iter().map(|d| d.len()).sum::<usize>()),
            );
            failed = true;
        }
        let exp_dropped: Vec<&(Vec<u8>, bool)> = expect.iter().filter(|e| !e.1).collect();
        let exp_dropped_bytes: u64 = exp_dropped.iter().map(|e| e.0.len() as u64).sum();
        if s.packets_dropped != exp_dropped.len() as u64
            || s.packets_dropped_writer != exp_dropped.len() as u64
            || s.bytes_dropped != exp_dropped_bytes
            || s.bytes_dropped_writer != exp_dropped_bytes
            || s.packets_sent + s.packets_dropped != expect.len() as u64
        {
            out.oracle_fail(
                "reported sent/dropped payload counts differ from what was emitted",
                &format!(
                    "{} cycle {} :: the flush emitted {} payloads of which {} ({} bytes) cannot be delivered; the forwarder counted sent={} dropped={} dropped_writer={} bytes_dropped={} bytes_dropped_writer={}",
                    ctx, observed, expect.len(), exp_dropped.len(), exp_dropped_bytes, s.packets_sent, s.packets_dropped, s.packets_dropped_writer, s.bytes_dropped, s.bytes_dropped_writer
                ),
            );
            failed = true;
        }
        // (b) every payload that can be delivered arrives exactly once, byte for byte — in particular those AFTER the
        // failed one (histogram values compared as a multiset: block order is the bucket's business)
        if !lossy {
            let canon = |p: &[u8]| -> String {
                match parse_datagram(p) {
                    Ok(d) if d.ty == "h" || d.ty == "d" => {
                        let mut v: Vec<u64> = d.values.iter().map(|x| x.parse::<f64>().map_or(0, |f| f.to_bits())).collect();
                        v.sort();
                        format!("{}|{}|{:?}|{:?}|{:?}|{:?}", d.name, d.ty, v, d.rate, d.tags, d.ts)
                    }
                    _ => hex(p),
                }
            };
            let mut want: Vec<String> = expect.iter().filter(|e| e.1).map(|e| canon(&e.0)).collect();
            let mut have: Vec<String> = got.iter().map(|d| canon(d)).collect();
            want.sort();
            have.sort();
            if want != have {
                let missing: Vec<&String> = want.iter().filter(|w| !have.contains(w)).collect();
                out.oracle_fail(
                    "points emitted + points dropped differs from the number of input points",
                    &format!(
                        "{} cycle {} :: {} payloads expected at the receiver, {} arrived; missing (first): {:.200}; a payload after a failed send was not attempted, or one was sent twice / altered",
                        ctx, observed, n_expect_rx, got.len(), missing.first().map_or("-".to_string(), |m| m.to_string())
                    ),
                );
                failed = true;
            }
        }
        for d in &got {
            if parse_datagram(d).is_err() {
                out.oracle_fail("emitted payload is not a DogStatsD datagram", &format!("{} cycle {} :: {}", ctx, observed, hex(&d[..d.len().min(200)])));
                failed = true;
            }
        }
        observed += 1;
        if failed {
            drop(ack);
            break;
        }
        // the next cycle's inputs, recorded while the forwarder is blocked
        if !gauges_registered {
            gauges_registered = true;
            recorder.register_gauge(&MKey::from_parts("datadog.dogstatsd.client.depth", vec![Label::new("k", "a")]), &META).set(2.5);
            if fault {
                recorder.register_gauge(&MKey::from_parts(huge_name.clone(), vec![Label::new("k", "a")]), &META).set(1.5);
            }
        }
        let (counter, hist) = handles.get_or_insert_with(|| {
            (
                recorder.register_counter(&MKey::from_parts("reqs", vec![Label::new("k", "a")]), &META),
                recorder.register_histogram(&MKey::from_parts("lat", vec![Label::new("k", "a")]), &META),
            )
        });
        let delta = r.range(1, 1000) as u64;
        counter.increment(delta);
        let vals: Vec<f64> = (0..r.range(1, 40)).map(|_| if r.chance(1, 3) { long_f64(r) } else { (r.below(100_000) as f64) / 8.0 }).collect();
        for v in &vals {
            hist.record(*v);
        }
        pending = Some((delta, vals));
        let _ = ack.send(());
    }
    // release the forwarder for good (it keeps flushing an idle registry; the route is gone, so it never blocks again)
    cycle_routes().lock().unwrap().remove(&remote);
    while let Ok((_, ack)) = cycle_rx.try_recv() {
        let _ = ack.send(());
    }
    stop.store(true, std::sync::atomic::Ordering::Relaxed);
    let _ = reader.join();
    let _ = std::fs::remove_dir_all(&dir);
    if observed >= 2 {
        out.nontrivial();
    }
}

/// `sfwd udp <family>`: the model's verdict on connecting the UDP client of the current source to an address of this
/// family, compared with what the real client does (`verif::ForwarderClient` is not needed: one `try_send`-free probe
/// would not be the exporter; the exporter's own cycles below are the observation, this op only fetches the verdict).
fn udp_model_connects(out: &mut Out, mode: &str) -> bool {
    // the real code's verdict, observed directly on the forwarder's client: connect a client of the exporter's
    // configuration to a live socket of this family and look at the result of the first send
    let fam = if mode == "udp6" { "v6" } else { "v4" };
    let bind = if mode == "udp6" { "[::1]:0" } else { "127.0.0.1:0" };
    let rx = match std::net::UdpSocket::bind(bind) {
        Ok(s) => s,
        Err(_) => return false,
    };
    let addr = format!("udp://{}", rx.local_addr().unwrap());
    let mut client = metrics_exporter_dogstatsd::verif::ForwarderClient::new(&addr, 1432, std::time::Duration::from_secs(1)).expect("address parses");
    let ok = client.try_send(b"probe:1|c\n").is_ok();
    out.op(&format!("sfwd udp {}", fam), if ok { "connect=ok" } else { "connect=refused" });
    out.count(&format!("runloop.udp.{}.{}", fam, if ok { "connects" } else { "refused" }));
    ok
}
